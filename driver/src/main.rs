// deltio-verif engine A: a rustc_private driver that dumps `mir_built` of every
// hand-written body of the crates under analysis as JSON facts (CFG, statements,
// resolved callees, types, constants, ADTs).  It is used as RUSTC_WORKSPACE_WRAPPER;
// cargo invokes it as `<driver> <rustc> <args..>`.
//
// Nothing here decides a property: the driver is a faithful serialiser of the
// type-checked program; all rules live in /verif/rules (python).
#![feature(rustc_private)]
#![allow(clippy::all)]

extern crate rustc_abi;
extern crate rustc_data_structures;
extern crate rustc_driver;
extern crate rustc_hir;
extern crate rustc_index;
extern crate rustc_interface;
extern crate rustc_middle;
extern crate rustc_session;
extern crate rustc_span;

use rustc_driver::{Callbacks, Compilation};
use rustc_hir::def::DefKind;
use rustc_hir::def_id::{DefId, LocalDefId, LOCAL_CRATE};
use rustc_middle::mir::{
    AggregateKind, BasicBlock, Body, BorrowKind, Const, ConstOperand, Operand, Place, PlaceElem,
    Rvalue, StatementKind, TerminatorKind, UnwindAction,
};
use rustc_middle::ty::print::{with_no_trimmed_paths, with_crate_prefix};
use rustc_middle::ty::{self, GenericArgKind, Instance, Ty, TyCtxt, TypingEnv, TypeVisitableExt};
use rustc_span::Span;
use std::collections::HashMap;
use std::fmt::Write as _;

// ------------------------------------------------------------------------------------------
// tiny JSON writer
// ------------------------------------------------------------------------------------------
fn jstr(s: &str) -> String {
    let mut o = String::with_capacity(s.len() + 2);
    o.push('"');
    for c in s.chars() {
        match c {
            '"' => o.push_str("\\\""),
            '\\' => o.push_str("\\\\"),
            '\n' => o.push_str("\\n"),
            '\r' => o.push_str("\\r"),
            '\t' => o.push_str("\\t"),
            c if (c as u32) < 0x20 => {
                let _ = write!(o, "\\u{:04x}", c as u32);
            }
            c => o.push(c),
        }
    }
    o.push('"');
    o
}

fn jlist(items: &[String]) -> String {
    let mut o = String::from("[");
    for (i, it) in items.iter().enumerate() {
        if i > 0 {
            o.push(',');
        }
        o.push_str(it);
    }
    o.push(']');
    o
}

fn jobj(items: &[(&str, String)]) -> String {
    let mut o = String::from("{");
    for (i, (k, v)) in items.iter().enumerate() {
        if i > 0 {
            o.push(',');
        }
        o.push_str(&jstr(k));
        o.push(':');
        o.push_str(v);
    }
    o.push('}');
    o
}

fn jopt_usize(v: Option<usize>) -> String {
    match v {
        Some(n) => n.to_string(),
        None => "null".to_string(),
    }
}

// ------------------------------------------------------------------------------------------
// context
// ------------------------------------------------------------------------------------------
struct Cx<'tcx> {
    tcx: TyCtxt<'tcx>,
    types: Vec<String>,
    type_ix: HashMap<String, usize>,
}

impl<'tcx> Cx<'tcx> {
    fn path(&self, def_id: DefId) -> String {
        with_no_trimmed_paths!(with_crate_prefix!(self.tcx.def_path_str(def_id)))
    }

    fn intern(&mut self, s: String) -> usize {
        if let Some(&i) = self.type_ix.get(&s) {
            return i;
        }
        let i = self.types.len();
        self.types.push(s.clone());
        self.type_ix.insert(s, i);
        i
    }

    fn reveal(&self, env: TypingEnv<'tcx>, ty: Ty<'tcx>) -> Ty<'tcx> {
        // Reveal opaque types (`impl Future` of async fns) where possible.
        if ty.has_opaque_types() || ty.has_aliases() {
            match self.tcx.try_normalize_erasing_regions(env, ty::Unnormalized::new_wip(ty)) {
                Ok(t) => t,
                Err(_) => ty,
            }
        } else {
            ty
        }
    }

    fn args_str(&self, args: &[ty::GenericArg<'tcx>]) -> Vec<String> {
        let mut v = Vec::new();
        for a in args {
            match a.kind() {
                GenericArgKind::Type(t) => v.push(self.ty_str(t)),
                GenericArgKind::Const(c) => v.push(format!("{}", c)),
                GenericArgKind::Lifetime(_) => {}
            }
        }
        v
    }

    /// Canonical type printing: full paths, closures/coroutines by def path.
    fn ty_str(&self, ty: Ty<'tcx>) -> String {
        match *ty.kind() {
            ty::Adt(adt, args) => {
                let p = self.path(adt.did());
                let a = self.args_str(args.as_slice());
                if a.is_empty() {
                    p
                } else {
                    format!("{}<{}>", p, a.join(", "))
                }
            }
            ty::Ref(_, t, m) => {
                if m.is_mut() {
                    format!("&mut {}", self.ty_str(t))
                } else {
                    format!("&{}", self.ty_str(t))
                }
            }
            ty::RawPtr(t, m) => {
                if m.is_mut() {
                    format!("*mut {}", self.ty_str(t))
                } else {
                    format!("*const {}", self.ty_str(t))
                }
            }
            ty::Tuple(ts) => {
                let v: Vec<String> = ts.iter().map(|t| self.ty_str(t)).collect();
                format!("({})", v.join(", "))
            }
            ty::Slice(t) => format!("[{}]", self.ty_str(t)),
            ty::Array(t, n) => format!("[{}; {}]", self.ty_str(t), n),
            ty::Closure(def, _) => format!("{{closure:{}}}", self.path(def)),
            ty::Coroutine(def, _) => format!("{{coroutine:{}}}", self.path(def)),
            ty::CoroutineClosure(def, _) => format!("{{coroutine_closure:{}}}", self.path(def)),
            ty::CoroutineWitness(def, _) => format!("{{witness:{}}}", self.path(def)),
            ty::FnDef(def, args) => {
                let a = self.args_str(args.as_slice());
                if a.is_empty() {
                    format!("{{fn:{}}}", self.path(def))
                } else {
                    format!("{{fn:{}<{}>}}", self.path(def), a.join(", "))
                }
            }
            ty::Alias(..) => {
                let s = with_no_trimmed_paths!(with_crate_prefix!(ty.to_string()));
                format!("{{alias:{}}}", s)
            }
            _ => with_no_trimmed_paths!(with_crate_prefix!(ty.to_string())),
        }
    }

    fn ty_ix(&mut self, env: TypingEnv<'tcx>, ty: Ty<'tcx>) -> usize {
        let t = self.reveal(env, ty);
        let s = self.ty_str(t);
        self.intern(s)
    }

    fn span_str(&self, span: Span) -> String {
        let sm = self.tcx.sess.source_map();
        // attribute macro-expanded code to the user's call site
        let sp = if span.from_expansion() { span.source_callsite() } else { span };
        let lo = sm.lookup_char_pos(sp.lo());
        let hi = sm.lookup_char_pos(sp.hi());
        let name = format!("{}", lo.file.name.prefer_local_unconditionally());
        format!("{}:{}:{}-{}:{}", name, lo.line, lo.col.0 + 1, hi.line, hi.col.0 + 1)
    }

    fn expn_str(&self, span: Span) -> String {
        if !span.from_expansion() {
            return "null".to_string();
        }
        // outermost-to-innermost chain of macro names
        let mut names = Vec::new();
        let mut sp = span;
        let mut guard = 0;
        while sp.from_expansion() && guard < 16 {
            let data = sp.ctxt().outer_expn_data();
            names.push(jstr(&format!("{}", data.kind.descr())));
            sp = data.call_site;
            guard += 1;
        }
        jlist(&names)
    }
}

// ------------------------------------------------------------------------------------------
// places, operands, constants
// ------------------------------------------------------------------------------------------
fn field_name<'tcx>(cx: &Cx<'tcx>, base: rustc_middle::mir::PlaceTy<'tcx>, idx: usize) -> (String, String) {
    // returns (field name, owner description)
    match *base.ty.kind() {
        ty::Adt(adt, _) => {
            let vi = base.variant_index.unwrap_or(rustc_abi::FIRST_VARIANT);
            if adt.is_enum() || adt.is_struct() || adt.is_union() {
                let variant = adt.variant(vi);
                let f = variant.fields.iter().nth(idx);
                let fname = f.map(|f| f.name.to_string()).unwrap_or_else(|| idx.to_string());
                let owner = if adt.is_enum() {
                    format!("{}::{}", cx.path(adt.did()), variant.name)
                } else {
                    cx.path(adt.did())
                };
                (fname, owner)
            } else {
                (idx.to_string(), String::new())
            }
        }
        ty::Closure(def, _) | ty::Coroutine(def, _) | ty::CoroutineClosure(def, _) => {
            let mut name = idx.to_string();
            if let Some(ld) = def.as_local() {
                let caps = cx.tcx.closure_captures(ld);
                if let Some(c) = caps.get(idx) {
                    name = format!("{}", c.to_symbol());
                }
            }
            (name, format!("upvar:{}", cx.path(def)))
        }
        ty::Tuple(_) => (idx.to_string(), "tuple".to_string()),
        _ => (idx.to_string(), String::new()),
    }
}

fn place_json<'tcx>(cx: &mut Cx<'tcx>, env: TypingEnv<'tcx>, body: &Body<'tcx>, place: &Place<'tcx>) -> String {
    let tcx = cx.tcx;
    let mut projs: Vec<String> = Vec::new();
    let mut pty = rustc_middle::mir::PlaceTy::from_ty(body.local_decls[place.local].ty);
    for elem in place.projection.iter() {
        let e: PlaceElem<'tcx> = elem;
        match e {
            PlaceElem::Deref => projs.push(jstr("deref")),
            PlaceElem::Field(f, _) => {
                let revealed = rustc_middle::mir::PlaceTy { ty: cx.reveal(env, pty.ty), variant_index: pty.variant_index };
                let (n, owner) = field_name(cx, revealed, f.as_usize());
                projs.push(jobj(&[
                    ("f", f.as_usize().to_string()),
                    ("n", jstr(&n)),
                    ("o", jstr(&owner)),
                ]));
            }
            PlaceElem::Downcast(name, vi) => {
                let n = name.map(|s| s.to_string()).unwrap_or_default();
                projs.push(jobj(&[("dc", jstr(&n)), ("vi", vi.as_usize().to_string())]));
            }
            PlaceElem::Index(l) => projs.push(jobj(&[("idx", l.as_usize().to_string())])),
            PlaceElem::ConstantIndex { offset, from_end, .. } => {
                projs.push(jobj(&[("cidx", offset.to_string()), ("from_end", from_end.to_string())]))
            }
            PlaceElem::Subslice { .. } => projs.push(jstr("subslice")),
            PlaceElem::OpaqueCast(_) => projs.push(jstr("opaquecast")),
            PlaceElem::UnwrapUnsafeBinder(_) => projs.push(jstr("unwrapbinder")),
        }
        pty = pty.projection_ty(tcx, e);
    }
    if projs.is_empty() {
        jobj(&[("l", place.local.as_usize().to_string())])
    } else {
        let t = cx.ty_ix(env, pty.ty);
        jobj(&[
            ("l", place.local.as_usize().to_string()),
            ("p", jlist(&projs)),
            ("t", t.to_string()),
        ])
    }
}

fn const_json<'tcx>(cx: &mut Cx<'tcx>, env: TypingEnv<'tcx>, c: &ConstOperand<'tcx>, do_eval: bool) -> String {
    let tcx = cx.tcx;
    let ty = c.const_.ty();
    let mut items: Vec<(&str, String)> = Vec::new();
    let t = cx.ty_ix(env, ty);
    items.push(("t", t.to_string()));
    let text = with_no_trimmed_paths!(format!("{}", c.const_));
    items.push(("text", jstr(&text)));
    if let ty::FnDef(def, args) = *ty.kind() {
        items.push(("fn", jstr(&cx.path(def))));
        items.push(("fn_args", jlist(&cx.args_str(args.as_slice()).iter().map(|s| jstr(s)).collect::<Vec<_>>())));
    }
    if let Const::Unevaluated(uv, _) = c.const_ {
        items.push(("def", jstr(&cx.path(uv.def))));
        if uv.promoted.is_some() {
            items.push(("promoted", "true".to_string()));
        }
    }
    // value
    let is_promoted = matches!(c.const_, Const::Unevaluated(uv, _) if uv.promoted.is_some());
    if do_eval && !is_promoted && !matches!(ty.kind(), ty::FnDef(..)) {
        if let Ok(val) = c.const_.eval(tcx, env, c.span) {
            if let Some(si) = val.try_to_scalar_int() {
                let size = si.size();
                let bits = si.to_bits(size);
                match ty.kind() {
                    ty::Int(_) => {
                        let v = size.sign_extend(bits) as i128;
                        items.push(("int", jstr(&v.to_string())));
                    }
                    ty::Uint(_) => items.push(("int", jstr(&bits.to_string()))),
                    ty::Bool => items.push(("bool", (bits != 0).to_string())),
                    ty::Char => items.push(("int", jstr(&bits.to_string()))),
                    _ => items.push(("bits", jstr(&bits.to_string()))),
                }
            } else if let ty::Ref(_, inner, _) = ty.kind() {
                if inner.is_str() {
                    if let Some(bytes) = val.try_get_slice_bytes_for_diagnostics(tcx) {
                        items.push(("str", jstr(&String::from_utf8_lossy(bytes))));
                    }
                }
            }
        }
    }
    jobj(&items)
}

fn operand_json<'tcx>(cx: &mut Cx<'tcx>, env: TypingEnv<'tcx>, body: &Body<'tcx>, op: &Operand<'tcx>) -> String {
    match op {
        Operand::Copy(p) => jobj(&[("c", place_json(cx, env, body, p))]),
        Operand::Move(p) => jobj(&[("m", place_json(cx, env, body, p))]),
        Operand::Constant(c) => jobj(&[("k", const_json(cx, env, c, true))]),
        #[allow(unreachable_patterns)]
        _ => jobj(&[("x", jstr(&format!("{:?}", op)))]),
    }
}

fn operand_ty<'tcx>(cx: &mut Cx<'tcx>, env: TypingEnv<'tcx>, body: &Body<'tcx>, op: &Operand<'tcx>) -> usize {
    let t = op.ty(&body.local_decls, cx.tcx);
    cx.ty_ix(env, t)
}

// ------------------------------------------------------------------------------------------
// statements / terminators
// ------------------------------------------------------------------------------------------
fn rvalue_json<'tcx>(cx: &mut Cx<'tcx>, env: TypingEnv<'tcx>, body: &Body<'tcx>, rv: &Rvalue<'tcx>) -> String {
    let tcx = cx.tcx;
    match rv {
        Rvalue::Use(op, ..) => jobj(&[("k", jstr("use")), ("op", operand_json(cx, env, body, op))]),
        Rvalue::Ref(_, bk, p) => {
            let b = match bk {
                BorrowKind::Shared => "shared",
                BorrowKind::Fake(_) => "fake",
                BorrowKind::Mut { .. } => "mut",
            };
            jobj(&[("k", jstr("ref")), ("bk", jstr(b)), ("pl", place_json(cx, env, body, p))])
        }
        Rvalue::RawPtr(kind, p) => jobj(&[
            ("k", jstr("rawptr")),
            ("bk", jstr(&format!("{:?}", kind))),
            ("pl", place_json(cx, env, body, p)),
        ]),
        Rvalue::BinaryOp(op, ab) => jobj(&[
            ("k", jstr("bin")),
            ("op", jstr(&format!("{:?}", op))),
            ("a", operand_json(cx, env, body, &ab.0)),
            ("b", operand_json(cx, env, body, &ab.1)),
        ]),
        Rvalue::UnaryOp(op, a) => jobj(&[
            ("k", jstr("un")),
            ("op", jstr(&format!("{:?}", op))),
            ("a", operand_json(cx, env, body, a)),
        ]),
        Rvalue::Cast(kind, op, ty) => {
            let from = operand_ty(cx, env, body, op);
            let to = cx.ty_ix(env, *ty);
            let ck = format!("{:?}", kind);
            let ck = ck.split('(').next().unwrap_or("").to_string();
            jobj(&[
                ("k", jstr("cast")),
                ("ck", jstr(&ck)),
                ("ckfull", jstr(&format!("{:?}", kind))),
                ("op", operand_json(cx, env, body, op)),
                ("from", from.to_string()),
                ("to", to.to_string()),
            ])
        }
        Rvalue::Discriminant(p) => jobj(&[("k", jstr("discr")), ("pl", place_json(cx, env, body, p))]),
        Rvalue::CopyForDeref(p) => jobj(&[("k", jstr("copyderef")), ("pl", place_json(cx, env, body, p))]),
        Rvalue::Aggregate(kind, ops) => {
            let mut items: Vec<(&str, String)> = vec![("k", jstr("agg"))];
            let mut fnames: Vec<String> = Vec::new();
            match **kind {
                AggregateKind::Array(_) => items.push(("ak", jstr("array"))),
                AggregateKind::Tuple => items.push(("ak", jstr("tuple"))),
                AggregateKind::Adt(def, vi, _, _, active) => {
                    items.push(("ak", jstr("adt")));
                    let adt = tcx.adt_def(def);
                    items.push(("adt", jstr(&cx.path(def))));
                    let variant = adt.variant(vi);
                    items.push(("variant", jstr(&variant.name.to_string())));
                    items.push(("vidx", vi.as_usize().to_string()));
                    items.push(("is_enum", adt.is_enum().to_string()));
                    if let Some(a) = active {
                        fnames.push(jstr(&variant.fields[a].name.to_string()));
                    } else {
                        for f in variant.fields.iter() {
                            fnames.push(jstr(&f.name.to_string()));
                        }
                    }
                }
                AggregateKind::Closure(def, _) => {
                    items.push(("ak", jstr("closure")));
                    items.push(("def", jstr(&cx.path(def))));
                    if let Some(ld) = def.as_local() {
                        for c in tcx.closure_captures(ld) {
                            fnames.push(jstr(&format!("{}", c.to_symbol())));
                        }
                    }
                }
                AggregateKind::Coroutine(def, _) => {
                    items.push(("ak", jstr("coroutine")));
                    items.push(("def", jstr(&cx.path(def))));
                    if let Some(ld) = def.as_local() {
                        for c in tcx.closure_captures(ld) {
                            fnames.push(jstr(&format!("{}", c.to_symbol())));
                        }
                    }
                }
                AggregateKind::CoroutineClosure(def, _) => {
                    items.push(("ak", jstr("coroutine_closure")));
                    items.push(("def", jstr(&cx.path(def))));
                }
                AggregateKind::RawPtr(..) => items.push(("ak", jstr("rawptr"))),
            }
            items.push(("fields", jlist(&fnames)));
            let mut o = Vec::new();
            for op in ops.iter() {
                o.push(operand_json(cx, env, body, op));
            }
            items.push(("ops", jlist(&o)));
            jobj(&items)
        }
        Rvalue::Repeat(op, _) => jobj(&[("k", jstr("repeat")), ("op", operand_json(cx, env, body, op))]),
        Rvalue::ThreadLocalRef(def) => jobj(&[("k", jstr("tls")), ("def", jstr(&cx.path(*def)))]),
        _ => jobj(&[("k", jstr("other")), ("text", jstr(&format!("{:?}", rv)))]),
    }
}

fn bb(b: BasicBlock) -> String {
    b.as_usize().to_string()
}

fn unwind_json(u: &UnwindAction) -> String {
    match u {
        UnwindAction::Cleanup(b) => bb(*b),
        _ => "null".to_string(),
    }
}

fn callee_json<'tcx>(
    cx: &mut Cx<'tcx>,
    env: TypingEnv<'tcx>,
    def: DefId,
    args: ty::GenericArgsRef<'tcx>,
) -> String {
    let tcx = cx.tcx;
    let mut items: Vec<(&str, String)> = Vec::new();
    items.push(("path", jstr(&cx.path(def))));
    items.push(("local", def.is_local().to_string()));
    // reveal opaque types in the generic args
    let mut arg_strs = Vec::new();
    for a in args.iter() {
        if let GenericArgKind::Type(t) = a.kind() {
            let t = cx.reveal(env, t);
            arg_strs.push(jstr(&cx.ty_str(t)));
        } else if let GenericArgKind::Const(c) = a.kind() {
            arg_strs.push(jstr(&format!("{}", c)));
        }
    }
    items.push(("args", jlist(&arg_strs)));
    if let Some(tr) = tcx.trait_of_assoc(def) {
        items.push(("trait", jstr(&cx.path(tr))));
    }
    if let Some(im) = tcx.impl_of_assoc(def) {
        let self_ty = tcx.type_of(im).instantiate_identity().skip_norm_wip();
        items.push(("impl_self", jstr(&cx.ty_str(self_ty))));
    }
    // resolve through traits
    let resolved = std::panic::catch_unwind(std::panic::AssertUnwindSafe(|| {
        Instance::try_resolve(tcx, env, def, args)
    }));
    if let Ok(Ok(Some(inst))) = resolved {
        let rdef = inst.def_id();
        items.push(("res", jstr(&cx.path(rdef))));
        items.push(("res_local", rdef.is_local().to_string()));
        let kind = format!("{:?}", inst.def);
        let kind = kind.split('(').next().unwrap_or("").to_string();
        items.push(("res_kind", jstr(&kind)));
        let mut ra = Vec::new();
        for a in inst.args.iter() {
            if let GenericArgKind::Type(t) = a.kind() {
                ra.push(jstr(&cx.ty_str(t)));
            }
        }
        items.push(("res_args", jlist(&ra)));
    }
    jobj(&items)
}

fn body_json<'tcx>(cx: &mut Cx<'tcx>, def: LocalDefId, body: &Body<'tcx>) -> String {
    let tcx = cx.tcx;
    let def_id = def.to_def_id();
    let env = TypingEnv::post_analysis(tcx, def_id);
    let mut items: Vec<(&str, String)> = Vec::new();
    items.push(("id", jstr(&cx.path(def_id))));
    items.push(("dbg", jstr(&tcx.def_path_debug_str(def_id))));
    items.push(("kind", jstr(&format!("{:?}", tcx.def_kind(def_id)))));
    let root = tcx.typeck_root_def_id(def_id);
    if root != def_id {
        items.push(("root", jstr(&cx.path(root))));
        items.push(("parent", jstr(&cx.path(tcx.parent(def_id)))));
    }
    if let Some(k) = body.coroutine_kind() {
        items.push(("coroutine", jstr(&format!("{:?}", k))));
    }
    items.push(("span", jstr(&cx.span_str(body.span))));
    items.push(("arg_count", body.arg_count.to_string()));
    if matches!(tcx.def_kind(def_id), DefKind::Fn | DefKind::AssocFn) {
        items.push(("vis", jstr(&format!("{:?}", tcx.visibility(def_id)))));
        if let Some(tr) = tcx.trait_of_assoc(def_id) {
            items.push(("trait_decl", jstr(&cx.path(tr))));
        }
        if let Some(im) = tcx.impl_of_assoc(def_id) {
            let self_ty = tcx.type_of(im).instantiate_identity().skip_norm_wip();
            items.push(("impl_self", jstr(&cx.ty_str(self_ty))));
            if let Some(tr) = tcx.impl_opt_trait_ref(im) {
                let tr = tr.instantiate_identity().skip_norm_wip();
                items.push(("impl_trait", jstr(&cx.path(tr.def_id))));
            }
        }
    }

    // locals
    let mut names: HashMap<usize, String> = HashMap::new();
    for vdi in body.var_debug_info.iter() {
        if let rustc_middle::mir::VarDebugInfoContents::Place(p) = vdi.value {
            if p.projection.is_empty() {
                names.entry(p.local.as_usize()).or_insert(vdi.name.to_string());
            }
        }
    }
    let mut locals = Vec::new();
    for (l, decl) in body.local_decls.iter_enumerated() {
        let t = cx.ty_ix(env, decl.ty);
        let mut li: Vec<(&str, String)> = vec![("t", t.to_string())];
        if let Some(n) = names.get(&l.as_usize()) {
            li.push(("n", jstr(n)));
        }
        if decl.is_user_variable() {
            li.push(("user", "true".to_string()));
        }
        if decl.mutability.is_mut() {
            li.push(("mut", "true".to_string()));
        }
        locals.push(jobj(&li));
    }
    items.push(("locals", jlist(&locals)));

    // blocks
    let mut blocks = Vec::new();
    for (_b, data) in body.basic_blocks.iter_enumerated() {
        let mut stmts = Vec::new();
        for st in data.statements.iter() {
            match &st.kind {
                StatementKind::Assign(bx) => {
                    let (place, rv) = &**bx;
                    stmts.push(jobj(&[
                        ("k", jstr("assign")),
                        ("lhs", place_json(cx, env, body, place)),
                        ("rv", rvalue_json(cx, env, body, rv)),
                        ("span", jstr(&cx.span_str(st.source_info.span))),
                        ("exp", cx.expn_str(st.source_info.span)),
                    ]));
                }
                StatementKind::StorageLive(l) => {
                    stmts.push(jobj(&[("k", jstr("live")), ("l", l.as_usize().to_string())]))
                }
                StatementKind::StorageDead(l) => {
                    stmts.push(jobj(&[("k", jstr("dead")), ("l", l.as_usize().to_string())]))
                }
                StatementKind::SetDiscriminant { place, variant_index } => stmts.push(jobj(&[
                    ("k", jstr("setdiscr")),
                    ("lhs", place_json(cx, env, body, place)),
                    ("vi", variant_index.as_usize().to_string()),
                ])),
                _ => {}
            }
        }
        let term = data.terminator();
        let span = term.source_info.span;
        let mut t: Vec<(&str, String)> = Vec::new();
        match &term.kind {
            TerminatorKind::Goto { target } => {
                t.push(("k", jstr("goto")));
                t.push(("target", bb(*target)));
            }
            TerminatorKind::SwitchInt { discr, targets } => {
                t.push(("k", jstr("switch")));
                t.push(("discr", operand_json(cx, env, body, discr)));
                let dt = operand_ty(cx, env, body, discr);
                t.push(("discr_t", dt.to_string()));
                let mut arms = Vec::new();
                for (v, b) in targets.iter() {
                    arms.push(format!("[{},{}]", jstr(&v.to_string()), bb(b)));
                }
                t.push(("arms", jlist(&arms)));
                t.push(("otherwise", bb(targets.otherwise())));
            }
            TerminatorKind::Return => t.push(("k", jstr("return"))),
            TerminatorKind::Unreachable => t.push(("k", jstr("unreachable"))),
            TerminatorKind::UnwindResume => t.push(("k", jstr("resume"))),
            TerminatorKind::UnwindTerminate(_) => t.push(("k", jstr("terminate"))),
            TerminatorKind::CoroutineDrop => t.push(("k", jstr("coroutine_drop"))),
            TerminatorKind::Drop { place, target, unwind, .. } => {
                t.push(("k", jstr("drop")));
                t.push(("pl", place_json(cx, env, body, place)));
                t.push(("target", bb(*target)));
                t.push(("unwind", unwind_json(unwind)));
            }
            TerminatorKind::Call { func, args, destination, target, unwind, fn_span, call_source } => {
                t.push(("k", jstr("call")));
                let fty = func.ty(&body.local_decls, tcx);
                if let ty::FnDef(cdef, cargs) = *fty.kind() {
                    t.push(("callee", callee_json(cx, env, cdef, cargs)));
                } else {
                    t.push(("fn_op", operand_json(cx, env, body, func)));
                }
                let mut a = Vec::new();
                let mut at = Vec::new();
                for arg in args.iter() {
                    a.push(operand_json(cx, env, body, &arg.node));
                    at.push(operand_ty(cx, env, body, &arg.node).to_string());
                }
                t.push(("args", jlist(&a)));
                t.push(("arg_t", jlist(&at)));
                t.push(("dest", place_json(cx, env, body, destination)));
                t.push(("target", jopt_usize(target.map(|b| b.as_usize()))));
                t.push(("unwind", unwind_json(unwind)));
                t.push(("fn_span", jstr(&cx.span_str(*fn_span))));
                t.push(("src", jstr(&format!("{:?}", call_source))));
            }
            TerminatorKind::TailCall { .. } => t.push(("k", jstr("tailcall"))),
            TerminatorKind::Assert { cond, expected, msg, target, unwind } => {
                t.push(("k", jstr("assert")));
                t.push(("cond", operand_json(cx, env, body, cond)));
                t.push(("expected", expected.to_string()));
                let m = format!("{:?}", msg);
                let m = m.split('(').next().unwrap_or("").to_string();
                t.push(("msg", jstr(&m)));
                t.push(("target", bb(*target)));
                t.push(("unwind", unwind_json(unwind)));
            }
            TerminatorKind::Yield { value, resume, resume_arg, drop } => {
                t.push(("k", jstr("yield")));
                t.push(("value", operand_json(cx, env, body, value)));
                t.push(("resume", bb(*resume)));
                t.push(("resume_arg", place_json(cx, env, body, resume_arg)));
                t.push(("drop", jopt_usize(drop.map(|b| b.as_usize()))));
            }
            TerminatorKind::FalseEdge { real_target, imaginary_target } => {
                t.push(("k", jstr("falseedge")));
                t.push(("target", bb(*real_target)));
                t.push(("imaginary", bb(*imaginary_target)));
            }
            TerminatorKind::FalseUnwind { real_target, unwind } => {
                t.push(("k", jstr("falseunwind")));
                t.push(("target", bb(*real_target)));
                t.push(("unwind", unwind_json(unwind)));
            }
            TerminatorKind::InlineAsm { .. } => t.push(("k", jstr("asm"))),
        }
        t.push(("span", jstr(&cx.span_str(span))));
        t.push(("exp", cx.expn_str(span)));
        blocks.push(jobj(&[
            ("stmts", jlist(&stmts)),
            ("term", jobj(&t)),
            ("cleanup", data.is_cleanup.to_string()),
        ]));
    }
    items.push(("blocks", jlist(&blocks)));
    jobj(&items)
}

// ------------------------------------------------------------------------------------------
// ADTs, impls, consts
// ------------------------------------------------------------------------------------------
fn adts_json<'tcx>(cx: &mut Cx<'tcx>) -> String {
    let tcx = cx.tcx;
    let mut out = Vec::new();
    for ld in tcx.hir_crate_items(()).definitions() {
        let did = ld.to_def_id();
        let kind = tcx.def_kind(did);
        if !matches!(kind, DefKind::Struct | DefKind::Enum | DefKind::Union) {
            continue;
        }
        let adt = tcx.adt_def(did);
        let mut variants = Vec::new();
        for v in adt.variants().iter() {
            let mut fields = Vec::new();
            for f in v.fields.iter() {
                let fty = tcx.type_of(f.did).instantiate_identity().skip_norm_wip();
                fields.push(jobj(&[
                    ("name", jstr(&f.name.to_string())),
                    ("ty", jstr(&cx.ty_str(fty))),
                    ("vis", jstr(&format!("{:?}", f.vis))),
                ]));
            }
            variants.push(jobj(&[("name", jstr(&v.name.to_string())), ("fields", jlist(&fields))]));
        }
        out.push(jobj(&[
            ("path", jstr(&cx.path(did))),
            ("kind", jstr(&format!("{:?}", kind))),
            ("vis", jstr(&format!("{:?}", tcx.visibility(did)))),
            ("span", jstr(&cx.span_str(tcx.def_span(did)))),
            ("variants", jlist(&variants)),
        ]));
    }
    jlist(&out)
}

fn impls_json<'tcx>(cx: &mut Cx<'tcx>) -> String {
    let tcx = cx.tcx;
    let mut out = Vec::new();
    for (trait_def, impls) in tcx.all_local_trait_impls(()).iter() {
        for im in impls.iter() {
            let did = im.to_def_id();
            let self_ty = tcx.type_of(did).instantiate_identity().skip_norm_wip();
            out.push(jobj(&[
                ("trait", jstr(&cx.path(*trait_def))),
                ("self", jstr(&cx.ty_str(self_ty))),
                ("derived", tcx.is_automatically_derived(did).to_string()),
                ("span", jstr(&cx.span_str(tcx.def_span(did)))),
            ]));
        }
    }
    out.sort();
    jlist(&out)
}

fn consts_json<'tcx>(cx: &mut Cx<'tcx>) -> String {
    let tcx = cx.tcx;
    let mut out = Vec::new();
    for ld in tcx.hir_crate_items(()).definitions() {
        let did = ld.to_def_id();
        let kind = tcx.def_kind(did);
        let is_const = matches!(kind, DefKind::Const { .. } | DefKind::AssocConst { .. });
        let is_static = matches!(kind, DefKind::Static { .. });
        if !is_const && !is_static {
            continue;
        }
        if tcx.generics_of(did).requires_monomorphization(tcx) {
            continue;
        }
        let ty = tcx.type_of(did).instantiate_identity().skip_norm_wip();
        let mut items: Vec<(&str, String)> = vec![
            ("path", jstr(&cx.path(did))),
            ("ty", jstr(&cx.ty_str(ty))),
            ("kind", jstr(if is_const { "const" } else { "static" })),
            ("span", jstr(&cx.span_str(tcx.def_span(did)))),
        ];
        if is_const {
            if let Ok(val) = tcx.const_eval_poly(did) {
                if let Some(si) = val.try_to_scalar_int() {
                    let size = si.size();
                    let bits = si.to_bits(size);
                    match ty.kind() {
                        ty::Int(_) => items.push(("int", jstr(&(size.sign_extend(bits) as i128).to_string()))),
                        ty::Uint(_) => items.push(("int", jstr(&bits.to_string()))),
                        ty::Bool => items.push(("bool", (bits != 0).to_string())),
                        _ => items.push(("bits", jstr(&bits.to_string()))),
                    }
                } else if let ty::Ref(_, inner, _) = ty.kind() {
                    if inner.is_str() {
                        if let Some(bytes) = val.try_get_slice_bytes_for_diagnostics(tcx) {
                            items.push(("str", jstr(&String::from_utf8_lossy(bytes))));
                        }
                    }
                }
            }
        }
        out.push(jobj(&items));
    }
    jlist(&out)
}

// ------------------------------------------------------------------------------------------
// driver
// ------------------------------------------------------------------------------------------
struct Cb;

// `mir_built` of a body is *stolen* as soon as any query needs borrowck results of that
// body (e.g. the auto-trait leakage check of an `async fn`'s opaque return type while
// type-checking a caller).  So we wrap the `mir_built` provider and keep a clone of every
// body at the moment it is built.
type MirBuiltFn = for<'tcx> fn(TyCtxt<'tcx>, LocalDefId) -> &'tcx rustc_data_structures::steal::Steal<Body<'tcx>>;
static ORIG_MIR_BUILT: std::sync::OnceLock<MirBuiltFn> = std::sync::OnceLock::new();
static STASH: std::sync::Mutex<Vec<(LocalDefId, usize)>> = std::sync::Mutex::new(Vec::new());

fn stash_mir_built<'tcx>(tcx: TyCtxt<'tcx>, def: LocalDefId) -> &'tcx rustc_data_structures::steal::Steal<Body<'tcx>> {
    let r = (ORIG_MIR_BUILT.get().expect("orig provider"))(tcx, def);
    let body: Body<'tcx> = r.borrow().clone();
    // leak the clone; it is only read inside `after_expansion` while `tcx` is alive
    let ptr = Box::into_raw(Box::new(body)) as usize;
    STASH.lock().unwrap().push((def, ptr));
    r
}

fn wanted_crate(name: &str) -> bool {
    let want = std::env::var("VERIF_CRATES").unwrap_or_else(|_| "deltio".to_string());
    want.split(',').any(|w| w.trim() == name)
}

fn is_generated(file: &str) -> bool {
    // prost/tonic output is include!d from OUT_DIR
    file.contains("/out/") && (file.ends_with("google.pubsub.v1.rs") || file.contains("/build/"))
}

impl Callbacks for Cb {
    fn config(&mut self, config: &mut rustc_interface::interface::Config) {
        config.override_queries = Some(|_sess, providers| {
            let _ = ORIG_MIR_BUILT.set(providers.queries.mir_built);
            providers.queries.mir_built = stash_mir_built;
        });
    }

    fn after_expansion<'tcx>(
        &mut self,
        _compiler: &rustc_interface::interface::Compiler,
        tcx: TyCtxt<'tcx>,
    ) -> Compilation {
        let crate_name = tcx.crate_name(LOCAL_CRATE).to_string();
        let out_dir = match std::env::var("VERIF_FACTS_DIR") {
            Ok(d) => d,
            Err(_) => return Compilation::Continue,
        };
        if !wanted_crate(&crate_name) {
            return Compilation::Continue;
        }
        let crate_types: Vec<String> =
            tcx.crate_types().iter().map(|t| format!("{:?}", t)).collect();
        let is_test = tcx.sess.opts.test;

        // pass 1: clone every body before any later query can steal it
        let mut bodies: Vec<(LocalDefId, &Body<'tcx>)> = Vec::new();
        let mut wanted: Vec<LocalDefId> = Vec::new();
        let mut skipped_generated = 0usize;
        for def in tcx.hir_body_owners() {
            let kind = tcx.def_kind(def.to_def_id());
            if !matches!(
                kind,
                DefKind::Fn | DefKind::AssocFn | DefKind::Closure | DefKind::SyntheticCoroutineBody
            ) {
                continue;
            }
            let sp = tcx.def_span(def.to_def_id());
            let sp = if sp.from_expansion() { sp.source_callsite() } else { sp };
            let file = format!(
                "{}",
                tcx.sess.source_map().lookup_char_pos(sp.lo()).file.name.prefer_local_unconditionally()
            );
            if is_generated(&file) {
                skipped_generated += 1;
                continue;
            }
            // force the query (the wrapper stashes a clone); ignore the possibly stolen result
            let _ = tcx.mir_built(def);
            wanted.push(def);
        }
        let stash: HashMap<LocalDefId, usize> = STASH.lock().unwrap().iter().cloned().collect();
        for def in wanted {
            let ptr = *stash.get(&def).expect("body not stashed");
            let body: &Body<'tcx> = unsafe { &*(ptr as *const Body<'tcx>) };
            bodies.push((def, body));
        }

        let mut cx = Cx { tcx, types: Vec::new(), type_ix: HashMap::new() };
        let mut out_bodies = Vec::new();
        for (def, body) in bodies.iter() {
            out_bodies.push(body_json(&mut cx, *def, body));
        }
        let adts = adts_json(&mut cx);
        let impls = impls_json(&mut cx);
        let consts = consts_json(&mut cx);
        let types: Vec<String> = cx.types.iter().map(|s| jstr(s)).collect();
        let doc = jobj(&[
            ("crate", jstr(&crate_name)),
            ("crate_types", jlist(&crate_types.iter().map(|s| jstr(s)).collect::<Vec<_>>())),
            ("is_test", is_test.to_string()),
            ("skipped_generated_bodies", skipped_generated.to_string()),
            ("types", jlist(&types)),
            ("bodies", jlist(&out_bodies)),
            ("adts", adts),
            ("impls", impls),
            ("consts", consts),
        ]);
        let kind = if crate_types.iter().any(|t| t.contains("Executable")) { "bin" } else { "lib" };
        let path = format!("{}/facts.{}.{}.{}.json", out_dir, crate_name, kind, std::process::id());
        std::fs::write(&path, doc).expect("cannot write facts");
        Compilation::Continue
    }
}

fn main() {
    // invoked as: <driver> <rustc> <args..>
    let args: Vec<String> = std::env::args().skip(1).collect();
    let mut cb = Cb;
    rustc_driver::run_compiler(&args, &mut cb);
}
