"""Program model shared by all rules (DESIGN §3, G3, G7, G8): bodies with closures inlined,
call graph with resolved callees and awaited futures, effect summaries on state cells,
actors / mailboxes / request variants, RPC handler roots, lock acquisitions."""
import re
from flow import BodyInfo, TRANSPARENT, Origin, strip_pin
import libmodel as L


class CheckBroken(Exception):
    """an anchor could not be resolved / a floor was not reached: the checker needs maintenance"""


class Effect:
    __slots__ = ("kind", "lib", "root", "cells", "body", "bb", "chain", "spawned", "origin", "extra")

    def __init__(self, kind, lib, root, cells, body, bb, chain=(), spawned=None, origin=None, extra=None):
        self.kind = kind          # libmodel kind, or write / read (field access)
        self.lib = lib            # library callee path (or "field")
        self.root = root          # ("param", n) | ("upvar", name) | ("other", descr)
        self.cells = tuple(cells)  # ((owner, field), ...) outermost first
        self.body = body          # body id where the effect is *attributed* (the summarised root)
        self.bb = bb              # block in `body`
        self.chain = tuple(chain)  # ((body id, bb), ...) call path from `body` down to the library call
        self.spawned = spawned    # None | "detached" | "joinset": the effect runs in a spawned task
        self.origin = origin
        self.extra = extra

    def touches(self, cell):
        return cell in self.cells

    def sub(self, cell):
        i = self.cells.index(cell)
        return self.cells[i + 1:]

    def leaf(self):
        """innermost (body id, bb) where the library call / field access happens"""
        return self.chain[-1] if self.chain else (self.body, self.bb)

    def __repr__(self):
        return "Effect(%s %s on %s @%s:bb%s%s)" % (
            self.kind, self.lib.split("::")[-1], ".".join("%s.%s" % (o.split("::")[-1], f) for o, f in self.cells),
            self.body.split("::")[-1], self.bb, " spawned=" + self.spawned if self.spawned else "")


class Edge:
    __slots__ = ("src", "bb", "dst", "kind")

    def __init__(self, src, bb, dst, kind):
        self.src, self.bb, self.dst, self.kind = src, bb, dst, kind

    def __repr__(self):
        return "%s@bb%s -%s-> %s" % (self.src, self.bb, self.kind, self.dst)


class Actor:
    def __init__(self):
        self.ty = None           # actor ADT path
        self.request = None      # request enum ADT path
        self.capacity = None
        self.start = None        # body creating channel + spawning the loop
        self.loop = None         # spawned coroutine body id
        self.dispatch = None     # body id of the dispatcher (switch on the request)
        self.variants = {}       # variant name -> VariantHandler
        self.channel_bb = None

    def __repr__(self):
        return "Actor(%s <- %s cap=%s)" % (self.ty, self.request, self.capacity)


class VariantHandler:
    def __init__(self):
        self.variant = None
        self.entry_bb = None
        self.blocks = set()
        self.calls = []          # (bb, callee target) local method calls on the actor
        self.responder_bb = None
        self.has_responder = False


class Handler:
    def __init__(self):
        self.service = None
        self.name = None
        self.wrapper = None
        self.root = None  # coroutine body id


class Program:
    def __init__(self, facts):
        self.facts = facts
        self._info = {}
        self._edges = {}
        self._effects = {}
        self._actors = None
        self._handlers = None
        self._in_progress = set()

    # ------------------------------------------------------------------ basics
    def info(self, body_id):
        bi = self._info.get(body_id)
        if bi is None:
            b = self.facts.body(body_id)
            if b is None:
                return None
            bi = BodyInfo(b, self.facts)
            self._info[body_id] = bi
        return bi

    def inlined_variant(self, body_id, want, depth=3):
        """a copy of body_id in which the calls to local synchronous functions selected by want(BodyInfo, bb, Term) are
        spliced in (norm.py), for rules that follow one value through a helper of another module.  Returns the id of the
        variant (known to info() / effects() only; never enumerated), or body_id itself when nothing was spliced."""
        import copy
        from mir import Body
        import norm
        base = self.facts.body(body_id)
        if base is None:
            return body_id
        gj = copy.deepcopy(base.j)
        nz = norm.Normaliser(self.facts, ())
        spliced = 0
        for _ in range(depth * 4):
            tmp = Body(gj, base.crate, base.types)
            tmp.id = body_id
            ti = BodyInfo(tmp, self.facts)
            site = None
            for bb, t in ti.calls():
                c = t.callee
                if not (c.local or c.res_local) or c.path.endswith("Future::poll"):
                    continue
                cb = self.facts.body(self.qual(tmp, c.target))
                if cb is None or cb.coroutine or cb.kind not in ("Fn", "AssocFn") or cb.id == body_id:
                    continue
                if any(k for k in self.facts.children(cb.id) if self.facts.body(k).coroutine and ", Fn)" in self.facts.body(k).coroutine):
                    continue
                if want(ti, bb, t):
                    site = (bb, cb)
                    break
            if site is None:
                break
            nz.splice_sync(gj, site[0], site[1].j)
            spliced += 1
        if not spliced:
            return body_id
        vid = body_id + "#inl%d" % (len([k for k in self._info if k.startswith(body_id + "#inl")]) + 1)
        nb = Body(gj, base.crate, base.types)
        nb.id = body_id
        self._info[vid] = BodyInfo(nb, self.facts)
        return vid

    def qual(self, body, ident):
        """body ids of the bin crate are prefixed"""
        if body.crate == "bin" and not ident.startswith("bin::"):
            return "bin::" + ident
        return ident

    def body_of_type(self, body, ty):
        m = re.match(r"^\{(?:coroutine|closure):(.*)\}$", ty or "")
        if m:
            return self.qual(body, m.group(1))
        return None

    def loc(self, body_id, bb=None):
        bi = self.info(body_id)
        if bi is None:
            return body_id
        if bb is None:
            return "%s:%s" % (bi.body.file, bi.body.line)
        return bi.loc(bb)

    def short(self, body_id):
        s = re.sub(r"#inl\d+$", "", body_id)
        s = re.sub(r"<crate::[\w:]+::(\w+) as crate::[\w:]+::(\w+)>", r"<\1 as \2>", s)
        s = re.sub(r"crate::(?:\w+::)*(\w+::\w+)", r"\1", s)
        return s

    # ------------------------------------------------------------------ call graph
    def edges(self, body_id):
        """outgoing edges of one body: direct local calls, awaited local coroutines, closures /
        coroutines constructed here (inlined unless spawned), spawned tasks."""
        if body_id in self._edges:
            return self._edges[body_id]
        bi = self.info(body_id)
        out = []
        if bi is None:
            self._edges[body_id] = out
            return out
        body = bi.body
        spawned_aggs = {}
        spawned_calls = {}
        for sp in bi.spawns:
            if sp.origin is not None and sp.origin.kind == "agg":
                spawned_aggs[sp.origin.data] = sp
            if sp.origin is not None and sp.origin.kind == "call":
                spawned_calls[sp.origin.data] = sp
        for b in body.blocks:
            if b.cleanup:
                continue
            for i, s in enumerate(b.stmts):
                if s.k == "assign" and s.rv.k == "agg" and s.rv.j["ak"] in ("closure", "coroutine"):
                    dst = self.qual(body, s.rv.j["def"])
                    if self.facts.body(dst) is None:
                        continue          # the coroutine of an awaited helper: spliced into this body (norm.py)
                    sp = spawned_aggs.get((b.idx, i))
                    if sp is not None:
                        kind = "spawn-" + sp.kind + ("-awaited" if sp.awaited else "")
                    else:
                        kind = "closure"
                    out.append(Edge(body_id, b.idx, dst, kind))
            t = b.term
            if t.k == "call" and t.callee is not None:
                c = t.callee
                tgt = c.target
                if c.path.endswith("Future::poll"):
                    if c.res_local and c.res is not None and self.facts.body(self.qual(body, c.res)):
                        out.append(Edge(body_id, b.idx, self.qual(body, c.res), "poll"))
                    continue
                if (c.res_local or c.local) and tgt is not None:
                    dst = self.qual(body, tgt)
                    if self.facts.body(dst) is not None:
                        sp = spawned_calls.get(b.idx)
                        if sp is not None:
                            kind = "spawn-" + sp.kind + ("-awaited" if sp.awaited else "")
                        else:
                            kind = "call"
                        out.append(Edge(body_id, b.idx, dst, kind))
        self._edges[body_id] = out
        return out

    def cone(self, root, follow=("call", "closure", "poll", "spawn-joinset"), stop=None):
        """body ids reachable from root along the given edge kinds (root included)"""
        seen = set()
        order = []
        stack = [root]
        while stack:
            x = stack.pop()
            if x in seen:
                continue
            seen.add(x)
            order.append(x)
            if stop is not None and stop(x) and x != root:
                continue
            for e in self.edges(x):
                if any(e.kind == f or e.kind.startswith(f) for f in follow):
                    stack.append(e.dst)
        return order

    def call_paths(self, root, pred, follow=("call", "closure", "poll", "spawn-joinset"), limit=4):
        """paths [(body, bb), ...] from root to bodies satisfying pred (DFS, first `limit` paths)"""
        out = []

        def dfs(x, path, seen):
            if len(out) >= limit:
                return
            if pred(x) and path:
                out.append(list(path))
                return
            for e in self.edges(x):
                if e.dst in seen:
                    continue
                if any(e.kind == f or e.kind.startswith(f) for f in follow):
                    dfs(e.dst, path + [(x, e.bb, e.kind)], seen | {e.dst})

        dfs(root, [], {root})
        return out

    # ------------------------------------------------------------------ effects (G3)
    def receiver_origin(self, bi, operand):
        return bi.trace(operand, transparent=TRANSPARENT | L.HANDLES)

    def effects(self, body_id):
        """effect summary of a body with callees, closures and awaited coroutines substituted in.
        Roots: ("param", n) / ("upvar", name) stay symbolic for the caller to substitute."""
        if body_id in self._effects:
            return self._effects[body_id]
        if body_id in self._in_progress:
            return []
        self._in_progress.add(body_id)
        bi = self.info(body_id)
        out = []
        if bi is None:
            self._in_progress.discard(body_id)
            self._effects[body_id] = out
            return out
        body = bi.body
        spawned_aggs = {}
        spawned_calls = {}
        for sp in bi.spawns:
            if sp.origin is not None and sp.origin.kind == "agg":
                spawned_aggs[sp.origin.data] = sp
            elif sp.origin is not None and sp.origin.kind == "call":
                spawned_calls[sp.origin.data] = sp

        def root_of(o):
            if o.kind == "param":
                return ("param", o.data)
            if o.kind == "upvar":
                return ("upvar", o.data)
            if o.kind == "env":
                return ("env", 1)
            return ("other", "%s:%s" % (o.kind, o.data))

        def subst(eff, arg_origin, at_bb, via_body, spawned):
            cells = arg_origin.cells() + eff.cells
            return Effect(eff.kind, eff.lib, root_of(arg_origin), cells, body_id, at_bb,
                          ((via_body, eff.bb),) + eff.chain if not eff.chain else ((via_body, eff.bb),) + eff.chain[0:],
                          spawned or eff.spawned, eff.origin, eff.extra)

        for b in body.blocks:
            if b.cleanup:
                continue
            # field writes / reads
            for i, s in enumerate(b.stmts):
                if s.k != "assign":
                    continue
                if not s.lhs.is_local() and (s.lhs.fields() or "deref" in s.lhs.proj):
                    o = self.receiver_origin(bi, s.lhs)
                    if o.cells() or o.kind in ("upvar", "param"):
                        out.append(Effect("write", "field", root_of(o), o.cells(), body_id, b.idx, (), None, o, (b.idx, i)))
                pls = [op.place for op in s.rv.ops if op.place is not None]
                if s.rv.place is not None and s.rv.k in ("copyderef", "discr"):
                    pls.append(s.rv.place)
                for pl in pls:
                    if pl.fields():
                        o = self.receiver_origin(bi, pl)
                        if o.cells() or (o.kind == "upvar" and "." in str(o.data)):
                            out.append(Effect("read", "field", root_of(o), o.cells(), body_id, b.idx, (), None, o, (b.idx, i)))
                # closures / coroutines constructed here
                if s.rv.k == "agg" and s.rv.j["ak"] in ("closure", "coroutine"):
                    child = self.qual(body, s.rv.j["def"])
                    if self.facts.body(child) is None:
                        continue
                    sp = spawned_aggs.get((b.idx, i))
                    spawned = sp.kind if sp is not None else None
                    if sp is not None and sp.awaited:
                        spawned = "detached-awaited"
                    names = s.rv.j.get("fields", [])
                    if spawned == "detached":
                        # a detached task is a new root: one `spawn` effect, its body is not inlined
                        out.append(Effect("spawn_detached", child, ("other", "spawn"), (), body_id, b.idx, (), None, None, None))
                        continue
                    for e in self.effects(child):
                        if e.root[0] == "upvar" and e.root[1] in names:
                            ao = self.receiver_origin(bi, s.rv.ops[names.index(e.root[1])])
                            out.append(subst(e, ao, b.idx, child, spawned))
                        else:
                            out.append(Effect(e.kind, e.lib, ("other", "inner"), e.cells, body_id, b.idx,
                                              ((child, e.bb),) + e.chain, spawned or e.spawned, e.origin, e.extra))
            t = b.term
            if t.k != "call" or t.callee is None:
                continue
            c = t.callee
            if c.path.endswith("Future::poll"):
                continue
            kind = L.RECEIVER_EFFECT.get(c.path)
            if kind is not None and t.args:
                o = self.receiver_origin(bi, t.args[0])
                out.append(Effect(kind, c.path, root_of(o), o.cells(), body_id, b.idx, (), None, o, c.args))
                continue
            tgt = c.target
            if (c.res_local or c.local) and tgt is not None:
                dst = self.qual(body, tgt)
                db = self.facts.body(dst)
                if db is None:
                    continue
                sp = spawned_calls.get(b.idx)
                spawned = sp.kind if sp is not None else None
                if sp is not None and sp.awaited:
                    spawned = "detached-awaited"
                if spawned == "detached":
                    out.append(Effect("spawn_detached", dst, ("other", "spawn"), (), body_id, b.idx, (), None, None, None))
                    continue
                for e in self.effects(dst):
                    if e.root[0] == "param" and 1 <= e.root[1] <= len(t.args):
                        ao = self.receiver_origin(bi, t.args[e.root[1] - 1])
                        out.append(subst(e, ao, b.idx, dst, spawned))
                    else:
                        out.append(Effect(e.kind, e.lib, ("other", "inner"), e.cells, body_id, b.idx,
                                          ((dst, e.bb),) + e.chain, spawned or e.spawned, e.origin, e.extra))
        self._in_progress.discard(body_id)
        self._effects[body_id] = out
        return out

    def is_own(self, body_id, e):
        """the effect happens in body_id's own statements or in closures defined inside it (not in a callee)"""
        if not e.chain:
            return True
        kids = set(self.facts.descendants(body_id))
        return all(b in kids for b, _ in e.chain)

    def own_effects(self, body_id):
        return [e for e in self.effects(body_id) if self.is_own(body_id, e)]

    def effects_on(self, body_id, cell, kinds=None):
        return [e for e in self.effects(body_id) if e.touches(cell) and (kinds is None or e.kind in kinds)]

    def bodies_with_effect(self, cell, kinds, direct=True):
        """bodies whose *own* statements (not substituted callees) have such an effect"""
        out = []
        for bid in self.facts.bodies:
            for e in self.effects(bid):
                if e.touches(cell) and e.kind in kinds and (not direct or not e.chain):
                    out.append((bid, e))
        return out

    # ------------------------------------------------------------------ RPC handlers
    @property
    def handlers(self):
        if self._handlers is None:
            hs = []
            for b in self.facts.lib_bodies():
                if b.kind != "AssocFn" or not b.impl_trait:
                    continue
                if b.impl_trait.endswith("publisher_server::Publisher"):
                    svc = "Publisher"
                elif b.impl_trait.endswith("subscriber_server::Subscriber"):
                    svc = "Subscriber"
                else:
                    continue
                h = Handler()
                h.service = svc
                h.name = b.id.split("::")[-1]
                h.wrapper = b.id
                kids = [c for c in self.facts.children(b.id)]
                h.root = kids[0] if kids else None
                hs.append(h)
            self._handlers = sorted(hs, key=lambda h: (h.service, h.name))
        return self._handlers

    def handler(self, name):
        for h in self.handlers:
            if h.name == name:
                return h
        return None

    # ------------------------------------------------------------------ actors
    @property
    def actors(self):
        if self._actors is not None:
            return self._actors
        actors = []
        for b in self.facts.lib_bodies():
            bi = self.info(b.id)
            chans = [(bb, t) for bb, t in bi.calls(lambda c: c.path == "tokio::sync::mpsc::channel")]
            if not chans:
                continue
            for sp in bi.spawns:
                if sp.kind != "detached" or sp.task is None:
                    continue
                a = Actor()
                a.start = b.id
                a.loop = sp.task
                bb, t = chans[0]
                a.channel_bb = bb
                a.request = t.callee.args[0] if t.callee.args else None
                a.capacity = t.args[0].const_int() if t.args else None
                # the dispatcher: a body in the loop's cone that switches on a value of the request type
                for cid in self.cone(a.loop):
                    cb = self.facts.body(cid)
                    if cb is None:
                        continue
                    for l in range(1, cb.arg_count + 1):
                        pass
                    ci = self.info(cid)
                    if self._dispatch_of(ci, a):
                        a.dispatch = cid
                        break
                if a.dispatch is None:
                    continue
                actors.append(a)
        self._actors = actors
        return actors

    def _dispatch_of(self, ci, actor):
        """does this body match on the request enum?  fills actor.variants / actor.ty"""
        body = ci.body
        adt = self.facts.adt(actor.request) if actor.request else None
        if adt is None:
            return False
        vnames = [v["name"] for v in adt["variants"]]
        for b in body.blocks:
            if b.cleanup:
                continue
            t = b.term
            if t.k != "switch" or t.discr is None or t.discr.place is None:
                continue
            # discr of a place of the request type
            o = None
            for s in b.stmts:
                if s.k == "assign" and s.rv.k == "discr" and s.lhs.is_local() and s.lhs.local == t.discr.place.local:
                    o = s.rv.place
            if o is None:
                continue
            if body.place_ty(o) != actor.request:
                continue
            # found
            for val, tgt in t.arms:
                if val >= len(vnames):
                    continue
                vh = VariantHandler()
                vh.variant = vnames[val]
                vh.entry_bb = ci._skip_false(tgt)
                actor.variants[vh.variant] = vh
            # blocks of each arm = dominated by the arm entry
            for vh in actor.variants.values():
                for x in ci.cfg.reach:
                    if ci.cfg.dominates(vh.entry_bb, x):
                        vh.blocks.add(x)
                for x in sorted(vh.blocks):
                    tt = body.blocks[x].term
                    if tt.k == "call" and tt.callee is not None:
                        if tt.callee.path == "tokio::sync::oneshot::Sender::<T>::send":
                            vh.responder_bb = x
                            vh.has_responder = True
                        elif (tt.callee.local or tt.callee.res_local) and tt.args:
                            aty = body.operand_ty(tt.args[0]) or ""
                            m = re.match(r"^&(mut )?(crate::.*)$", aty)
                            if m and not tt.callee.path.endswith("Future::poll") and (actor.ty is None or m.group(2) == actor.ty):
                                if actor.ty is None and not m.group(1):
                                    continue
                                vh.calls.append((x, tt.callee.target))
                                if actor.ty is None:
                                    actor.ty = m.group(2)
            return True
        return False

    def actor_by_type(self, suffix):
        for a in self.actors:
            if a.ty and a.ty.endswith(suffix):
                return a
        return None

    def actor_by_request(self, req):
        for a in self.actors:
            if a.request == req:
                return a
        return None

    # ------------------------------------------------------------------ request constructions
    def constructions(self, adt_path, variant=None):
        """(body id, bb, stmt idx, rvalue) of every aggregate building adt_path[::variant]"""
        out = []
        for bid, b in self.facts.bodies.items():
            for blk in b.blocks:
                if blk.cleanup:
                    continue
                for i, s in enumerate(blk.stmts):
                    if s.k == "assign" and s.rv.k == "agg" and s.rv.j.get("ak") == "adt" and s.rv.j.get("adt") == adt_path:
                        if variant is None or s.rv.j.get("variant") == variant:
                            out.append((bid, blk.idx, i, s.rv))
        return out

    def constructions_in(self, body_id):
        """every ADT aggregate built in body_id: (body id, bb, stmt idx, rvalue)"""
        out = []
        b = self.facts.body(body_id)
        for blk in b.blocks:
            if blk.cleanup:
                continue
            for i, s in enumerate(blk.stmts):
                if s.k == "assign" and s.rv.k == "agg" and s.rv.j.get("ak") == "adt":
                    out.append((body_id, blk.idx, i, s.rv))
        return out

    # ------------------------------------------------------------------ locks (G8)
    def lock_sites(self, body_id):
        """(bb, mode, cells of the lock, guard local) for every lock acquisition in the body"""
        bi = self.info(body_id)
        out = []
        for bb, t in bi.calls(lambda c: c.path in L.LOCK_ACQUIRE):
            o = bi.trace(t.args[0]) if t.args else None
            guard = t.dest.local if t.dest is not None and t.dest.is_local() else None
            out.append((bb, L.LOCK_ACQUIRE[t.callee.path], o, guard))
        return out

    def guard_live_blocks(self, body_id, bb, guard):
        """blocks in which the guard acquired at bb may still be alive (until it is dropped or moved)"""
        bi = self.info(body_id)
        body = bi.body
        # the guard may be moved into a named local: follow `_x = move _guard`
        holders = {guard}
        changed = True
        while changed:
            changed = False
            for b in body.blocks:
                if b.cleanup:
                    continue
                for s in b.stmts:
                    if s.k == "assign" and s.lhs.is_local() and s.rv.k == "use" and s.rv.ops[0].kind == "move" \
                            and s.rv.ops[0].place.is_local() and s.rv.ops[0].place.local in holders and s.lhs.local not in holders:
                        holders.add(s.lhs.local)
                        changed = True
        stops = set()
        for b in body.blocks:
            if b.cleanup:
                continue
            t = b.term
            if t.k == "drop" and t.place.is_local() and t.place.local in holders:
                stops.add(b.idx)
        live = set()
        start = body.blocks[bb].term.target
        if start is None:
            return live
        stack = [start]
        while stack:
            x = stack.pop()
            if x in live:
                continue
            live.add(x)
            if x in stops:
                continue
            stack.extend(bi.cfg.succ[x])
        return live
