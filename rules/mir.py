"""Loading and basic views of the MIR fact base produced by engine A (verif/driver).

Everything here is a *view* of the type-checked program; no rule lives in this file.
"""
import json
import os
import re
from functools import lru_cache


class Place:
    __slots__ = ("local", "proj", "ty")

    def __init__(self, j):
        self.local = j["l"]
        self.proj = j.get("p", [])
        self.ty = j.get("t")

    def is_local(self):
        return not self.proj

    def fields(self):
        """names of field projections, in order"""
        return [p["n"] for p in self.proj if isinstance(p, dict) and "f" in p]

    def field_owners(self):
        return [(p["o"], p["n"]) for p in self.proj if isinstance(p, dict) and "f" in p]

    def __repr__(self):
        s = "_%d" % self.local
        for p in self.proj:
            if p == "deref":
                s = "(*%s)" % s
            elif isinstance(p, dict) and "f" in p:
                s = "%s.%s" % (s, p["n"])
            elif isinstance(p, dict) and "dc" in p:
                s = "(%s as %s)" % (s, p["dc"])
            elif isinstance(p, dict) and "idx" in p:
                s = "%s[_%d]" % (s, p["idx"])
            else:
                s = "%s.<%s>" % (s, p if isinstance(p, str) else list(p.keys())[0])
        return s


class Operand:
    __slots__ = ("kind", "place", "const")

    def __init__(self, j):
        if "c" in j:
            self.kind, self.place, self.const = "copy", Place(j["c"]), None
        elif "m" in j:
            self.kind, self.place, self.const = "move", Place(j["m"]), None
        elif "k" in j:
            self.kind, self.place, self.const = "const", None, j["k"]
        else:
            self.kind, self.place, self.const = "other", None, {"text": j.get("x", "?")}

    def is_const(self):
        return self.kind == "const"

    def const_int(self):
        if self.const is not None and "int" in self.const:
            return int(self.const["int"])
        return None

    def const_bool(self):
        if self.const is not None and "bool" in self.const:
            return bool(self.const["bool"])
        return None

    def const_str(self):
        if self.const is not None:
            return self.const.get("str")
        return None

    def const_def(self):
        if self.const is not None:
            return self.const.get("def")
        return None

    def __repr__(self):
        if self.place is not None:
            return ("move " if self.kind == "move" else "") + repr(self.place)
        c = self.const
        if "fn" in c:
            return "fn:" + c["fn"]
        if "def" in c:
            v = c.get("int", c.get("str", ""))
            return "const %s(=%r)" % (c["def"], v)
        if "int" in c:
            return "const %s" % c["int"]
        if "str" in c:
            return "const %r" % c["str"]
        if "bool" in c:
            return "const %s" % c["bool"]
        return "const<%s>" % c.get("text", "?")


class Stmt:
    __slots__ = ("k", "lhs", "rv", "span", "exp", "local", "j")

    def __init__(self, j):
        self.j = j
        self.k = j["k"]
        self.lhs = Place(j["lhs"]) if "lhs" in j else None
        self.rv = Rvalue(j["rv"]) if "rv" in j else None
        self.span = j.get("span")
        self.exp = j.get("exp")
        self.local = j.get("l")

    def __repr__(self):
        if self.k == "assign":
            return "%r = %r" % (self.lhs, self.rv)
        if self.k in ("live", "dead"):
            return "%s(_%d)" % (self.k, self.local)
        return self.k


class Rvalue:
    __slots__ = ("k", "j", "ops", "place")

    def __init__(self, j):
        self.j = j
        self.k = j["k"]
        self.ops = []
        self.place = None
        if self.k in ("use", "cast", "repeat"):
            self.ops = [Operand(j["op"])]
        elif self.k == "bin":
            self.ops = [Operand(j["a"]), Operand(j["b"])]
        elif self.k == "un":
            self.ops = [Operand(j["a"])]
        elif self.k == "agg":
            self.ops = [Operand(o) for o in j["ops"]]
        elif self.k in ("ref", "rawptr", "discr", "copyderef"):
            self.place = Place(j["pl"])

    def __repr__(self):
        j = self.j
        if self.k == "use":
            return repr(self.ops[0])
        if self.k == "ref":
            return "&%s%r" % ("mut " if j["bk"] == "mut" else ("fake " if j["bk"] == "fake" else ""), self.place)
        if self.k == "bin":
            return "%s(%r, %r)" % (j["op"], self.ops[0], self.ops[1])
        if self.k == "un":
            return "%s(%r)" % (j["op"], self.ops[0])
        if self.k == "cast":
            return "%r as[%s] t%d" % (self.ops[0], j["ck"], j["to"])
        if self.k == "agg":
            if j["ak"] == "adt":
                name = j["adt"] + ("::" + j["variant"] if j.get("is_enum") else "")
                return "%s{%s}" % (name, ", ".join("%s: %r" % (f, o) for f, o in zip(j["fields"], self.ops)))
            if j["ak"] in ("closure", "coroutine"):
                return "%s[%s]{%s}" % (j["ak"], j["def"], ", ".join("%s: %r" % (f, o) for f, o in zip(j["fields"] + ["?"] * 9, self.ops)))
            return "%s(%s)" % (j["ak"], ", ".join(map(repr, self.ops)))
        if self.k in ("discr", "copyderef", "rawptr"):
            return "%s(%r)" % (self.k, self.place)
        return "%s<%s>" % (self.k, j.get("text", ""))


class Callee:
    __slots__ = ("path", "args", "res", "res_args", "res_kind", "local", "res_local", "trait", "impl_self", "j")

    def __init__(self, j):
        self.j = j
        self.path = j["path"]
        self.args = j.get("args", [])
        self.res = j.get("res")
        self.res_args = j.get("res_args", [])
        self.res_kind = j.get("res_kind")
        self.local = j.get("local", False)
        self.res_local = j.get("res_local", False)
        self.trait = j.get("trait")
        self.impl_self = j.get("impl_self")

    @property
    def target(self):
        """best-known concrete callee path"""
        return self.res or self.path

    def __repr__(self):
        if self.res and self.res != self.path:
            return "%s => %s" % (self.path, self.res)
        return self.path


class Term:
    __slots__ = ("k", "j", "span", "exp", "callee", "args", "arg_t", "dest", "target", "unwind",
                 "discr", "arms", "otherwise", "place", "fn_op", "cond", "value", "imaginary")

    def __init__(self, j):
        self.j = j
        self.k = j["k"]
        self.span = j.get("span")
        self.exp = j.get("exp")
        self.callee = Callee(j["callee"]) if "callee" in j else None
        self.fn_op = Operand(j["fn_op"]) if "fn_op" in j else None
        self.args = [Operand(a) for a in j.get("args", [])]
        self.arg_t = j.get("arg_t", [])
        self.dest = Place(j["dest"]) if "dest" in j else None
        self.target = j.get("target")
        if self.k == "yield":
            self.target = j["resume"]
        self.unwind = j.get("unwind")
        self.discr = Operand(j["discr"]) if "discr" in j else None
        self.arms = [(int(v), b) for v, b in j.get("arms", [])]
        self.otherwise = j.get("otherwise")
        self.place = Place(j["pl"]) if "pl" in j else None
        self.cond = Operand(j["cond"]) if "cond" in j else None
        self.value = Operand(j["value"]) if "value" in j else None
        self.imaginary = j.get("imaginary")

    def succs(self, unwind=False, imaginary=False):
        """normal-control-flow successors"""
        out = []
        if self.k == "switch":
            out = [b for _, b in self.arms] + [self.otherwise]
        elif self.k in ("goto", "drop", "call", "assert", "falseedge", "falseunwind", "yield"):
            if self.target is not None:
                out = [self.target]
            if imaginary and self.k == "falseedge":
                out.append(self.imaginary)
        if unwind and self.unwind is not None:
            out.append(self.unwind)
        seen = []
        for b in out:
            if b not in seen:
                seen.append(b)
        return seen

    def __repr__(self):
        if self.k == "call":
            f = repr(self.callee) if self.callee else "(%r)" % self.fn_op
            return "%r = %s(%s) -> %s" % (self.dest, f, ", ".join(map(repr, self.args)), self.target)
        if self.k == "switch":
            return "switch(%r) [%s, otherwise: %s]" % (self.discr, ", ".join("%d: %d" % a for a in self.arms), self.otherwise)
        if self.k == "drop":
            return "drop(%r) -> %s" % (self.place, self.target)
        if self.k == "yield":
            return "yield(%r) -> %s" % (self.value, self.target)
        if self.k == "assert":
            return "assert(%r == %s, %s) -> %s" % (self.cond, self.j["expected"], self.j["msg"], self.target)
        if self.k == "falseedge":
            return "falseedge -> %s (imag %s)" % (self.target, self.imaginary)
        if self.target is not None:
            return "%s -> %s" % (self.k, self.target)
        return self.k


class Block:
    __slots__ = ("stmts", "term", "cleanup", "idx", "origin")

    def __init__(self, j, idx):
        self.idx = idx
        self.origin = j.get("from")     # id of the function this block was spliced in from (norm.py), None = the body's own code
        self.stmts = [Stmt(s) for s in j["stmts"]]
        self.term = Term(j["term"])
        self.cleanup = j["cleanup"]


class Body:
    def __init__(self, j, crate, types):
        self.j = j
        self.crate = crate
        self.types = types
        self.id = j["id"]
        self.kind = j["kind"]
        self.root = j.get("root")
        self.parent = j.get("parent")
        self.coroutine = j.get("coroutine")
        self.span = j["span"]
        self.arg_count = j["arg_count"]
        self.vis = j.get("vis")
        self.impl_self = j.get("impl_self")
        self.impl_trait = j.get("impl_trait")
        self.locals = j["locals"]
        self._blocks = None

    @property
    def ret_locals(self):
        """return places of helper bodies spliced into this one (norm.py)"""
        return self.j.get("ret_locals", [])

    def _unused(self):
        pass

    @property
    def blocks(self):
        if self._blocks is None:
            self._blocks = [Block(b, i) for i, b in enumerate(self.j["blocks"])]
        return self._blocks

    @property
    def file(self):
        return self.span.split(":")[0]

    @property
    def line(self):
        return int(self.span.split(":")[1])

    def local_ty(self, l):
        return self.types[self.locals[l]["t"]]

    def local_name(self, l):
        return self.locals[l].get("n")

    def ty(self, ix):
        return self.types[ix] if ix is not None else None

    def place_ty(self, pl):
        if pl.ty is not None:
            return self.types[pl.ty]
        return self.local_ty(pl.local)

    def operand_ty(self, op):
        if op.place is not None:
            return self.place_ty(op.place)
        if op.const is not None and "t" in op.const:
            return self.types[op.const["t"]]
        return None

    def calls(self):
        for b in self.blocks:
            if b.term.k == "call":
                yield b

    def is_async(self):
        return bool(self.coroutine)

    def dump(self, with_cleanup=False):
        out = ["// %s  [%s%s] %s" % (self.id, self.kind, " " + self.coroutine if self.coroutine else "", self.span)]
        for i, l in enumerate(self.locals):
            out.append("  let _%d: %s%s" % (i, self.types[l["t"]], "  // " + l["n"] if "n" in l else ""))
        for b in self.blocks:
            if b.cleanup and not with_cleanup:
                continue
            out.append("bb%d%s:" % (b.idx, " (cleanup)" if b.cleanup else ""))
            for s in b.stmts:
                if s.k in ("live", "dead"):
                    continue
                out.append("    %r   // %s" % (s, (s.span or "").split(":", 1)[-1]))
            out.append("    %r   // %s%s" % (b.term, (b.term.span or "").split(":", 1)[-1], " exp=%s" % b.term.exp if b.term.exp else ""))
        return "\n".join(out)


class Facts:
    def __init__(self, path):
        with open(path) as fh:
            doc = json.load(fh)
        self.path = path
        self.tree_hash = doc["tree_hash"]
        self.repo = os.environ.get("VERIF_REPO") or doc["repo"]
        self.bodies = {}
        self.adts = {}
        self.impls = []
        self.consts = {}
        self.crates = []
        for c in doc["crates"]:
            kind = "bin" if any("Executable" in t for t in c["crate_types"]) else "lib"
            self.crates.append((c["crate"], kind, len(c["bodies"])))
            prefix = "" if kind == "lib" else "bin::"
            for bj in c["bodies"]:
                b = Body(bj, kind, c["types"])
                if kind == "bin":
                    b.id = prefix + b.id
                if b.id in self.bodies:
                    raise RuntimeError("duplicate body id %s" % b.id)
                self.bodies[b.id] = b
            if kind == "lib":
                for a in c["adts"]:
                    self.adts[a["path"]] = a
                self.impls = c["impls"]
                for k in c["consts"]:
                    self.consts[k["path"]] = k
        self._children = None
        self.inlined = {}
        import norm
        norm.normalise(self)

    def lib_bodies(self):
        return [b for b in self.bodies.values() if b.crate == "lib"]

    def body(self, id):
        return self.bodies.get(id)

    def children(self, id):
        """closures / coroutines defined directly inside body `id`"""
        if self._children is None:
            ch = {}
            for b in self.bodies.values():
                if b.parent:
                    p = b.parent if b.crate == "lib" else "bin::" + b.parent
                    ch.setdefault(p, []).append(b.id)
            self._children = ch
        return self._children.get(id, [])

    def descendants(self, id):
        out = []
        stack = [id]
        while stack:
            x = stack.pop()
            for c in self.children(x):
                out.append(c)
                stack.append(c)
        return out

    def find(self, pattern):
        rx = re.compile(pattern)
        return [b for b in self.bodies.values() if rx.search(b.id)]

    def adt(self, path):
        return self.adts.get(path)

    def adt_field(self, path, field, variant=0):
        a = self.adts.get(path)
        if not a:
            return None
        for f in a["variants"][variant]["fields"]:
            if f["name"] == field:
                return f
        return None

    def implements(self, self_ty, trait_suffix):
        for im in self.impls:
            if im["self"] == self_ty and im["trait"].endswith(trait_suffix):
                return im
        return None
