"""G5: interval / partition analysis for scalar guards.

For one integer input of a body (a parameter, or a request field), enumerate the control-flow paths of a
loop-free region, refining the input's interval at every branch that compares the input (or a copy of
it) with a constant.  The result is the *partition* of the input range induced by the code: for each
path the interval under which it is taken and the blocks it visits.  Classic abstract interpretation
with trace partitioning on tiny straight-line regions; anything else (loops, arithmetic on the input,
comparisons with non-constants) makes the analysis answer None = undecided."""

INT_RANGES = {
    "i8": (-2 ** 7, 2 ** 7 - 1), "i16": (-2 ** 15, 2 ** 15 - 1), "i32": (-2 ** 31, 2 ** 31 - 1), "i64": (-2 ** 63, 2 ** 63 - 1),
    "isize": (-2 ** 63, 2 ** 63 - 1), "i128": (-2 ** 127, 2 ** 127 - 1),
    "u8": (0, 2 ** 8 - 1), "u16": (0, 2 ** 16 - 1), "u32": (0, 2 ** 32 - 1), "u64": (0, 2 ** 64 - 1), "usize": (0, 2 ** 64 - 1),
    "u128": (0, 2 ** 128 - 1),
}


class Path:
    __slots__ = ("lo", "hi", "blocks", "end", "excluded")

    def __init__(self, lo, hi, blocks, end, excluded):
        self.lo, self.hi, self.blocks, self.end, self.excluded = lo, hi, blocks, end, excluded

    def __repr__(self):
        return "[%s,%s]->bb%s" % (self.lo, self.hi, self.end)


class IntervalWalker:
    def __init__(self, prog, body_id, is_input, int_ty):
        """is_input(Origin) -> bool tells whether a traced origin denotes the analysed input"""
        self.prog = prog
        self.bi = prog.info(body_id)
        self.body = self.bi.body
        self.is_input = is_input
        self.range = INT_RANGES.get(int_ty)
        self.undecided_reason = None

    def _is_in(self, operand):
        if operand is None or operand.place is None:
            return False
        o = self.bi.trace(operand, through_clone=True)
        return self.is_input(o)

    def _try_from_switch(self, bb, t):
        """the switch at bb decides on the discriminant of `<T as TryFrom<_>>::try_from(input)`: (lo, hi) of T"""
        if not t.discr.place.is_local():
            return None
        for s in self.body.blocks[bb].stmts:
            if s.k == "assign" and s.lhs.is_local() and s.lhs.local == t.discr.place.local and s.rv.k == "discr":
                o = self.bi.trace(s.rv.place)
                if o.kind == "call" and not o.path:
                    c = self.bi.call_at(o.data)
                    if c.callee is not None and c.callee.path.split("::")[-1] in ("try_from", "try_into") and c.args and self._is_in(c.args[0]):
                        ty = self.body.local_ty(c.dest.local) if c.dest is not None and c.dest.is_local() else ""
                        import re
                        m = re.match(r"^std::result::Result<([iu](?:8|16|32|64|128|size)),", ty or "")
                        if m:
                            return INT_RANGES[m.group(1)]
        return None

    def _cond(self, bb, local):
        """if bool `local` is `input <op> const` (single def in this block or a dominating one): (op, c)"""
        ds = self.bi.defs.get(local, [])
        if len(ds) != 1 or ds[0][1] < 0:
            return None
        s = self.bi.stmt(*ds[0])
        if s.rv.k != "bin":
            return None
        op = s.rv.j["op"]
        a, b = s.rv.ops
        if op not in ("Lt", "Le", "Gt", "Ge", "Eq", "Ne"):
            return None
        if self._is_in(a) and b.const_int() is not None:
            return (op, b.const_int())
        if self._is_in(b) and a.const_int() is not None:
            flip = {"Lt": "Gt", "Le": "Ge", "Gt": "Lt", "Ge": "Le", "Eq": "Eq", "Ne": "Ne"}[op]
            return (flip, a.const_int())
        if self._is_in(a) or self._is_in(b):
            self.undecided_reason = "input compared with a non-constant at bb%d" % ds[0][0]
        return None

    @staticmethod
    def _refine(lo, hi, excl, op, c, truth):
        if not truth:
            op = {"Lt": "Ge", "Le": "Gt", "Gt": "Le", "Ge": "Lt", "Eq": "Ne", "Ne": "Eq"}[op]
        if op == "Lt":
            hi = min(hi, c - 1)
        elif op == "Le":
            hi = min(hi, c)
        elif op == "Gt":
            lo = max(lo, c + 1)
        elif op == "Ge":
            lo = max(lo, c)
        elif op == "Eq":
            lo, hi = max(lo, c), min(hi, c)
        elif op == "Ne":
            if c == lo:
                lo += 1
            elif c == hi:
                hi -= 1
            elif lo < c < hi:
                excl = excl | {c}
        return lo, hi, excl

    def paths(self, start=0, stop=None, max_paths=3000, only=None):
        """all paths from `start` to a return (or to `stop`).  None if undecidable (loop / too many paths)."""
        if self.range is None:
            self.undecided_reason = "input type has no integer range"
            return None
        body = self.body
        out = []
        lo0, hi0 = self.range
        stack = [(start, lo0, hi0, frozenset(), (start,))]
        while stack:
            bb, lo, hi, excl, trail = stack.pop()
            if lo > hi:
                continue
            if only is not None and bb not in only:
                continue
            if len(out) > max_paths or len(stack) > 20000:
                self.undecided_reason = "too many paths"
                return None
            blk = body.blocks[bb]
            t = blk.term
            if (stop is not None and bb == stop and len(trail) > 1) or t.k == "return":
                out.append(Path(lo, hi, trail, bb, excl))
                continue
            succs = self.bi.cfg.succ[bb]
            if not succs:
                # diverging (panic) path
                out.append(Path(lo, hi, trail, bb, excl))
                continue
            if t.k == "switch" and t.discr is not None and t.discr.place is not None:
                tf = self._try_from_switch(bb, t)
                if tf is not None:
                    # `match uN::try_from(input) { Ok(v) => .., Err(_) => .. }`: Ok <=> the input fits the target type
                    tlo, thi = tf
                    arms = dict(t.arms)
                    okb, errb = arms.get(0), arms.get(1, t.otherwise)
                    if okb is None or errb is None or (lo < tlo and hi > thi):
                        self.undecided_reason = "try_from switch shape at bb%d" % bb
                        return None
                    for target, l2, h2 in ((okb, max(lo, tlo), min(hi, thi)),
                                           (errb, lo, min(hi, tlo - 1)) if lo < tlo else (errb, max(lo, thi + 1), hi)):
                        if target in trail:
                            self.undecided_reason = "loop at bb%d" % target
                            return None
                        stack.append((target, l2, h2, excl, trail + (target,)))
                    continue
                cond = self._cond(bb, t.discr.place.local) if t.discr.place.is_local() else None
                if cond is not None:
                    op, c = cond
                    arms = dict(t.arms)
                    false_bb = arms.get(0)
                    true_bb = t.otherwise
                    if false_bb is None:
                        self.undecided_reason = "unexpected bool switch shape at bb%d" % bb
                        return None
                    for target, truth in ((true_bb, True), (false_bb, False)):
                        l2, h2, e2 = self._refine(lo, hi, excl, op, c, truth)
                        if target in trail:
                            self.undecided_reason = "loop at bb%d" % target
                            return None
                        stack.append((target, l2, h2, e2, trail + (target,)))
                    continue
                if self._is_in(t.discr):
                    # switchInt on the input value itself: match v { 0 => .., _ => .. }
                    vals = []
                    for v, target in t.arms:
                        vals.append(v)
                        l2, h2, e2 = self._refine(lo, hi, excl, "Eq", v, True)
                        if target in trail:
                            self.undecided_reason = "loop"
                            return None
                        stack.append((target, l2, h2, e2, trail + (target,)))
                    l2, h2, e2 = lo, hi, excl
                    for v in vals:
                        l2, h2, e2 = self._refine(l2, h2, e2, "Ne", v, True)
                    stack.append((t.otherwise, l2, h2, e2, trail + (t.otherwise,)))
                    continue
            for s in succs:
                if s in trail:
                    self.undecided_reason = "loop at bb%d" % s
                    return None
                stack.append((s, lo, hi, excl, trail + (s,)))
        return out


def merge_partition(items, point_label=None):
    """items: [(lo, hi, label)] -> sorted, adjacent equal labels merged.
    point_label(label, v) may rewrite the label of a single-point interval [v, v] (e.g. `identity` at 600 is the
    same as `const 600`), so that `>=` vs `>` at a boundary whose two sides agree stays silent."""
    if point_label is not None:
        items = [(lo, hi, point_label(lab, lo) if lo == hi else lab) for lo, hi, lab in items]
    items = sorted(set(items))
    out = []
    for lo, hi, label in items:
        if out and out[-1][2] == label and out[-1][1] + 1 >= lo:
            out[-1] = (out[-1][0], max(out[-1][1], hi), label)
        else:
            out.append((lo, hi, label))
    return out


def compare_partitions(got, expected, point_equiv=None):
    """Differences between two partitions of the same range, segment by segment.  On a single-point segment [v, v]
    point_equiv(label_got, label_expected, v) may declare two different labels equivalent (`identity` at 600 ==
    `const 600`), so that moving a boundary whose two sides agree there (>= 600 vs > 600) is not a difference."""
    points = sorted({x for lo, hi, _ in list(got) + list(expected) for x in (lo, hi + 1)})
    diffs = []

    def label_at(part, v):
        ls = sorted({l for lo, hi, l in part if lo <= v <= hi})
        return "|".join(ls) if ls else "(unreachable)"

    for a, b in zip(points, points[1:]):
        lg, le = label_at(got, a), label_at(expected, a)
        if lg == le:
            continue
        if a == b - 1 and point_equiv is not None and point_equiv(lg, le, a):
            continue
        diffs.append("[%d,%d]: code does %s, property says %s" % (a, b - 1, lg, le))
    return diffs
