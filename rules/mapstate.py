"""Key-presence regions of a body with respect to one map cell (HashMap / BTreeMap field).

`regions(prog, bi, cell)` returns (absent, present): the blocks that can only be reached when the most recent
lookup of the map said "no such key" / "key found".  All the idioms for the same test are recognised alike, so a
rule that asks "is this insert under the vacant arm?" does not care how the test is spelled:

    match map.entry(k) { Vacant(e) => .., Occupied(e) => .. }        switch on the Entry discriminant
    if map.contains_key(&k) { .. } / if !map.contains_key(&k)        bool (through `!`, moves)
    match map.get(&k) { Some(v) => .., None => .. } / if let Some    switch on the Option discriminant
    map.get(&k).is_some() / is_none() / is_some_and(..)              bool
    map.get(&k).map(|v| ..) == Some(x)                               presence-preserving adapters, `==` with a Some literal
"""
import libmodel as L

PRESERVING = {"map", "as_ref", "as_mut", "copied", "cloned", "as_deref", "as_deref_mut", "inspect"}
LOOKUPS = {"entry": "entry", "contains_key": "bool", "contains": "bool", "get": "option", "get_mut": "option",
           "get_key_value": "option", "first_key_value": "option"}


def _bool_switches(bi, local, negated=False, depth=0, seen=None):
    """[(switch bb, true target, false target)] of switches deciding on bool `local` (through moves and `!`)"""
    out = []
    seen = seen if seen is not None else set()
    if depth > 6 or local in seen:
        return out
    seen.add(local)
    body = bi.body
    for (ub, ui) in bi.uses_of_local(local):
        if ui == -1:
            t = body.blocks[ub].term
            if t.k == "switch" and t.discr is not None and t.discr.place is not None and t.discr.place.is_local() and t.discr.place.local == local:
                arms = dict(t.arms)
                f, tr = arms.get(0), t.otherwise
                if f is None:
                    continue
                out.append((ub, f, tr) if negated else (ub, tr, f))
        elif ui >= 0:
            st = bi.stmt(ub, ui)
            if st.k != "assign" or not st.lhs.is_local():
                continue
            if st.rv.k == "use" and st.rv.ops[0].place is not None and st.rv.ops[0].place.is_local() and st.rv.ops[0].place.local == local:
                out += _bool_switches(bi, st.lhs.local, negated, depth + 1, seen)
            elif st.rv.k == "un" and st.rv.j.get("op") == "Not":
                out += _bool_switches(bi, st.lhs.local, not negated, depth + 1, seen)
            elif st.rv.k == "bin" and st.rv.j.get("op") in ("Eq", "Ne") and len(st.rv.ops) == 2:
                # `x == false`, `x != true`, ..
                cb = [o.const_bool() for o in st.rv.ops]
                other = [o for o in st.rv.ops if o.const_bool() is None]
                cst = [c for c in cb if c is not None]
                if len(cst) == 1 and len(other) == 1 and other[0].place is not None and other[0].place.is_local() and other[0].place.local == local:
                    same = (st.rv.j["op"] == "Eq") == cst[0]        # the result equals x
                    out += _bool_switches(bi, st.lhs.local, negated if same else not negated, depth + 1, seen)
    return out


def _is_some_literal(bi, operand):
    o = bi.trace(operand)
    if o.kind == "agg" and not o.path:
        rv = bi.agg_at(o.data)
        return rv.j.get("ak") == "adt" and rv.j.get("adt") == "std::option::Option" and rv.j.get("variant") == "Some"
    return False


def presence_switches(bi, bb, kind, local=None):
    """[(switch bb, target when the key is present / Some, target when absent / None)] for the lookup call at bb (or for the
    Option held in `local`, e.g. the result of an await).
    kind: "bool" (contains_key) | "option" (get / remove) | "entry".  Either target may be None (not decided there)."""
    body = bi.body
    out = []
    if local is not None:
        d0 = local
    else:
        t = body.blocks[bb].term
        if t.k != "call" or t.dest is None or not t.dest.is_local():
            return out
        d0 = t.dest.local
    if kind == "bool":
        return [(sw, tr, fa) for sw, tr, fa in _bool_switches(bi, d0)]
    # Option / Entry valued: propagate through moves, borrows and presence-preserving adapters
    holders = {d0}
    flows = set()          # ControlFlow values of `?` applied to a holder: Continue <=> Some
    changed = True
    rounds = 0
    while changed and rounds < 10:
        changed = False
        rounds += 1
        for blk in body.blocks:
            if blk.cleanup:
                continue
            for st in blk.stmts:
                if st.k == "assign" and st.lhs.is_local():
                    src = None
                    if st.rv.k == "use" and st.rv.ops[0].place is not None:
                        src = st.rv.ops[0].place
                    elif st.rv.k == "ref":
                        src = st.rv.place
                    if src is not None and not [p for p in src.proj if p != "deref"]:
                        if src.local in holders and st.lhs.local not in holders:
                            holders.add(st.lhs.local)
                            changed = True
                        if src.local in flows and st.lhs.local not in flows:
                            flows.add(st.lhs.local)
                            changed = True
            tt = blk.term
            if tt.k == "call" and tt.callee is not None and tt.dest is not None and tt.dest.is_local() and tt.args:
                n = tt.callee.path.split("::")[-1]
                a0 = tt.args[0].place
                if a0 is None or a0.local not in holders or kind != "option":
                    continue
                if n in PRESERVING and "Option" in tt.callee.path and tt.dest.local not in holders:
                    holders.add(tt.dest.local)
                    changed = True
                elif tt.callee.path == "std::ops::Try::branch" and tt.dest.local not in flows:
                    flows.add(tt.dest.local)
                    changed = True
    for blk in body.blocks:
        if blk.cleanup or blk.idx not in bi.cfg.reach:
            continue
        tt = blk.term
        if tt.k == "switch" and tt.discr is not None and tt.discr.place is not None and tt.discr.place.is_local():
            for st in blk.stmts:
                if st.k == "assign" and st.rv.k == "discr" and st.lhs.is_local() and st.lhs.local == tt.discr.place.local \
                        and not [p for p in st.rv.place.proj if p != "deref"]:
                    arms = dict(tt.arms)
                    a0t = arms.get(0, tt.otherwise if 1 in arms else None)
                    a1t = arms.get(1, tt.otherwise if 0 in arms else None)
                    if st.rv.place.local in holders:
                        if kind == "option":      # None = 0, Some = 1
                            out.append((blk.idx, a1t, a0t))
                        else:                     # Entry: Occupied = 0, Vacant = 1
                            out.append((blk.idx, a0t, a1t))
                    elif st.rv.place.local in flows:   # ControlFlow: Continue = 0, Break = 1
                        out.append((blk.idx, a0t, a1t))
        if tt.k == "call" and tt.callee is not None and tt.dest is not None and tt.dest.is_local() and tt.args:
            n = tt.callee.path.split("::")[-1]
            a0 = tt.args[0].place
            other = tt.args[1] if len(tt.args) > 1 else None
            if a0 is None or a0.local not in holders:
                if n == "eq" and len(tt.args) == 2 and tt.args[1].place is not None and tt.args[1].place.local in holders and kind == "option":
                    other = tt.args[0]
                else:
                    continue
            if kind == "option" and n in ("is_some", "is_some_and"):
                for sw, tr, fa in _bool_switches(bi, tt.dest.local):
                    out.append((sw, tr, fa if n == "is_some" else None))
            elif kind == "option" and n in ("is_none", "is_none_or"):
                for sw, tr, fa in _bool_switches(bi, tt.dest.local):
                    out.append((sw, fa, tr if n == "is_none" else None))
            elif kind == "option" and n == "eq" and other is not None and _is_some_literal(bi, other):
                for sw, tr, fa in _bool_switches(bi, tt.dest.local):
                    out.append((sw, tr, None))
            elif kind == "entry" and n in ("or_insert", "or_insert_with", "or_insert_with_key", "or_default"):
                out.append((blk.idx, None, "self"))
    return out


def some_entry(bi, call_bb):
    """the block entered when the Option returned by the call at call_bb is Some -- through `if let`, `match`, `?`,
    `is_some()`; None when there is not exactly one such place"""
    sws = [p for (_, p, _) in presence_switches(bi, call_bb, "option") if p is not None]
    if len(sws) == 1:
        return bi._skip_false(sws[0])
    return None


def regions(prog, bi, cell, own_only=True, through_wrappers=False):
    body = bi.body
    absent, present = set(), set()
    sites = []
    for e in prog.effects(bi.body.id):
        if own_only and e.chain:
            continue
        if not e.touches(cell):
            continue
        if e.cells[-1] != cell:
            # the map may sit inside a small wrapper type of the crate (`struct ProjectIndex { projects: HashMap<..> }`)
            if not (through_wrappers and cell in e.cells and all(c[0].startswith("crate::") for c in e.cells[e.cells.index(cell) + 1:])):
                continue
        n = e.lib.split("::")[-1]
        if n in LOOKUPS:
            sites.append((e.bb, LOOKUPS[n]))
        elif n == "remove" and e.kind in L.REMOVE_KINDS:
            sites.append((e.bb, "option"))      # `if let Some(x) = map.remove(&k)`: Some <=> the key was there
    for bb, kind in sites:
        for sw, pt, at in presence_switches(bi, bb, kind):
            if pt is not None:
                present.update(bi.cfg.edge_dominated(sw, pt))
            if at == "self":
                absent.add(sw)
            elif at is not None:
                absent.update(bi.cfg.edge_dominated(sw, at))
    return absent, present
