"""Shadow copies of actor state.

An actor owns its state; everything else learns about it through requests.  A *shadow* is a value derived from an actor's
anchored field (`self.backlog.len()`, `self.outstanding.is_empty()`, ..) that an actor method stores into a cell other tasks
can read without a request (an atomic, a field behind a lock / Arc of a shared object) and that some other code *consults to
decide something* (the loaded value reaches a branch).  Such a copy is only as good as its refresh discipline: every change
of the source field must be followed by a refresh before the actor suspends again -- otherwise a consumer that trusts the
copy acts on a state that is no longer there (skips a pull although messages were requeued by the expiry timer, ...).

find_shadows(prog)            -> [Shadow]   (cell, source field, actor, consulted-at)
stale_paths(prog, shadow)     -> [(body, bb, text)]  mutation sites from which the actor can reach its next suspension point
                                                    (or the unit its exit) without refreshing the copy
"""
import libmodel as L
from slicing import Slicer

STORE_KINDS = {"atomic_store", "atomic_rmw", "write"}
LOAD_KINDS = {"atomic_load", "read"}


class Shadow:
    def __init__(self, cell, field, actor, site, kind):
        self.cell, self.field, self.actor, self.site, self.kind = cell, field, actor, site, kind
        self.consulted = []

    def label(self):
        return "%s.%s<-%s.%s" % (self.cell[0].split("::")[-1], self.cell[1], self.field[0].split("::")[-1], self.field[1])


def _shared_cell(prog, e, actor_ty):
    """the last cell of the effect lives outside the actor struct and is reachable by other tasks"""
    if not e.cells:
        return None
    last = e.cells[-1]
    if last[0] == actor_ty:
        return None
    if e.kind.startswith("atomic"):
        return last
    # a plain write: through an Arc / lock on the way from the actor
    for owner, fname in e.cells:
        adt = prog.facts.adt(owner)
        if not adt:
            continue
        for v in adt.get("variants", []):
            for f in v.get("fields", []):
                if f["name"] == fname and any(w in f["ty"] for w in ("std::sync::Arc<", "Mutex<", "RwLock<")):
                    return last
    return None


def _stored_value(bi, e):
    """operand holding the value that the store effect writes"""
    if e.extra:
        st = bi.stmt(*e.extra)
        if st is not None and st.k == "assign" and st.rv.ops:
            return st.rv.ops[0]
    t = bi.body.blocks[e.bb].term
    if t.k == "call" and len(t.args) >= 2:
        return t.args[1]
    return None


def find_shadows(prog):
    memo = getattr(prog, "_shadows", None)
    if memo is not None:
        return memo
    from anchors import FIELDS
    sl = Slicer(prog)
    out = {}
    for actor in prog.actors:
        if actor.loop is None:
            continue
        aty = actor.ty
        short = aty.split("::")[-1]
        anchored = {(aty, f) for f in FIELDS.get(short, [])}
        for bid in prog.cone(actor.loop, follow=("call", "closure", "poll")):
            bi = prog.info(bid)
            if bi is None:
                continue
            for e in prog.effects(bid):
                if e.chain or e.kind not in STORE_KINDS:
                    continue
                cell = _shared_cell(prog, e, aty)
                if cell is None:
                    continue
                val = _stored_value(bi, e)
                if val is None or val.place is None:
                    continue
                s = sl.of(bid, val)
                src = sorted(anchored & set(s.fields))
                # state kept in a collection owned by the actor: the stored value is computed from it
                if not src:
                    continue
                for f in src:
                    k = (cell, f)
                    if k not in out:
                        out[k] = Shadow(cell, f, actor, prog.loc(bid, e.bb), e.kind)
    # consulted: a load of the cell outside the actor's own cone whose value reaches a branch
    res = []
    for sh in out.values():
        acone = set(prog.cone(sh.actor.loop, follow=("call", "closure", "poll")))
        for b in prog.facts.lib_bodies():
            if b.id in acone:
                continue
            bi = prog.info(b.id)
            for e in prog.effects(b.id):
                if e.chain or e.kind not in LOAD_KINDS or not e.cells or e.cells[-1] != sh.cell:
                    continue
                t = bi.body.blocks[e.bb].term
                if t.k != "call" or t.dest is None or not t.dest.is_local():
                    continue
                if reaches_branch(prog, b.id, t.dest.local):
                    sh.consulted.append(prog.loc(b.id, e.bb))
        if sh.consulted:
            res.append(sh)
    prog._shadows = res
    return res


def reaches_branch(prog, bid, local, depth=0, seen=None):
    """forward taint inside one body (assignments, comparisons, calls taking the value) up to a `switch`; through the
    return place into the callers (three levels)"""
    seen = seen if seen is not None else set()
    if (bid, local) in seen or depth > 3:
        return False
    seen.add((bid, local))
    bi = prog.info(bid)
    body = bi.body
    tainted = {local}
    changed = True
    while changed:
        changed = False
        for blk in body.blocks:
            if blk.cleanup:
                continue
            for st in blk.stmts:
                if st.k != "assign" or st.lhs.local in tainted:
                    continue
                ops = list(st.rv.ops)
                pl = getattr(st.rv, "place", None)
                if any(o.place is not None and o.place.local in tainted for o in ops) or (pl is not None and pl.local in tainted):
                    tainted.add(st.lhs.local)
                    changed = True
            t = blk.term
            if t.k == "call" and t.dest is not None and t.dest.local not in tainted and any(a.place is not None and a.place.local in tainted for a in t.args):
                # pure library predicates / conversions keep the taint (gt, is_empty, cmp, into, ..)
                if t.callee is not None and not (t.callee.local or t.callee.res_local):
                    tainted.add(t.dest.local)
                    changed = True
    for blk in body.blocks:
        if blk.cleanup:
            continue
        t = blk.term
        if t.k == "switch" and t.discr is not None and t.discr.place is not None and t.discr.place.local in tainted:
            return True
    if 0 in tainted or any(r in tainted for r in body.ret_locals):
        root = body.root or bid
        for cid, cb in prog.facts.bodies.items():
            if cb.crate != "lib":
                continue
            ci = prog.info(cid)
            for cbb, ct in ci.calls(lambda c: prog.qual(cb, c.target) == root):
                if ct.dest is not None and ct.dest.is_local() and reaches_branch(prog, cid, ct.dest.local, depth + 1, seen):
                    return True
    return False


def stale_paths(prog, sh):
    """mutation sites of sh.field in the actor from which the copy is not refreshed before the actor suspends"""
    from norm import spine_of
    spine = spine_of(prog, sh.actor) | {sh.actor.loop}
    memo = {}

    def is_m(e):
        return e.touches(sh.field) and e.kind in L.MUTATING_KINDS

    def is_s(e):
        return e.cells and e.cells[-1] == sh.cell and e.kind in STORE_KINDS

    def analyse(bid, effs):
        """effs: frozenset of (bb in bid, rest of the call chain, 'M' | 'S', text, is-statement).  The cells of an effect are
        only meaningful relative to the top body, so the recursion follows the recorded chains rather than re-reading
        the callees' own effects.  Returns (uncovered: [(body, bb, text)], always_refreshes: bool)"""
        key = (bid, effs)
        if key in memo:
            return memo[key]
        memo[key] = ([], False)      # recursion guard
        bi = prog.info(bid)
        if bi is None:
            return memo[key]
        b = prog.facts.body(bid)
        top = bid in spine and b is not None and bool(b.coroutine)
        by_bb = {}
        for x in effs:
            by_bb.setdefault(x[0], []).append(x)
        M, S = {}, set()
        for bb, xs in by_bb.items():
            own_m = [x for x in xs if not x[1] and x[2] == "M"]
            own_s = [x for x in xs if not x[1] and x[2] == "S"]
            sub = {}
            for x in xs:
                if x[1]:
                    sub.setdefault(x[1][0][0], set()).add((x[1][0][1], x[1][1:], x[2], x[3], x[4]))
            unc, refreshing = [], False
            for c, ce in sorted(sub.items()):
                u, r = analyse(c, frozenset(ce))
                if u and bid in spine and c not in spine:
                    u = [(bid, bb, "%s in %s" % (u[0][2].split(" in ")[0], prog.short(c)))]      # name the actor's own operation
                unc += u
                refreshing = refreshing or r
            if unc:
                M[bb] = unc
            elif own_m and own_s:
                # statement write then call store in one block: the call comes last
                if all(x[4] for x in own_m) and not any(x[4] for x in own_s):
                    S.add(bb)
                else:
                    M[bb] = [(bid, bb, own_m[0][3])]
            elif own_s or refreshing:
                S.add(bb)
            elif own_m:
                M[bb] = [(bid, bb, own_m[0][3])]
        exits = set(bi.cfg.returns)
        if top:
            # the actor's loop: every suspension point (the select / recv it waits on) ends the turn
            exits |= {a.poll_bb for a in bi.awaits}
        uncovered = []
        for bb, descs in M.items():
            if bi.cfg.escapes(bb, S, exits=exits, after=True) is not None:
                uncovered += descs
        always = bool(S) and bi.cfg.escapes(0, S, exits=set(bi.cfg.returns), after=False) is None
        memo[key] = (uncovered, always)
        return memo[key]

    effs = set()
    for e in prog.effects(sh.actor.loop):
        m, s_ = is_m(e), is_s(e)
        if m or s_:
            effs.add((e.bb, tuple(e.chain), "M" if m else "S", "%s of %s" % (e.kind, sh.field[1]) if m else "refresh", bool(e.extra)))
    unc, _ = analyse(sh.actor.loop, frozenset(effs))
    seen, res = set(), []
    for x in unc:
        if (x[0], x[2]) not in seen:
            seen.add((x[0], x[2]))
            res.append(x)
    return res
