"""Whole-program normalisation of the fact base: private helper functions are inlined into their callers.

Why: most rules reason about one body at a time (dominance, ordering, guards, loops).  Extracting a few
statements into a private helper -- sync or `async fn` awaited in place -- does not change behaviour, so it must
not change a verdict.  Instead of teaching every rule to look through calls, the program is brought into a normal
form first: a *helper* is spliced into every call site and disappears as a unit of its own.

helper  :=  a lib function / inherent method (not a trait impl, not a closure)
            whose visibility is restricted to a module below the crate root (plain `fn`, `pub(super)`, ...),
            all of whose call sites are in its own source file, that is not recursive, and that is not a
            *unit boundary*: the actors' start / loop / dispatch bodies and the functions those call directly
            (one per request variant or select arm) stay units, so "the handler of request X" keeps a name.
sync    :   `dest = f(args) -> bb`  becomes  params := args; body of f; dest := _0'; goto bb
async   :   `f(args).await` (the call's value flows only into the await) becomes  env := coroutine{args};
            body of f's coroutine; result := _0'; the poll loop of the await goes away, the inner yields stay.
            An async helper whose future is stored, spawned or raced in a select! is left alone.
Closures defined inside a helper keep their id; they are re-parented to the (first) body they were inlined in.
Nothing here looks at names; the transformation is the same on every tree.
"""
import copy
import os
import re

MAX_BLOCKS = 400
MAX_ROUNDS = 200


def _place(pl, off):
    pl["l"] += off
    for p in pl.get("p", []):
        if isinstance(p, dict) and "idx" in p:
            p["idx"] += off


def _operand(op, off):
    if not isinstance(op, dict):
        return
    for k in ("c", "m"):
        if k in op:
            _place(op[k], off)


def _rvalue(rv, off):
    for k in ("op", "a", "b"):
        if k in rv and isinstance(rv[k], dict):
            _operand(rv[k], off)
    for o in rv.get("ops", []):
        _operand(o, off)
    if "pl" in rv:
        _place(rv["pl"], off)


def _stmt(s, off):
    if "lhs" in s:
        _place(s["lhs"], off)
    if "rv" in s:
        _rvalue(s["rv"], off)
    if "l" in s and isinstance(s["l"], int):
        s["l"] += off


BLOCK_REFS = ("target", "unwind", "resume", "drop", "imaginary", "otherwise")


def _term(t, off, boff):
    for a in t.get("args", []):
        _operand(a, off)
    for k in ("discr", "cond", "value", "fn_op"):
        if k in t and isinstance(t[k], dict):
            _operand(t[k], off)
    for k in ("dest", "pl", "resume_arg"):
        if k in t and isinstance(t[k], dict):
            _place(t[k], off)
    for k in BLOCK_REFS:
        if t.get(k) is not None:
            t[k] += boff
    if "arms" in t:
        t["arms"] = [[v, b + boff] for v, b in t["arms"]]


def _goto(target, span):
    return {"k": "goto", "target": target, "span": span, "exp": None}


def _assign(lhs_local, op, span):
    return {"k": "assign", "lhs": {"l": lhs_local}, "rv": {"k": "use", "op": op}, "span": span, "exp": None}


_REF = None


def reference_units():
    global _REF
    if _REF is None:
        p = os.path.join(os.path.dirname(os.path.abspath(__file__)), "reference_units.txt")
        try:
            _REF = {l.strip() for l in open(p) if l.strip() and not l.startswith("#")}
        except OSError:
            _REF = set()
    return _REF


def _module_of_vis(vis):
    m = re.match(r"^Restricted\(DefId\(\d+:\d+ ~ \w+\[\w+\](.*)\)\)$", vis or "")
    if not m:
        return None
    return m.group(1)


class Normaliser:
    def __init__(self, facts, boundaries):
        self.facts = facts
        self.boundaries = set(boundaries)
        self.log = []           # (helper, caller, kind)
        self.helpers = {}
        self.async_of = {}      # wrapper fn id -> coroutine body id
        self.kept = set()       # helpers with a call site that could not be inlined
        self.closure_sites = {}  # closure id -> bodies in which a call of it was spliced

    # ------------------------------------------------------------------ which functions are helpers
    def find_helpers(self):
        from mir import Body
        f = self.facts
        callers = {}
        addr_taken = set()
        for b in f.lib_bodies():
            for blk in b.blocks:
                t = blk.term
                if t.k == "call" and t.callee is not None and (t.callee.local or t.callee.res_local):
                    callers.setdefault(t.callee.target, []).append(b)
                for a in t.args:
                    if a.const is not None and a.const.get("fn"):
                        addr_taken.add(a.const["fn"])
                for s in blk.stmts:
                    if s.k == "assign":
                        for o in s.rv.ops:
                            if o.const is not None and o.const.get("fn"):
                                addr_taken.add(o.const["fn"])
        helpers = {}
        known = reference_units()
        for b in f.lib_bodies():
            if b.kind not in ("Fn", "AssocFn") or b.id in self.boundaries or b.file.startswith("/"):
                continue
            cs = callers.get(b.id, [])
            if not cs or b.id in addr_taken:
                continue
            if b.id in known and not self._works_on_lent_state(b):
                # a function of the reference tree: a helper only if it is private to its file
                if b.impl_trait:
                    continue
                mod = _module_of_vis(b.vis)
                if not mod:          # Public, pub(crate), or unknown
                    continue
                if any(c.file != b.file for c in cs):
                    continue
            # else: new relative to the reference tree -- a helper wherever it lives and whatever its visibility
            if len([x for x in b.blocks if not x.cleanup]) > MAX_BLOCKS:
                continue
            helpers[b.id] = b
            kids = [k for k in f.children(b.id) if f.body(k).coroutine and ", Fn)" in f.body(k).coroutine]
            if len(kids) == 1:
                self.async_of[b.id] = kids[0]
        # drop recursive helpers (any cycle through helper calls / their coroutines)
        graph = {}
        for hid in helpers:
            outs = set()
            for bid in [hid] + f.descendants(hid):
                for blk in f.body(bid).blocks:
                    t = blk.term
                    if t.k == "call" and t.callee is not None and t.callee.target in helpers:
                        outs.add(t.callee.target)
            graph[hid] = outs

        def reaches_self(h):
            seen, stack = set(), list(graph[h])
            while stack:
                x = stack.pop()
                if x == h:
                    return True
                if x in seen:
                    continue
                seen.add(x)
                stack.extend(graph.get(x, ()))
            return False

        self.helpers = {h: b for h, b in helpers.items() if not reaches_self(h)}
        self.graph = graph

    @staticmethod
    def _works_on_lent_state(b):
        """an associated / free function without a `self` receiver that mutates through `&mut` parameters: it has no state of its
        own, it is a piece of its caller's step (State::create_topic(topics: &mut HashMap<..>, next_id: &mut u32, ..))"""
        if b.arg_count < 1 or b.impl_trait:
            return False
        first = b.locals[1].get("n") if len(b.locals) > 1 else None
        if first == "self":
            return False
        muts = [i for i in range(1, b.arg_count + 1) if (b.local_ty(i) or "").startswith("&mut ")]
        if not muts:
            return False
        own = b.impl_self
        return all(own is None or (b.local_ty(i) or "") != "&mut " + own for i in muts)

    # ------------------------------------------------------------------ order: callees first
    def order(self):
        f = self.facts
        deps = {}
        for b in f.lib_bodies():
            outs = set()
            for blk in b.blocks:
                t = blk.term
                if t.k == "call" and t.callee is not None and t.callee.target in self.helpers:
                    h = t.callee.target
                    outs.add(h)
                    if h in self.async_of:
                        outs.add(self.async_of[h])
            deps[b.id] = outs
        done, out = set(), []

        def visit(x, stack):
            if x in done or x in stack:
                return
            stack.add(x)
            for y in sorted(deps.get(x, ())):
                visit(y, stack)
            stack.discard(x)
            done.add(x)
            out.append(x)

        for bid in sorted(deps):
            visit(bid, set())
        return out

    # ------------------------------------------------------------------ splicing
    def _append_body(self, gj, cj):
        """append a renamed copy of callee JSON cj to caller JSON gj; returns (local offset, block offset)"""
        off = len(gj["locals"])
        boff = len(gj["blocks"])
        gj.setdefault("ret_locals", []).append(off)      # the spliced callee's return place
        for r in cj.get("ret_locals", []):
            gj["ret_locals"].append(off + r)
        for l in cj["locals"]:
            nl = dict(l)
            nl.pop("user", None) if False else None
            gj["locals"].append(nl)
        for blk in cj["blocks"]:
            nb = copy.deepcopy(blk)
            for s in nb["stmts"]:
                _stmt(s, off)
            _term(nb["term"], off, boff)
            nb.setdefault("from", cj["id"])       # which function this block was written in (innermost splice wins)
            gj["blocks"].append(nb)
        return off, boff

    def splice_sync(self, gj, bb, cj):
        blk = gj["blocks"][bb]
        t = blk["term"]
        span = t.get("span")
        off, boff = self._append_body(gj, cj)
        # parameters
        stmts = []
        for i, a in enumerate(t.get("args", [])):
            if i + 1 <= cj["arg_count"]:
                stmts.append(_assign(off + i + 1, copy.deepcopy(a), span))
        entry = len(gj["blocks"])
        gj["blocks"].append({"stmts": stmts, "term": _goto(boff, span), "cleanup": False})
        # continuation: dest := _0'
        cont = len(gj["blocks"])
        dest = t.get("dest")
        cstmts = []
        if dest is not None:
            cstmts.append({"k": "assign", "lhs": copy.deepcopy(dest), "rv": {"k": "use", "op": {"m": {"l": off}}}, "span": span, "exp": None})
        tgt = t.get("target")
        gj["blocks"].append({"stmts": cstmts, "term": _goto(tgt, span) if tgt is not None else {"k": "unreachable", "span": span, "exp": None},
                             "cleanup": False})
        for k in range(boff, boff + len(cj["blocks"])):
            nt = gj["blocks"][k]["term"]
            if nt["k"] == "return" and not gj["blocks"][k]["cleanup"]:
                gj["blocks"][k]["term"] = _goto(cont, nt.get("span"))
        blk["term"] = _goto(entry, span)
        blk["term"]["inlined"] = cj["id"]
        if dest is not None and not dest.get("p"):
            self._thread_returns(gj, off, boff, boff + len(cj["blocks"]), cont, dest["l"])

    def splice_await(self, gj, info, a, cj):
        """a: AwaitSite in the caller whose awaited value is the coroutine aggregate of cj"""
        body = info.body
        ifb = None
        for (vb, p) in a.origin.via:
            if p == "std::future::IntoFuture::into_future":
                ifb = vb
        if ifb is None or a.poll_bb is None:
            return False
        poll_t = gj["blocks"][a.poll_bb]["term"]
        sw_bb = poll_t.get("target")
        if sw_bb is None or gj["blocks"][sw_bb]["term"]["k"] != "switch":
            return False
        arms = dict((int(v), b) for v, b in gj["blocks"][sw_bb]["term"]["arms"])
        ready = arms.get(0)
        pr = poll_t.get("dest")
        if ready is None or pr is None or pr.get("p"):
            return False
        it = gj["blocks"][ifb]["term"]
        span = it.get("span")
        arg = it["args"][0]
        off, boff = self._append_body(gj, cj)
        ctx = 2 if body.coroutine else None
        stmts = [_assign(off + 1, copy.deepcopy(arg), span)]
        if ctx is not None and cj["arg_count"] >= 2:
            stmts.append(_assign(off + 2, {"c": {"l": ctx}}, span))
        entry = len(gj["blocks"])
        gj["blocks"].append({"stmts": stmts, "term": _goto(boff, span), "cleanup": False})
        cont = len(gj["blocks"])
        agg = {"k": "agg", "ak": "adt", "adt": "std::task::Poll", "variant": "Ready", "vidx": 0, "is_enum": True,
               "fields": ["0"], "ops": [{"m": {"l": off}}]}
        gj["blocks"].append({"stmts": [{"k": "assign", "lhs": copy.deepcopy(pr), "rv": agg, "span": span, "exp": None}],
                             "term": _goto(ready, span), "cleanup": False})
        for k in range(boff, boff + len(cj["blocks"])):
            nt = gj["blocks"][k]["term"]
            if nt["k"] == "return" and not gj["blocks"][k]["cleanup"]:
                gj["blocks"][k]["term"] = _goto(cont, nt.get("span"))
        gj["blocks"][ifb]["term"] = _goto(entry, span)
        gj["blocks"][ifb]["term"]["inlined"] = cj["id"]
        self._thread_returns(gj, off, boff, boff + len(cj["blocks"]), cont, pr["l"])
        self._blank_unreachable(gj)
        return True

    # ------------------------------------------------------------------ known results keep their control flow
    @staticmethod
    def _normal_refs(t):
        out = []
        for k in ("target", "resume", "otherwise"):
            if t.get(k) is not None:
                out.append(t[k])
        for _, b in t.get("arms", []):
            out.append(b)
        return out

    @staticmethod
    def _assigned_state(blk, local):
        """what the block leaves in `local`: ("v", adt, vidx) | ("b", bool) | "U" (something else) | None (untouched)"""
        st = None
        for s in blk["stmts"]:
            if s["k"] == "assign" and s["lhs"]["l"] == local:
                if s["lhs"].get("p"):
                    st = "U"
                    continue
                rv = s["rv"]
                if rv["k"] == "agg" and rv.get("ak") == "adt" and rv.get("is_enum") and "vidx" in rv:
                    st = ("v", rv.get("adt"), rv["vidx"])
                elif rv["k"] == "use" and isinstance(rv["op"], dict) and "k" in rv["op"] and "bool" in rv["op"]["k"]:
                    st = ("b", bool(rv["op"]["k"]["bool"]))
                else:
                    st = "U"
        t = blk["term"]
        if t["k"] == "call" and t.get("dest") is not None and t["dest"]["l"] == local:
            st = "U"
            # `x?` on its failure arm: from_residual(None) is None, from_residual(Err(e)) is Err(e.into())
            c = t.get("callee") or {}
            if c.get("path") == "std::ops::FromResidual::from_residual" and c.get("args") and not t["dest"].get("p"):
                selfty = c["args"][0]
                if selfty.startswith("std::option::Option<"):
                    st = ("v", "std::option::Option", 0)
                elif selfty.startswith("std::result::Result<"):
                    st = ("v", "std::result::Result", 1)
        return st

    def _clone_blocks(self, gj, ids, redirect):
        """clone blocks `ids` (edges among them are kept inside the clone); `redirect`: {old target: new target} applied to
        the clones' other edges.  returns {old: new}"""
        m = {}
        for k in ids:
            m[k] = len(gj["blocks"])
            gj["blocks"].append(copy.deepcopy(gj["blocks"][k]))
        for k in ids:
            t = gj["blocks"][m[k]]["term"]
            for key in BLOCK_REFS:
                v = t.get(key)
                if v is not None:
                    t[key] = m.get(v, redirect.get(v, v)) if key not in ("unwind", "drop", "imaginary") else v
            if "arms" in t:
                t["arms"] = [[v, m.get(b, redirect.get(b, b))] for v, b in t["arms"]]
        return m

    def _caller_chain(self, gj, start, holder, strict=False):
        """from block `start`, the straight-line blocks up to the switch that decides on the value in `holder`.
        returns (chain block ids, decide(state) -> successor or None) or None"""
        holders, negs, flows = {holder}, set(), set()
        chain = []
        cur = start
        for _ in range(10):
            if cur is None or cur in chain:
                return None
            blk = gj["blocks"][cur]
            if blk["cleanup"]:
                return None
            chain.append(cur)
            discr_of = {}
            for s in blk["stmts"]:
                if s["k"] == "assign" and strict and (s["lhs"]["l"] in holders or s["lhs"]["l"] in negs or s["lhs"]["l"] in flows):
                    return None         # the value decided on is overwritten on the way
                if s["k"] != "assign" or s["lhs"].get("p"):
                    continue
                rv, l = s["rv"], s["lhs"]["l"]
                if rv["k"] == "use" and isinstance(rv["op"], dict):
                    pl = rv["op"].get("m") or rv["op"].get("c")
                    if pl is not None:
                        proj = [p for p in pl.get("p", []) if p != "deref"]
                        ready_field = len(proj) == 2 and isinstance(proj[0], dict) and proj[0].get("dc") == "Ready" and isinstance(proj[1], dict) and "f" in proj[1]
                        if pl["l"] in holders and (not proj or ready_field):
                            holders.add(l)
                        elif pl["l"] in negs and not proj:
                            negs.add(l)
                        elif pl["l"] in flows and not proj:
                            flows.add(l)
                elif rv["k"] == "un" and rv.get("op") == "Not" and isinstance(rv["a"], dict):
                    pl = rv["a"].get("m") or rv["a"].get("c")
                    if pl is not None and not pl.get("p"):
                        if pl["l"] in holders:
                            negs.add(l)
                        elif pl["l"] in negs:
                            holders.add(l)
                elif rv["k"] == "discr" and not [p for p in rv["pl"].get("p", []) if p != "deref"]:
                    discr_of[l] = rv["pl"]["l"]
            t = blk["term"]
            if t["k"] == "switch":
                d = t["discr"].get("m") or t["discr"].get("c")
                if d is None or d.get("p"):
                    return None
                arms = dict((int(v), b) for v, b in t["arms"])
                dl = d["l"]
                src = discr_of.get(dl)

                def decide(state, arms=arms, t=t, dl=dl, src=src):
                    if state[0] == "b":
                        val = state[1]
                        if dl in negs:
                            val = not val
                        elif dl not in holders:
                            return None
                        return t["otherwise"] if val else arms.get(0)
                    if state[0] == "v":
                        if src in holders:
                            return arms.get(state[2], t["otherwise"])
                        if src in flows:
                            adt, vi = state[1], state[2]
                            if adt == "std::result::Result":
                                cf = 0 if vi == 0 else 1
                            elif adt == "std::option::Option":
                                cf = 0 if vi == 1 else 1
                            else:
                                return None
                            return arms.get(cf, t["otherwise"])
                    return None
                if dl in holders or dl in negs or src in holders or src in flows:
                    return chain, decide
                return None
            if t["k"] == "call":
                c = t.get("callee") or {}
                if c.get("path") == "std::ops::Try::branch" and t.get("args") and t.get("dest") and not t["dest"].get("p"):
                    a = t["args"][0].get("m") or t["args"][0].get("c")
                    if a is not None and not a.get("p") and a["l"] in holders:
                        flows.add(t["dest"]["l"])
                        cur = t.get("target")
                        continue
                return None
            if t["k"] in ("goto", "falseedge", "falseunwind", "drop"):
                cur = t.get("target")
                continue
            return None
        return None

    def _thread_returns(self, gj, ret_local, lo, hi, cont, holder):
        """When the spliced body ends a path with a known result (`Ok(..)`, `Err(..)`, `Some`, `None`, `true`, `false`) and the
        caller immediately decides on that result (`?`, `match`, `if`), route that path to the arm it takes -- otherwise the
        merged continuation would make the early `return Err(..)` of a validation helper look as if it could fall through."""
        blocks = gj["blocks"]
        ch = self._caller_chain(gj, blocks[cont]["term"].get("target"), holder)
        if ch is None:
            return
        chain, decide = ch
        assigners = []
        for k in range(lo, hi):
            if blocks[k]["cleanup"]:
                continue
            st = self._assigned_state(blocks[k], ret_local)
            if st is not None and st != "U":
                assigners.append((k, st))
        conts = {}
        for a, st in assigners:
            nxt = decide(st)
            if nxt is None:
                continue
            # region between the assignment and the (former) return
            region, stack, ok = [], [x for x in self._normal_refs(blocks[a]["term"])], True
            seen = set()
            while stack and ok:
                x = stack.pop()
                if x in seen or x == cont:
                    continue
                seen.add(x)
                if not (lo <= x < hi) or x == a or len(seen) > 16 or self._assigned_state(blocks[x], ret_local) is not None:
                    ok = False
                    break
                region.append(x)
                stack.extend(self._normal_refs(blocks[x]["term"]))
            if not ok:
                continue
            key = repr(st)
            if key not in conts:
                # continuation for this state: cont's statements, the caller's chain, then straight to the arm taken
                cm = self._clone_blocks(gj, chain, {})
                last = cm[chain[-1]]
                sp = blocks[last]["term"].get("span")
                blocks[last]["term"] = _goto(nxt, sp)
                c2 = len(blocks)
                blocks.append(copy.deepcopy(blocks[cont]))
                blocks[c2]["term"] = _goto(cm[chain[0]], blocks[cont]["term"].get("span"))
                conts[key] = c2
            rm = self._clone_blocks(gj, region, {cont: conts[key]})
            t = blocks[a]["term"]
            for kk in ("target", "resume", "otherwise"):
                if t.get(kk) is not None:
                    t[kk] = rm.get(t[kk], conts[key] if t[kk] == cont else t[kk])
            if "arms" in t:
                t["arms"] = [[v, rm.get(b, conts[key] if b == cont else b)] for v, b in t["arms"]]

    def thread_known_values(self, gj, types, budget=40):
        """Jump threading: a block that leaves a known `true` / `false` / enum variant in a local and runs straight into a
        join followed by the switch on that local (`matches!(change, X)`, `a && b`, `let ok = if .. {true} else {false}; if ok`,
        a decision value handed from one spliced helper to the next) is routed to the arm it takes, on a private copy of the
        straight-line blocks in between.  Purely a CFG refinement: no path is added, paths that cannot be taken disappear."""
        blocks = gj["blocks"]
        done = 0
        tried = set()
        headers = None
        while done < budget:
            preds = {}
            for i, blk in enumerate(blocks):
                if blk["cleanup"]:
                    continue
                for x in self._normal_refs(blk["term"]):
                    preds.setdefault(x, set()).add(i)
            reach = set()
            stack = [0]
            while stack:
                x = stack.pop()
                if x in reach or x is None or x >= len(blocks):
                    continue
                reach.add(x)
                stack.extend(self._normal_refs(blocks[x]["term"]))
            hit = None
            for a in sorted(reach):
                blk = blocks[a]
                t = blk["term"]
                if blk["cleanup"] or t["k"] not in ("goto", "falseedge", "drop") or t.get("target") is None:
                    continue
                m = t["target"]
                if m == a:
                    continue
                cands = []
                for st_ in blk["stmts"]:
                    if st_["k"] == "assign" and not st_["lhs"].get("p") and st_["lhs"]["l"] not in cands:
                        cands.append(st_["lhs"]["l"])
                for l in cands:
                    if (a, l) in tried:
                        continue
                    if t["k"] == "drop" and t.get("pl", {}).get("l") == l:
                        continue
                    st = self._assigned_state(blk, l)
                    if st is None or st == "U":
                        continue
                    tried.add((a, l))
                    ch = self._caller_chain(gj, m, l, strict=True)
                    if ch is None:
                        continue
                    chain, decide = ch
                    nxt = decide(st)
                    if nxt is None or a in chain:
                        continue
                    if headers is None:
                        # loop headers are never copied: a second way into a loop body would dissolve the loop
                        from mir import Body
                        from cfg import CFG
                        headers = set(CFG(Body(gj, "lib", types)).loops())
                    if headers & set(chain):
                        continue
                    hit = (a, chain, nxt)
                    break
                if hit:
                    break
            if hit is None:
                break
            a, chain, nxt = hit
            cm = self._clone_blocks(gj, chain, {})
            last = cm[chain[-1]]
            blocks[last]["term"] = _goto(nxt, blocks[last]["term"].get("span"))
            blocks[a]["term"]["target"] = cm[chain[0]]
            done += 1
        return done > 0

    @staticmethod
    def _blank_unreachable(gj):
        n = len(gj["blocks"])
        seen = set()
        stack = [0]
        while stack:
            x = stack.pop()
            if x in seen or x is None or x >= n:
                continue
            seen.add(x)
            t = gj["blocks"][x]["term"]
            for k in BLOCK_REFS:
                if t.get(k) is not None and k != "imaginary":
                    stack.append(t[k])
            for _, b in t.get("arms", []):
                stack.append(b)
        for i, blk in enumerate(gj["blocks"]):
            if i not in seen:
                blk["stmts"] = []
                blk["term"] = {"k": "unreachable", "span": blk["term"].get("span"), "exp": None}

    # ------------------------------------------------------------------ one body
    def process(self, bid):
        from mir import Body
        from flow import BodyInfo
        f = self.facts
        b = f.body(bid)
        if b is None or b.crate != "lib":
            return
        gj = b.j
        changed = False
        skip = set()
        for _ in range(MAX_ROUNDS):
            site = None
            for i, blk in enumerate(gj["blocks"]):
                t = blk["term"]
                if blk["cleanup"] or t["k"] != "call" or "callee" not in t or i in skip:
                    continue
                c = t["callee"]
                tgt = c.get("res") or c.get("path")
                if not (c.get("local") or c.get("res_local")) or tgt not in self.helpers or tgt == bid:
                    continue
                site = (i, tgt)
                break
            if site is None:
                break
            i, h = site
            hj = f.body(h).j
            if h in self.async_of:
                tmp = Body(gj, "lib", b.types)
                info = BodyInfo(tmp, f)
                aw = [a for a in info.awaits if a.origin is not None and a.origin.kind == "call" and a.origin.data == i and a.select is None]
                uses = [u for u in info.uses_of_local(gj["blocks"][i]["term"]["dest"]["l"])] if "dest" in gj["blocks"][i]["term"] and not gj["blocks"][i]["term"]["dest"].get("p") else None
                if len(aw) != 1 or uses is None or len([u for u in uses if u[1] != -2]) != 1:
                    skip.add(i)
                    self.kept.add(h)
                    continue
                self.splice_sync(gj, i, hj)
                tmp = Body(gj, "lib", b.types)
                info = BodyInfo(tmp, f)
                cid = self.async_of[h]
                cand = [a for a in info.awaits if a.origin is not None and a.origin.kind == "agg"
                        and info.agg_at(a.origin.data).j.get("ak") == "coroutine" and info.agg_at(a.origin.data).j.get("def") == cid
                        and not a.origin.path]
                ok = False
                if len(cand) >= 1:
                    ok = self.splice_await(gj, info, cand[0], f.body(cid).j)
                if not ok:
                    raise RuntimeError("norm: could not splice awaited helper %s into %s" % (h, bid))
                self.log.append((h, bid, "await"))
            else:
                self.splice_sync(gj, i, hj)
                self.log.append((h, bid, "call"))
            changed = True
        if self.devirtualise_fn_items(b, gj):
            changed = True
        if self.devirtualise_fn_pointers(b, gj):
            changed = True
        if self.splice_closure_calls(b, gj):
            changed = True
        if self.thread_known_values(gj, b.types):
            self._blank_unreachable(gj)
            changed = True
        if prune_known_variants(gj, f.adts):
            self._blank_unreachable(gj)
            changed = True
        if changed:
            b._blocks = None
            b.locals = gj["locals"]

    def devirtualise_fn_items(self, b, gj):
        """`f(x)` where f is a function item handed in as a value (`helper(raw, TopicName::try_parse)` after the helper was
        spliced): the call through FnOnce/Fn becomes a direct call of that function"""
        from mir import Body
        from flow import BodyInfo
        f = self.facts
        tmp = Body(gj, "lib", b.types)
        tmp.id = b.id
        info = BodyInfo(tmp, f)
        did = False
        for blk in tmp.blocks:
            t = blk.term
            if blk.cleanup or t.k != "call" or t.callee is None or t.callee.path not in self.CLOSURE_CALLS or len(t.args) != 2:
                continue
            o = info.trace(t.args[0])
            if o.kind != "const" or o.path or not isinstance(o.data, str) or f.body(o.data) is None:
                continue
            fb = f.body(o.data)
            if fb.kind not in ("Fn", "AssocFn"):
                continue
            ta = info.trace(t.args[1])
            if ta.kind != "agg" or ta.path or info.agg_at(ta.data).j.get("ak") != "tuple":
                continue
            ops = info.agg_at(ta.data).j["ops"]
            if len(ops) != fb.arg_count:
                continue
            tj = gj["blocks"][blk.idx]["term"]
            tj["callee"] = {"path": o.data, "local": True, "args": [], "res": o.data, "res_local": True, "res_kind": "Item", "res_args": [],
                            "impl_self": fb.impl_self}
            tj["args"] = copy.deepcopy(ops)
            tj["devirtualised"] = True
            did = True
        return did

    def devirtualise_fn_pointers(self, b, gj):
        """`op(&self.counter, delta, order)` where `op` is a function pointer that this body (after splicing) set to a known
        function (`AtomicU64::fetch_add as fn(..)`): the indirect call becomes a direct call of that function"""
        from mir import Body
        from flow import BodyInfo
        tmp = Body(gj, "lib", b.types)
        tmp.id = b.id
        info = BodyInfo(tmp, self.facts)
        did = False
        for blk in tmp.blocks:
            t = blk.term
            if blk.cleanup or t.k != "call" or t.callee is not None or t.fn_op is None or t.fn_op.place is None:
                continue
            o = info.trace(t.fn_op)
            path = None
            for _ in range(4):
                if o.kind == "cast" and not o.path and isinstance(o.data, tuple):
                    st = info.stmt(*o.data)
                    src = st.rv.ops[0]
                    if src.const is not None and "fn" in src.const:
                        path = src.const["fn"]
                        break
                    if src.place is None:
                        break
                    o = info.trace(src)
                elif o.kind == "const" and isinstance(o.data, str):
                    path = o.data
                    break
                else:
                    break
            if not path:
                continue
            tj = gj["blocks"][blk.idx]["term"]
            fb = self.facts.body(path)
            tj["callee"] = {"path": path, "local": fb is not None, "args": [], "res": path if fb is not None else None, "res_local": fb is not None,
                            "res_kind": "Item", "res_args": [], "impl_self": fb.impl_self if fb is not None else None}
            tj.pop("fn_op", None)
            tj["devirtualised"] = True
            did = True
        return did

    # ------------------------------------------------------------------ calls of closures built in the same body
    CLOSURE_CALLS = ("std::ops::FnOnce::call_once", "std::ops::FnMut::call_mut", "std::ops::Fn::call")

    def splice_closure_calls(self, b, gj):
        """`f(args)` where f is a closure constructed in this very body (typically after a closure-taking helper such as
        `with_state(&lock, |s| ..)` was spliced in): the closure body is spliced at the call.  When the closure value has no
        other use, the closure disappears as a unit of its own."""
        from mir import Body
        from flow import BodyInfo
        f = self.facts
        did = False
        skip = set()
        for _ in range(40):
            tmp = Body(gj, "lib", b.types)
            tmp.id = b.id
            info = BodyInfo(tmp, f)
            site = None
            for blk in tmp.blocks:
                t = blk.term
                if blk.cleanup or blk.idx in skip or t.k != "call" or t.callee is None or t.callee.path not in self.CLOSURE_CALLS or len(t.args) != 2:
                    continue
                o = info.trace(t.args[0])
                if o.kind != "agg" or o.path:
                    continue
                rv = info.agg_at(o.data)
                if rv.j.get("ak") != "closure":
                    continue
                kid = rv.j["def"]
                kb = f.body(kid)
                if kb is None or kb.coroutine or kid == b.id or len([x for x in kb.blocks if not x.cleanup]) > MAX_BLOCKS:
                    continue
                # the argument tuple must be built here: (a, b, ..)
                ta = info.trace(t.args[1])
                if ta.kind != "agg" or ta.path or info.agg_at(ta.data).j.get("ak") != "tuple":
                    if kb.arg_count > 1:
                        skip.add(blk.idx)
                        continue
                site = (blk.idx, kid, o.data)
                break
            if site is None:
                break
            bb, kid, agg_at = site
            kj = f.body(kid).j
            t = gj["blocks"][bb]["term"]
            span = t.get("span")
            off, boff = self._append_body(gj, kj)
            stmts = [_assign(off + 1, copy.deepcopy(t["args"][0]), span)]
            tup = t["args"][1]
            tpl = tup.get("m") or tup.get("c")
            for k in range(2, kj["arg_count"] + 1):
                if tpl is None:
                    break
                pl = {"l": tpl["l"], "p": list(tpl.get("p", [])) + [{"f": k - 2, "n": str(k - 2), "o": "tuple"}]}
                stmts.append(_assign(off + k, {"m": pl}, span))
            entry = len(gj["blocks"])
            gj["blocks"].append({"stmts": stmts, "term": _goto(boff, span), "cleanup": False})
            cont = len(gj["blocks"])
            dest = t.get("dest")
            cstmts = []
            if dest is not None:
                cstmts.append({"k": "assign", "lhs": copy.deepcopy(dest), "rv": {"k": "use", "op": {"m": {"l": off}}}, "span": span, "exp": None})
            tgt = t.get("target")
            gj["blocks"].append({"stmts": cstmts, "term": _goto(tgt, span) if tgt is not None else {"k": "unreachable", "span": span, "exp": None},
                                 "cleanup": False})
            for k in range(boff, boff + len(kj["blocks"])):
                nt = gj["blocks"][k]["term"]
                if nt["k"] == "return" and not gj["blocks"][k]["cleanup"]:
                    gj["blocks"][k]["term"] = _goto(cont, nt.get("span"))
            gj["blocks"][bb]["term"] = _goto(entry, span)
            gj["blocks"][bb]["term"]["inlined"] = kid
            if dest is not None and not dest.get("p"):
                self._thread_returns(gj, off, boff, boff + len(kj["blocks"]), cont, dest["l"])
            self.log.append((kid, b.id, "closure-call"))
            self.closure_sites.setdefault(kid, []).append(b.id)
            did = True
        return did

    # ------------------------------------------------------------------ driver
    def run(self):
        f = self.facts
        self.find_helpers()
        for bid in self.order():
            self.process(bid)
        # helpers all of whose call sites are gone disappear as units
        still_called = set()
        for b in f.lib_bodies():
            for blk in b.blocks:
                t = blk.term
                if t.k == "call" and t.callee is not None and t.callee.target in self.helpers:
                    still_called.add(t.callee.target)
        removed = {}
        sites = {}
        for h, g, k in self.log:
            sites.setdefault(h, []).append(g)
        # a helper inlined into a helper that itself vanished: attribute to the surviving callers
        for h in self.helpers:
            if h in still_called or h not in sites:
                continue
            removed[h] = sites[h]
        gone = set(removed)
        for h in list(removed):
            if h in self.async_of:
                gone.add(self.async_of[h])

        def surviving(g, depth=0):
            """a body that still exists and contains the inlined copy"""
            if depth > 8:
                return g
            root = f.body(g).root or g if f.body(g) is not None else g
            for x in (g, root):
                if x in removed:
                    return surviving(removed[x][0], depth + 1)
                for w, c in self.async_of.items():
                    if c == x and w in removed:
                        return surviving(removed[w][0], depth + 1)
            return g

        # re-parent closures defined inside vanished helpers
        for h in removed:
            new_parent = surviving(removed[h][0])
            npb = f.body(new_parent)
            new_root = (npb.root or npb.id) if npb is not None else new_parent
            hosts = {h}
            if h in self.async_of:
                hosts.add(self.async_of[h])
            for b in f.lib_bodies():
                if b.id in gone:
                    continue
                if b.parent in hosts:
                    b.parent = new_parent
                    b.j["parent"] = new_parent
                if b.root in hosts:
                    b.root = new_root
                    b.j["root"] = new_root
        # closures whose every use was a spliced call: no construction of them is used by anything else
        for kid, hosts in self.closure_sites.items():
            if kid in gone or f.body(kid) is None:
                continue
            if self._closure_only_called(kid):
                gone.add(kid)
                host = hosts[0]
                hb = f.body(host)
                new_root = (hb.root or hb.id) if hb is not None else host
                for b in f.lib_bodies():
                    if b.id in gone:
                        continue
                    if b.parent == kid:
                        b.parent = host
                        b.j["parent"] = host
        f.inlined = {}
        for h in gone:
            if h in f.bodies:
                f.inlined[h] = f.bodies.pop(h)
        f._children = None
        f.norm_log = self.log
        f.norm_removed = removed
        return self


def prune_known_variants(gj, adts):
    """Conditional propagation of `which variant` for locals that hold an enum built on the way (`let change = decide(..)`
    spliced into its caller, then `match change` -- directly or inside another spliced helper): arms of a switch on the
    discriminant that no path can take are cut.  Sound: a local is only tracked while every assignment to it is an enum
    aggregate or a whole move/copy of a tracked local, it is never borrowed mutably, and only data-carrying enums of the
    crate and Option/Result are considered (their discriminants are the variant indices).  Returns True when an edge was cut."""
    blocks = gj["blocks"]
    n = len(blocks)

    def ok_adt(path):
        if path in ("std::option::Option", "std::result::Result"):
            return True
        a = adts.get(path)
        return a is not None and a.get("kind") == "Enum" and any(v.get("fields") for v in a["variants"])

    bad = set()
    ref_of = {}
    nassign = {}
    for blk in blocks:
        for s in blk["stmts"]:
            if s["k"] != "assign":
                continue
            rv = s["rv"]
            if rv["k"] in ("ref", "rawptr"):
                if rv["k"] == "rawptr" or rv.get("bk") == "mut":
                    bad.add(rv["pl"]["l"])
                elif not s["lhs"].get("p") and not rv["pl"].get("p"):
                    ref_of.setdefault(s["lhs"]["l"], []).append(rv["pl"]["l"])
            if not s["lhs"].get("p"):
                nassign[s["lhs"]["l"]] = nassign.get(s["lhs"]["l"], 0) + 1
    ref_of = {r: xs[0] for r, xs in ref_of.items() if len(xs) == 1 and nassign.get(r) == 1}

    def succs(i):
        t = blocks[i]["term"]
        out = []
        for k in ("target", "resume", "otherwise", "drop"):
            if t.get(k) is not None:
                out.append(t[k])
        for _, b in t.get("arms", []):
            out.append(b)
        return out

    def transfer(i, st):
        st = dict(st)
        blk = blocks[i]
        discr_of = {}
        for s in blk["stmts"]:
            if s["k"] == "setdiscr":
                st.pop(s["lhs"]["l"], None)
                continue
            if s["k"] != "assign":
                continue
            l = s["lhs"]["l"]
            rv = s["rv"]
            if s["lhs"].get("p"):
                st.pop(l, None)
                continue
            if rv["k"] == "agg" and rv.get("ak") == "adt" and rv.get("is_enum") and "vidx" in rv and ok_adt(rv.get("adt")) and l not in bad:
                st[l] = frozenset([rv["vidx"]])
            elif rv["k"] == "use" and isinstance(rv["op"], dict) and (rv["op"].get("m") or rv["op"].get("c")) is not None:
                pl = rv["op"].get("m") or rv["op"].get("c")
                if not pl.get("p") and pl["l"] in st and l not in bad:
                    st[l] = st[pl["l"]]
                else:
                    st.pop(l, None)
            else:
                st.pop(l, None)
                if rv["k"] == "discr":
                    proj = rv["pl"].get("p", [])
                    if not proj:
                        discr_of[l] = rv["pl"]["l"]
                    elif proj == ["deref"] and rv["pl"]["l"] in ref_of:
                        discr_of[l] = ref_of[rv["pl"]["l"]]
        t = blk["term"]
        edges = {}
        base = st
        if t["k"] in ("call", "yield") and t.get("dest") is not None:
            base = dict(st)
            base.pop(t["dest"]["l"], None)
        if t["k"] == "yield" and t.get("resume_arg") is not None and isinstance(t["resume_arg"], dict):
            base = dict(base)
            base.pop(t["resume_arg"].get("l"), None)
        cut = []
        if t["k"] == "switch":
            d = t["discr"].get("m") or t["discr"].get("c")
            x = discr_of.get(d["l"]) if d is not None and not d.get("p") else None
            if x is not None and x in st:
                S = st[x]
                armvals = set(int(v) for v, _ in t["arms"])
                for v, b in t["arms"]:
                    if int(v) in S:
                        e = dict(base)
                        e[x] = frozenset([int(v)])
                        edges.setdefault(b, []).append(e)
                    else:
                        cut.append(("arm", int(v)))
                rest = S - armvals
                if rest:
                    e = dict(base)
                    e[x] = frozenset(rest)
                    edges.setdefault(t["otherwise"], []).append(e)
                elif t.get("otherwise") is not None:
                    cut.append(("otherwise", None))
                return edges, cut
        for b in succs(i):
            edges.setdefault(b, []).append(base)
        return edges, cut

    def join(a, b):
        if a is None:
            return b
        out = {}
        for k in a:
            if k in b:
                out[k] = a[k] | b[k]
        return out

    entry = {0: {}}
    work = [0]
    cuts = {}
    steps = 0
    while work and steps < 20000:
        steps += 1
        i = work.pop()
        if i is None or i >= n or blocks[i]["cleanup"]:
            continue
        edges, cut = transfer(i, entry[i])
        cuts[i] = cut
        for b, sts in edges.items():
            if b is None or b >= n:
                continue
            new = entry.get(b)
            for e in sts:
                new = join(new, e)
            if b not in entry or new != entry[b]:
                entry[b] = new
                work.append(b)
    if steps >= 20000:
        return False
    changed = False
    dead = None
    for i, cut in cuts.items():
        if not cut:
            continue
        t = blocks[i]["term"]
        gone = {v for k, v in cut if k == "arm"}
        if gone:
            t["arms"] = [[v, b] for v, b in t["arms"] if int(v) not in gone]
            changed = True
        if any(k == "otherwise" for k, _ in cut):
            if dead is None:
                dead = len(blocks)
                blocks.append({"cleanup": False, "stmts": [], "term": {"k": "unreachable", "span": t.get("span"), "exp": None}})
            t["otherwise"] = dead
            changed = True
    return changed



def _closure_only_called(self, kid):
    """every aggregate that builds closure `kid` is, in its body, used by nothing any more: the calls were spliced"""
    from flow import BodyInfo
    f = self.facts
    found = False
    for b in f.lib_bodies():
        bi = None
        for blk in b.blocks:
            for i, st in enumerate(blk.stmts):
                if st.k == "assign" and st.rv.k == "agg" and st.rv.j.get("ak") == "closure" and st.rv.j.get("def") == kid:
                    found = True
                    if blk.cleanup or not st.lhs.is_local():
                        return False
                    bi = bi or BodyInfo(b, f)
                    # follow moves; the only permitted sink is the parameter assignment of a spliced copy (a `use` into a local
                    # that is then only projected / dropped)
                    frontier, seen = [st.lhs.local], set()
                    while frontier:
                        l = frontier.pop()
                        if l in seen:
                            continue
                        seen.add(l)
                        for (ub, ui) in bi.uses_of_local(l):
                            if ui == -2:
                                continue
                            if ui == -1:
                                t = b.blocks[ub].term
                                if t.k in ("switch",):
                                    continue
                                return False        # still handed to a call
                            s2 = bi.stmt(ub, ui)
                            if s2.k == "assign" and s2.lhs.is_local() and s2.rv.k in ("use", "ref") and \
                                    ((s2.rv.ops and s2.rv.ops[0].place is not None and s2.rv.ops[0].place.local == l and s2.rv.ops[0].place.is_local())
                                     or (s2.rv.place is not None and s2.rv.place.local == l and s2.rv.place.is_local())):
                                frontier.append(s2.lhs.local)
                            # projections of the environment (captured variables) are reads, fine
    return found


Normaliser._closure_only_called = _closure_only_called


def spine_of(prog, a):
    """bodies between an actor's spawned task and its dispatcher: the loop body, async blocks / `serve` methods polled by its
    select, the dispatcher itself"""
    out = set()
    if a.loop is None or a.dispatch is None:
        return out
    for bid in prog.cone(a.loop, follow=("call", "closure", "poll")):
        if bid == a.dispatch or a.dispatch in set(prog.cone(bid, follow=("call", "closure", "poll"))):
            out.add(bid)
    return out


def boundaries_of(facts):
    """unit boundaries: the actors' start body and spine (loop .. dispatcher) and what those call directly"""
    from model import Program
    prog = Program(facts)
    out = set()
    for a in prog.actors:
        for bid in {a.start} | spine_of(prog, a):
            if bid is None:
                continue
            out.add(bid)
            b = facts.body(bid)
            if b is not None and b.root:
                out.add(b.root)
            for blk in (b.blocks if b is not None else []):
                t = blk.term
                if t.k == "call" and t.callee is not None and (t.callee.local or t.callee.res_local):
                    # the actor's own operations (they take the actor state); a utility the dispatcher calls
                    # (`reply(responder, result)`) is not one
                    tys = [b.operand_ty(a) or "" for a in t.args]
                    if a.ty is None or any(ty in ("&mut " + a.ty, "&" + a.ty, a.ty) for ty in tys) or bid == a.start:
                        out.add(t.callee.target)
    # async wrappers: the boundary covers the wrapper fn and its coroutine alike
    more = set()
    for x in out:
        b = facts.body(x)
        if b is not None and b.root:
            more.add(b.root)
    return out | more


def normalise(facts):
    if os.environ.get("VERIF_NO_NORM"):
        facts.inlined = {}
        facts.norm_log = []
        facts.norm_removed = {}
        return facts
    n = Normaliser(facts, boundaries_of(facts))
    n.run()
    return facts
