"""Named anchors (DESIGN §2.4): the types and fields that carry a role and cannot be told apart by
structure alone.  Everything else (functions, handlers, actors) is discovered by effect.
A missing anchor raises CheckBroken: the checker needs maintenance, it never reports a violation."""
from engine import CheckBroken

TYPES = {
    "SubscriptionActor": "crate::subscriptions::subscription_actor::SubscriptionActor",
    "SubscriptionRequest": "crate::subscriptions::subscription_actor::SubscriptionRequest",
    "SubscriptionObserver": "crate::subscriptions::subscription_actor::SubscriptionObserver",
    "OutstandingMessageTracker": "crate::subscriptions::outstanding::OutstandingMessageTracker",
    "Messages": "crate::collections::messages::Messages",
    "PulledMessage": "crate::subscriptions::pulled_message::PulledMessage",
    "AckDeadline": "crate::subscriptions::pulled_message::AckDeadline",
    "AckId": "crate::subscriptions::ack_id::AckId",
    "DeadlineModification": "crate::subscriptions::deadline_modification::DeadlineModification",
    "Subscription": "crate::subscriptions::subscription::Subscription",
    "SubscriptionInfo": "crate::subscriptions::subscription::SubscriptionInfo",
    "PushConfig": "crate::subscriptions::subscription::PushConfig",
    "SubscriptionName": "crate::subscriptions::subscription_name::SubscriptionName",
    "SubscriptionManager": "crate::subscriptions::subscription_manager::SubscriptionManager",
    "SubState": "crate::subscriptions::subscription_manager::State",
    "FlowControl": "crate::subscriptions::flow_control::FlowControl",
    "TopicActor": "crate::topics::topic_actor::TopicActor",
    "TopicRequest": "crate::topics::topic_actor::TopicRequest",
    "Topic": "crate::topics::topic::Topic",
    "TopicMessage": "crate::topics::topic_message::TopicMessage",
    "MessageId": "crate::topics::topic_message::MessageId",
    "TopicName": "crate::topics::topic_name::TopicName",
    "TopicManager": "crate::topics::topic_manager::TopicManager",
    "TopicState": "crate::topics::topic_manager::State",
    "PushRegistry": "crate::push::PushSubscriptionsRegistry",
    "PushRegistryState": "crate::push::PushSubscriptionsRegistryState",
    "PushPayload": "crate::push::push_loop::PushPayload",
    "PushPayloadMessage": "crate::push::push_loop::PushPayloadMessage",
    "Paging": "crate::paging::Paging",
    "PageToken": "crate::api::page_token::PageToken",
    "Deleted": "crate::subscriptions::futures::Deleted",
    "MessagesAvailable": "crate::subscriptions::futures::MessagesAvailable",
    "PubsubMessage": "crate::pubsub_proto::PubsubMessage",
    "ReceivedMessage": "crate::pubsub_proto::ReceivedMessage",
}

FIELDS = {
    "SubscriptionActor": ["backlog", "outstanding", "next_ack_id", "deleted", "info", "topic", "observer",
                          "push_registry", "delegate"],
    "OutstandingMessageTracker": ["messages", "expirations", "notify"],
    "Messages": ["list"],
    "PulledMessage": ["message", "ack_id", "deadline"],
    "TopicActor": ["subscriptions", "next_message_id", "topic_internal_id", "messages", "deleted"],
    "SubState": ["subscriptions", "next_id"],
    "TopicState": ["topics", "next_id"],
    "TopicMessage": ["id", "published_at", "data", "attributes"],
    "SubscriptionObserver": ["notify_messages_available", "deleted_send", "deleted_recv"],
    "FlowControl": ["max_outstanding_bytes", "max_outstanding_messages", "outstanding_bytes",
                    "outstanding_messages", "notifier"],
    "PushRegistryState": ["push_subscriptions"],
    "Subscription": ["name", "topic", "internal_id", "sender", "observer"],
    "Topic": ["name", "internal_id", "sender"],
    "SubscriptionInfo": ["name", "ack_deadline", "push_config"],
    "Paging": ["size", "offset"],
    "MessageId": ["value"],
    "AckId": ["value"],
    "AckDeadline": ["time"],
}


class Anchors:
    def __init__(self, facts):
        self.facts = facts
        self.checked = set()

    def ty(self, key):
        path = TYPES.get(key)
        if path is None:
            raise CheckBroken("unknown anchor type key %s" % key)
        if key not in self.checked:
            adt = self.facts.adt(path)
            if adt is None and not path.startswith("crate::pubsub_proto"):
                raise CheckBroken("anchor type %s (%s) not found in the crate" % (key, path))
            self.checked.add(key)
        return path

    def has_field(self, key, field):
        adt = self.facts.adt(self.ty(key))
        return adt is not None and any(f["name"] == field for v in adt["variants"] for f in v["fields"])

    def cell(self, key, field, optional=False):
        """(ADT path, field).  Only the requested field is verified, so that removing one field does not disable
        rules that never look at it.  optional=True returns None instead of raising when the field is gone."""
        path = self.ty(key)
        if field not in FIELDS.get(key, []):
            raise CheckBroken("field %s.%s is not an anchored field" % (key, field))
        if not self.has_field(key, field):
            if optional:
                return None
            raise CheckBroken("anchor field %s.%s not found" % (key, field))
        return (path, field)

    def field_ty(self, key, field):
        f = self.facts.adt_field(self.ty(key), field)
        if f is None:
            raise CheckBroken("anchor field %s.%s not found" % (key, field))
        return f["ty"]
