"""What happens to a Result value: is its outcome looked at (propagated with `?`, matched, returned, handed on) or is it
thrown away (`let _ =`, `.ok();`, dropped)?  Used by the error-discipline rules."""

ADAPTERS_KEEP = {"map_err", "map", "and_then", "or_else", "unwrap_or_else", "ok", "err", "as_ref", "as_mut", "inspect_err", "inspect",
                 "flatten", "transpose", "ok_or", "ok_or_else", "copied", "cloned", "into", "from", "into_future", "branch_keep"}
SWALLOW = {"unwrap_or", "unwrap_or_default", "is_ok_and", "is_err_and"}


def result_fate(bi, local, depth=0, seen=None):
    """'consumed' | 'discarded' | 'swallowed' (error replaced by a default) | 'panics' (unwrap / expect)"""
    seen = seen if seen is not None else set()
    if depth > 14 or local in seen:
        return "consumed"
    seen.add(local)
    body = bi.body
    if local == 0 or local in body.ret_locals:
        return "consumed"          # it is the value this body (or a spliced helper) returns
    fates = []
    for (ub, ui) in bi.uses_of_local(local):
        if ui == -2:
            continue
        if ui >= 0:
            st = bi.stmt(ub, ui)
            if st.k != "assign":
                continue
            if st.rv.k == "discr":
                fates.append("consumed")
            elif st.lhs.local == local and not st.lhs.is_local():
                continue           # a write into the value itself
            elif st.lhs.is_local() and (st.lhs.local == 0 or st.lhs.local in body.ret_locals):
                fates.append("consumed")
            elif st.lhs.is_local():
                fates.append(result_fate(bi, st.lhs.local, depth + 1, seen))
            else:
                fates.append("consumed")       # stored into a structure
            continue
        t = body.blocks[ub].term
        if t.k == "switch":
            fates.append("consumed")
        elif t.k == "call":
            n = t.callee.path.split("::")[-1] if t.callee is not None else ""
            p = t.callee.path if t.callee is not None else ""
            if p == "std::ops::Try::branch" or p.endswith("FromResidual::from_residual"):
                fates.append("consumed")
            elif p == "std::mem::drop":
                fates.append("discarded")
            elif n in ("unwrap", "expect", "unwrap_unchecked", "expect_err", "unwrap_err"):
                fates.append("panics")
            elif n in ("is_ok", "is_err", "is_some", "is_none"):
                if t.dest is not None and t.dest.is_local():
                    f = result_fate(bi, t.dest.local, depth + 1, seen)
                    fates.append("consumed" if f == "consumed" else "discarded")
            elif n in SWALLOW and ("Result" in p or "Option" in p):
                dty = body.local_ty(t.dest.local) if t.dest is not None and t.dest.is_local() else ""
                if (dty or "").startswith("std::result::Result<") and n in ("unwrap_or", "unwrap_or_default"):
                    fates.append(result_fate(bi, t.dest.local, depth + 1, seen))      # Result<Result<..>, JoinError> -> inner Result
                else:
                    fates.append("swallowed")
            elif n in ADAPTERS_KEEP and t.dest is not None and t.dest.is_local() and ("Result" in p or "Option" in p or n in ("into", "from", "into_future")):
                fates.append(result_fate(bi, t.dest.local, depth + 1, seen))
            else:
                fates.append("consumed")       # handed to some other function
        elif t.k == "yield":
            fates.append("consumed")
    if not fates:
        return "discarded"
    for f in ("consumed", "panics", "swallowed"):
        if f in fates:
            return f
    return "discarded"
