"""Consumer loops (C06, C12, C15): loops that pull from a subscription and wait for its message signal."""
from common import await_class
from events import EventModel


class ConsumerLoop:
    def __init__(self):
        self.body = None
        self.header = None
        self.blocks = None
        self.pulls = []       # AwaitSite of the pull (directly or through a local helper)
        self.waits = []       # AwaitSite waiting on the message signal (plain or a select containing it)
        self.label = None


def _cone_pulls(prog, model, bi, a):
    """does awaiting `a` (a local coroutine) send the lease request (PullMessages) to a subscription actor?"""
    if await_class(prog, bi, a) != "local":
        return False
    cid = prog.body_of_type(bi.body, a.fut_ty)
    for bid in prog.cone(cid, follow=("call", "closure", "poll")):
        ci = prog.info(bid)
        if ci is None:
            continue
        for x in ci.awaits:
            if await_class(prog, ci, x) == "mpsc_send":
                sv = model.send_variant(ci, x)
                if sv and sv[1] and model.variant_info(*sv)[1]:
                    return True
    return False


def is_signal_wait(prog, bi, a):
    cls = await_class(prog, bi, a)
    if cls == "messages_available":
        return True
    if cls == "select":
        return any((br.fut_ty or "").startswith("crate::subscriptions::futures::MessagesAvailable") for br in a.select.branches)
    return False


def find_consumer_loops(prog):
    model = getattr(prog, "_event_model", None)
    if model is None:
        model = EventModel(prog)
        prog._event_model = model
    out = []
    for b in prog.facts.lib_bodies():
        if not b.coroutine:
            continue
        bi = prog.info(b.id)
        if not bi.awaits:
            continue
        waits = [a for a in bi.awaits if is_signal_wait(prog, bi, a)]
        pulls = [a for a in bi.awaits if _cone_pulls(prog, model, bi, a)]
        if not waits or not pulls:
            continue
        loops = bi.cfg.loops()
        for h, blocks in loops.items():
            lw = [a for a in waits if a.poll_bb in blocks]
            lp = [a for a in pulls if a.poll_bb in blocks]
            if not lw or not lp:
                continue
            # skip the await's own polling loops (header inside an await loop)
            if any(a.entry_bb == h for a in bi.awaits):
                continue
            # innermost loop containing both
            cl = ConsumerLoop()
            cl.body, cl.header, cl.blocks, cl.pulls, cl.waits = b.id, h, blocks, lp, lw
            out.append(cl)
    # keep the innermost loop per body for each wait
    res = []
    for cl in out:
        if any(o is not cl and o.body == cl.body and o.blocks < cl.blocks and set(map(id, o.waits)) == set(map(id, cl.waits)) for o in out):
            continue
        cl.label = prog.short(cl.body)
        res.append(cl)
    return res


def const_walk(bi, start_bb, stop_at, max_steps=4000):
    """Walk from start_bb following only feasible arms of switches on locals that hold a constant assigned on the
    path (tiny constant propagation).  `stop_at(bb)` returns a label to end a path there (or None to go on).
    Returns the set of labels reached; 'return' for normal returns, 'loop' if a cycle closes without a label."""
    body = bi.body
    labels = set()
    seen = set()
    stack = [(start_bb, ())]
    steps = 0
    while stack and steps < max_steps:
        steps += 1
        bb, env = stack.pop()
        if (bb, env) in seen:
            continue
        seen.add((bb, env))
        lab = stop_at(bb)
        if lab is not None:
            labels.add(lab)
            continue
        blk = body.blocks[bb]
        e = dict(env)
        for s in blk.stmts:
            if s.k == "assign" and s.lhs.is_local():
                v = None
                if s.rv.k == "use":
                    op = s.rv.ops[0]
                    if op.place is None:
                        v = op.const_bool() if op.const_bool() is not None else op.const_int()
                    elif op.place.is_local() and op.place.local in e:
                        v = e[op.place.local]
                if v is not None:
                    e[s.lhs.local] = v
                else:
                    e.pop(s.lhs.local, None)
        t = blk.term
        if t.k == "return":
            labels.add("return")
            continue
        succs = bi.cfg.succ[bb]
        if t.k == "call" and t.dest is not None and t.dest.is_local():
            e.pop(t.dest.local, None)
        if t.k == "switch" and t.discr is not None and t.discr.place is not None and t.discr.place.is_local() and t.discr.place.local in e:
            v = e[t.discr.place.local]
            v = int(v) if isinstance(v, bool) else v
            arms = dict(t.arms)
            succs = [arms.get(v, t.otherwise)]
        if not succs:
            labels.add("diverge")
        env2 = tuple(sorted(e.items()))
        for s in succs:
            stack.append((s, env2))
    if steps >= max_steps:
        labels.add("unknown")
    return labels
