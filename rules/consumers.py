"""Consumer loops (C06, C12, C15): loops that pull from a subscription and wait for its message signal."""
from common import await_class
from events import EventModel


class ConsumerLoop:
    def __init__(self):
        self.body = None
        self.header = None
        self.blocks = None
        self.pulls = []       # AwaitSite of the pull (directly or through a local helper)
        self.waits = []       # AwaitSite waiting on the message signal (plain or a select containing it)
        self.label = None


def _cone_pulls(prog, model, bi, a):
    """does awaiting `a` (a local coroutine) send the lease request (PullMessages) to a subscription actor?"""
    if await_class(prog, bi, a) == "mpsc_send":
        # the handle method was written (or spliced) into this body: the send of the lease request itself
        sv = model.send_variant(bi, a)
        return bool(sv and sv[1] and model.variant_info(*sv)[1])
    if await_class(prog, bi, a) != "local":
        return False
    cid = prog.body_of_type(bi.body, a.fut_ty)
    for bid in prog.cone(cid, follow=("call", "closure", "poll")):
        ci = prog.info(bid)
        if ci is None:
            continue
        for x in ci.awaits:
            if await_class(prog, ci, x) == "mpsc_send":
                sv = model.send_variant(ci, x)
                if sv and sv[1] and model.variant_info(*sv)[1]:
                    return True
    return False


def is_signal_wait(prog, bi, a):
    cls = await_class(prog, bi, a)
    if cls == "messages_available":
        return True
    if cls == "select":
        return any((br.fut_ty or "").startswith("crate::subscriptions::futures::MessagesAvailable") for br in a.select.branches)
    return False


def find_consumer_loops(prog):
    model = getattr(prog, "_event_model", None)
    if model is None:
        model = EventModel(prog)
        prog._event_model = model
    out = []
    for b in prog.facts.lib_bodies():
        if not b.coroutine:
            continue
        bi = prog.info(b.id)
        if not bi.awaits:
            continue
        waits = [a for a in bi.awaits if is_signal_wait(prog, bi, a)]
        pulls = [a for a in bi.awaits if _cone_pulls(prog, model, bi, a)]
        if not waits or not pulls:
            continue
        loops = bi.cfg.loops()
        for h, blocks in loops.items():
            lw = [a for a in waits if a.poll_bb in blocks]
            lp = [a for a in pulls if a.poll_bb in blocks]
            if not lw or not lp:
                continue
            # skip the await's own polling loops (header inside an await loop)
            if any(a.entry_bb == h for a in bi.awaits):
                continue
            # innermost loop containing both
            cl = ConsumerLoop()
            cl.body, cl.header, cl.blocks, cl.pulls, cl.waits = b.id, h, blocks, lp, lw
            out.append(cl)
    # keep the innermost loop per body for each wait
    res = []
    for cl in out:
        if any(o is not cl and o.body == cl.body and o.blocks < cl.blocks and set(map(id, o.waits)) == set(map(id, cl.waits)) for o in out):
            continue
        cl.label = prog.short(cl.body)
        res.append(cl)
    return res


def _pkey(pl):
    steps = []
    for p in pl.proj:
        if p == "deref":
            continue
        if isinstance(p, dict) and "f" in p:
            steps.append(("f", p["n"]))
        elif isinstance(p, dict) and "dc" in p:
            steps.append(("v", p["dc"]))
        else:
            return None
    return (pl.local, tuple(steps))


def const_walk(bi, start_bb, stop_at, max_steps=6000, blocked_edges=()):
    """Walk from start_bb following only feasible arms of switches whose operand holds a constant assigned on the path
    (small constant propagation over places: locals, fields of aggregates built on the path, enum variants and their
    payloads, `!b`, moves of whole values -- enough to follow `true` / `false` / `Ok(..)` through the return place of a
    spliced helper, a coroutine's captured variables and the `Poll::Ready` wrapper of a spliced await).
    `stop_at(bb)` returns a label to end a path there (or None to go on).
    Returns the set of labels reached; 'return' for normal returns, 'diverge', 'unknown' when the budget runs out."""
    body = bi.body
    labels = set()
    seen = set()
    stack = [(start_bb, ())]
    steps = 0

    def kill(e, key):
        l, st = key
        for k in [k for k in e if k[0] == l and k[1][:len(st)] == st]:
            del e[k]

    def copy_from(e, dst, src):
        sl, ss = src
        dl, ds = dst
        add = {}
        for (l, st), v in e.items():
            if l == sl and st[:len(ss)] == ss:
                add[(dl, ds + st[len(ss):])] = v
        return add

    while stack and steps < max_steps:
        steps += 1
        bb, env = stack.pop()
        if (bb, env) in seen:
            continue
        seen.add((bb, env))
        lab = stop_at(bb)
        if lab is not None:
            labels.add(lab)
            continue
        blk = body.blocks[bb]
        e = dict(env)
        for s in blk.stmts:
            if s.k != "assign":
                continue
            dk = _pkey(s.lhs)
            if dk is None:
                kill(e, (s.lhs.local, ()))
                continue
            add = {}
            rv = s.rv
            if rv.k == "use":
                op = rv.ops[0]
                if op.place is None:
                    v = op.const_bool() if op.const_bool() is not None else op.const_int()
                    if v is not None:
                        add[dk] = v
                else:
                    sk = _pkey(op.place)
                    if sk is not None:
                        add = copy_from(e, dk, sk)
            elif rv.k == "un" and rv.j.get("op") == "Not" and rv.ops[0].place is not None:
                sk = _pkey(rv.ops[0].place)
                v = e.get(sk) if sk is not None else None
                if isinstance(v, bool):
                    add[dk] = not v
            elif rv.k == "agg":
                ak = rv.j.get("ak")
                names = rv.j.get("fields") or [str(k) for k in range(len(rv.ops))]
                if ak == "tuple":
                    names = [str(k) for k in range(len(rv.ops))]
                pre = dk[1]
                if ak == "adt" and rv.j.get("is_enum"):
                    add[(dk[0], pre + (("#", "discr"),))] = rv.j.get("vidx")
                    pre = pre + (("v", rv.j.get("variant")),)
                for n, op in zip(names, rv.ops):
                    fk = (dk[0], pre + (("f", n),))
                    if op.place is None:
                        v = op.const_bool() if op.const_bool() is not None else op.const_int()
                        if v is not None:
                            add[fk] = v
                    else:
                        sk = _pkey(op.place)
                        if sk is not None:
                            add.update(copy_from(e, fk, sk))
            elif rv.k == "bin" and rv.j.get("op") in ("Eq", "Ne", "Lt", "Le", "Gt", "Ge"):
                vals = []
                for op in rv.ops:
                    if op.place is None:
                        vals.append(op.const_bool() if op.const_bool() is not None else op.const_int())
                    else:
                        sk = _pkey(op.place)
                        vals.append(e.get(sk) if sk is not None else None)
                if None not in vals:
                    a0, b0 = int(vals[0]), int(vals[1])
                    add[dk] = {"Eq": a0 == b0, "Ne": a0 != b0, "Lt": a0 < b0, "Le": a0 <= b0, "Gt": a0 > b0, "Ge": a0 >= b0}[rv.j["op"]]
            elif rv.k == "discr" and rv.place is not None:
                sk = _pkey(rv.place)
                if sk is not None:
                    v = e.get((sk[0], sk[1] + (("#", "discr"),)))
                    if v is not None:
                        add[dk] = v
            elif rv.k == "ref" and rv.place is not None:
                sk = _pkey(rv.place)
                if sk is not None:
                    add = copy_from(e, dk, sk)
            kill(e, dk)
            e.update(add)
        t = blk.term
        if t.k == "return":
            labels.add("return")
            continue
        succs = bi.cfg.succ[bb]
        if t.k == "call" and t.dest is not None:
            dk = _pkey(t.dest)
            known = None
            if t.callee is not None and t.callee.path.endswith("intrinsics::discriminant_value") and t.args and t.args[0].place is not None:
                sk = _pkey(t.args[0].place)          # derived PartialEq of a field-less enum compares discriminant_value(self / other)
                if sk is not None:
                    known = e.get((sk[0], sk[1] + (("#", "discr"),)))
            kill(e, dk if dk is not None else (t.dest.local, ()))
            if known is not None and dk is not None:
                e[dk] = known
            # a `&mut` to a tracked local handed to a call may change it
            for a in t.args:
                if a.place is not None and a.place.is_local():
                    ty = body.local_ty(a.place.local) or ""
                    if ty.startswith("&mut"):
                        pass
        if t.k == "switch" and t.discr is not None and t.discr.place is not None:
            sk = _pkey(t.discr.place)
            v = e.get(sk) if sk is not None else None
            if v is not None:
                v = int(v) if isinstance(v, bool) else v
                arms = dict(t.arms)
                succs = [arms.get(v, t.otherwise)]
        if not succs:
            labels.add("diverge")
        env2 = tuple(sorted(e.items(), key=repr))
        for s2 in succs:
            if (bb, s2) in blocked_edges:
                continue
            stack.append((s2, env2))
    if steps >= max_steps:
        labels.add("unknown")
    return labels
