"""Library model: what the std / tokio / parking_lot / tonic calls used by deltio do to their
receiver.  Written from the libraries' documentation; their code is not analysed (trusted base).

kinds:
  insert / insert_back / insert_front   add an element
  remove / remove_front / remove_back   remove an element (result = the removed element)
  clear                                  remove everything
  reorder                                change the order of elements
  read                                   observe only
  handle                                 hands out a view/handle through which the receiver is used
  take                                   Option::take (moves the value out, leaves None)
"""

RECEIVER_EFFECT = {
    # VecDeque
    "std::collections::VecDeque::<T, A>::push_back": "insert_back",
    "std::collections::VecDeque::<T, A>::push_front": "insert_front",
    "std::collections::VecDeque::<T, A>::pop_front": "remove_front",
    "std::collections::VecDeque::<T, A>::pop_back": "remove_back",
    "std::collections::VecDeque::<T, A>::append": "insert_back",
    "std::collections::VecDeque::<T, A>::insert": "insert_any",
    "std::collections::VecDeque::<T, A>::remove": "remove_any",
    "std::collections::VecDeque::<T, A>::swap_remove_back": "remove_any",
    "std::collections::VecDeque::<T, A>::swap_remove_front": "remove_any",
    "std::collections::VecDeque::<T, A>::drain": "remove_any",
    "std::collections::VecDeque::<T, A>::retain": "remove_any",
    "std::collections::VecDeque::<T, A>::retain_mut": "remove_any",
    "std::collections::VecDeque::<T, A>::truncate": "remove_back",
    "std::collections::VecDeque::<T, A>::split_off": "remove_back",
    "std::collections::VecDeque::<T, A>::clear": "clear",
    "std::collections::VecDeque::<T, A>::len": "read",
    "std::collections::VecDeque::<T, A>::is_empty": "read",
    "std::collections::VecDeque::<T, A>::front": "read",
    "std::collections::VecDeque::<T, A>::back": "read",
    "std::collections::VecDeque::<T, A>::get": "read",
    "std::collections::VecDeque::<T, A>::iter": "read",
    "std::collections::VecDeque::<T, A>::contains": "read",
    "std::collections::VecDeque::<T, A>::reserve": "read",
    "std::collections::VecDeque::<T, A>::swap": "reorder",
    "std::collections::VecDeque::<T, A>::rotate_left": "reorder",
    "std::collections::VecDeque::<T, A>::rotate_right": "reorder",
    "std::collections::VecDeque::<T, A>::make_contiguous": "handle",
    "std::collections::VecDeque::<T, A>::iter_mut": "handle",
    "std::collections::VecDeque::<T, A>::front_mut": "handle",
    "std::collections::VecDeque::<T, A>::back_mut": "handle",
    "std::collections::VecDeque::<T, A>::get_mut": "handle",
    "std::collections::VecDeque::<T, A>::as_mut_slices": "handle",
    # Vec
    "std::vec::Vec::<T, A>::push": "insert_back",
    "std::vec::Vec::<T, A>::insert": "insert_any",
    "std::vec::Vec::<T, A>::append": "insert_back",
    "std::vec::Vec::<T, A>::extend_from_slice": "insert_back",
    "std::vec::Vec::<T, A>::pop": "remove_back",
    "std::vec::Vec::<T, A>::remove": "remove_any",
    "std::vec::Vec::<T, A>::swap_remove": "remove_any",
    "std::vec::Vec::<T, A>::drain": "remove_any",
    "std::vec::Vec::<T, A>::retain": "remove_any",
    "std::vec::Vec::<T, A>::truncate": "remove_back",
    "std::vec::Vec::<T, A>::split_off": "remove_back",
    "std::vec::Vec::<T, A>::dedup": "remove_any",
    "std::vec::Vec::<T, A>::clear": "clear",
    "std::vec::Vec::<T, A>::len": "read",
    "std::vec::Vec::<T, A>::is_empty": "read",
    "std::vec::Vec::<T, A>::reserve": "read",
    "std::vec::Vec::<T, A>::capacity": "read",
    # slices (through Vec deref)
    "core::slice::<impl [T]>::sort": "reorder",
    "core::slice::<impl [T]>::sort_by": "reorder",
    "core::slice::<impl [T]>::sort_by_key": "reorder",
    "core::slice::<impl [T]>::sort_by_cached_key": "reorder",
    "core::slice::<impl [T]>::sort_unstable": "reorder",
    "core::slice::<impl [T]>::sort_unstable_by": "reorder",
    "core::slice::<impl [T]>::sort_unstable_by_key": "reorder",
    "core::slice::<impl [T]>::reverse": "reorder",
    "core::slice::<impl [T]>::swap": "reorder",
    "core::slice::<impl [T]>::rotate_left": "reorder",
    "core::slice::<impl [T]>::rotate_right": "reorder",
    "core::slice::<impl [T]>::select_nth_unstable": "reorder",
    "core::slice::<impl [T]>::iter": "read",
    "core::slice::<impl [T]>::len": "read",
    "core::slice::<impl [T]>::is_empty": "read",
    "core::slice::<impl [T]>::first": "read",
    "core::slice::<impl [T]>::last": "read",
    "core::slice::<impl [T]>::get": "read",
    # HashMap
    "std::collections::HashMap::<K, V, S, A>::insert": "insert",
    "std::collections::HashMap::<K, V, S, A>::remove": "remove",
    "std::collections::HashMap::<K, V, S, A>::remove_entry": "remove",
    "std::collections::HashMap::<K, V, S, A>::retain": "remove",
    "std::collections::HashMap::<K, V, S, A>::drain": "clear",
    "std::collections::HashMap::<K, V, S, A>::extract_if": "remove",
    "std::collections::HashMap::<K, V, S, A>::clear": "clear",
    "std::collections::HashMap::<K, V, S, A>::entry": "handle",
    "std::collections::HashMap::<K, V, S, A>::get_mut": "handle",
    "std::collections::HashMap::<K, V, S, A>::values_mut": "handle",
    "std::collections::HashMap::<K, V, S, A>::iter_mut": "handle",
    "std::collections::HashMap::<K, V, S, A>::get": "read",
    "std::collections::HashMap::<K, V, S, A>::get_key_value": "read",
    "std::collections::HashMap::<K, V, S, A>::contains_key": "read",
    "std::collections::HashMap::<K, V, S, A>::values": "read",
    "std::collections::HashMap::<K, V, S, A>::keys": "read",
    "std::collections::HashMap::<K, V, S, A>::iter": "read",
    "std::collections::HashMap::<K, V, S, A>::len": "read",
    "std::collections::HashMap::<K, V, S, A>::is_empty": "read",
    "std::collections::hash_map::Entry::<'a, K, V, A>::or_insert": "insert",
    "std::collections::hash_map::Entry::<'a, K, V, A>::or_insert_with": "insert",
    "std::collections::hash_map::Entry::<'a, K, V, A>::or_default": "insert",
    "std::collections::hash_map::Entry::<'a, K, V, A>::and_modify": "handle",
    "std::collections::hash_map::Entry::<'a, K, V, A>::insert_entry": "insert",
    "std::collections::hash_map::VacantEntry::<'a, K, V, A>::insert": "insert",
    "std::collections::hash_map::VacantEntry::<'a, K, V, A>::insert_entry": "insert",
    "std::collections::hash_map::OccupiedEntry::<'a, K, V, A>::insert": "insert",
    "std::collections::hash_map::OccupiedEntry::<'a, K, V, A>::remove": "remove",
    "std::collections::hash_map::OccupiedEntry::<'a, K, V, A>::remove_entry": "remove",
    "std::collections::hash_map::OccupiedEntry::<'a, K, V, A>::get_mut": "handle",
    "std::collections::hash_map::OccupiedEntry::<'a, K, V, A>::into_mut": "handle",
    "std::collections::hash_map::OccupiedEntry::<'a, K, V, A>::get": "read",
    # BTreeSet
    "std::collections::BTreeSet::<T, A>::insert": "insert",
    "std::collections::BTreeSet::<T, A>::replace": "insert",
    "std::collections::BTreeSet::<T, A>::remove": "remove",
    "std::collections::BTreeSet::<T, A>::take": "remove",
    "std::collections::BTreeSet::<T, A>::pop_first": "remove_front",
    "std::collections::BTreeSet::<T, A>::pop_last": "remove_back",
    "std::collections::BTreeSet::<T, A>::retain": "remove",
    "std::collections::BTreeSet::<T, A>::split_off": "remove",
    "std::collections::BTreeSet::<T, A>::clear": "clear",
    "std::collections::BTreeSet::<T, A>::first": "read_first",
    "std::collections::BTreeSet::<T, A>::last": "read_last",
    "std::collections::BTreeSet::<T, A>::iter": "read",
    "std::collections::BTreeSet::<T, A>::len": "read",
    "std::collections::BTreeSet::<T, A>::is_empty": "read",
    "std::collections::BTreeSet::<T, A>::contains": "read",
    "std::collections::BTreeSet::<T, A>::get": "read",
    "std::collections::BTreeSet::<T, A>::range": "read",
    # Extend
    "std::iter::Extend::extend": "insert_back",
    # Option
    "std::option::Option::<T>::take": "take",
    "std::option::Option::<T>::replace": "write",
    "std::option::Option::<T>::insert": "write",
    "std::option::Option::<T>::get_or_insert": "write",
    "std::option::Option::<T>::get_or_insert_with": "write",
    "std::mem::swap": "write",
    "std::mem::replace": "write",
    "std::mem::take": "take",
    # Notify
    "tokio::sync::Notify::notify_one": "notify_one",
    "tokio::sync::Notify::notify_last": "notify_one",
    "tokio::sync::Notify::notify_waiters": "notify_waiters",
    "tokio::sync::Notify::notified": "notified",
    # atomics
    "std::sync::atomic::Atomic::<u64>::fetch_add": "atomic_rmw",
    "std::sync::atomic::Atomic::<u64>::fetch_sub": "atomic_rmw",
    "std::sync::atomic::Atomic::<u64>::store": "atomic_store",
    "std::sync::atomic::Atomic::<u64>::swap": "atomic_rmw",
    "std::sync::atomic::Atomic::<u64>::load": "atomic_load",
    # channels
    "tokio::sync::mpsc::Sender::<T>::send": "mpsc_send",
    "tokio::sync::mpsc::Sender::<T>::try_send": "mpsc_try_send",
    "tokio::sync::mpsc::Sender::<T>::send_timeout": "mpsc_try_send",
    "tokio::sync::mpsc::Sender::<T>::try_reserve": "mpsc_try_send",
    "tokio::sync::mpsc::Sender::<T>::blocking_send": "mpsc_send",
    "tokio::sync::mpsc::Receiver::<T>::recv": "mpsc_recv",
    "tokio::sync::mpsc::Receiver::<T>::try_recv": "mpsc_recv",
    "tokio::sync::mpsc::Receiver::<T>::close": "mpsc_close",
    "tokio::sync::oneshot::Sender::<T>::send": "oneshot_send",
}

# atomics of every width (nightly spells AtomicUsize / AtomicBool / .. as Atomic::<T>)
for _w in ("u8", "u16", "u32", "u64", "usize", "i8", "i16", "i32", "i64", "isize", "bool"):
    for _op, _k in (("fetch_add", "atomic_rmw"), ("fetch_sub", "atomic_rmw"), ("fetch_max", "atomic_rmw"), ("fetch_min", "atomic_rmw"),
                    ("fetch_and", "atomic_rmw"), ("fetch_or", "atomic_rmw"), ("fetch_xor", "atomic_rmw"), ("fetch_nand", "atomic_rmw"),
                    ("fetch_update", "atomic_rmw"), ("compare_exchange", "atomic_rmw"), ("compare_exchange_weak", "atomic_rmw"),
                    ("swap", "atomic_rmw"), ("store", "atomic_store"), ("load", "atomic_load")):
        RECEIVER_EFFECT.setdefault("std::sync::atomic::Atomic::<%s>::%s" % (_w, _op), _k)

# BTreeMap mirrors HashMap; entry adapters that hand out `&mut V` are views of the map
for _t in (RECEIVER_EFFECT,):
    for _k, _v in list(_t.items()):
        if _k.startswith("std::collections::HashMap::<K, V, S, A>::"):
            _t.setdefault(_k.replace("std::collections::HashMap::<K, V, S, A>::", "std::collections::BTreeMap::<K, V, A>::"), _v)
        if _k.startswith("std::collections::hash_map::"):
            _b = _k.replace("std::collections::hash_map::", "std::collections::btree_map::")
            _t.setdefault(_b, _v)
            _t.setdefault(_k.replace("<'a, K, V, A>", "<'a, K, V>"), _v)
            _t.setdefault(_b.replace("<'a, K, V, A>", "<'a, K, V>"), _v)
RECEIVER_EFFECT.setdefault("std::collections::BTreeMap::<K, V, A>::pop_first", "remove")
RECEIVER_EFFECT.setdefault("std::collections::BTreeMap::<K, V, A>::pop_last", "remove")
RECEIVER_EFFECT.setdefault("std::collections::BTreeMap::<K, V, A>::split_off", "remove")
RECEIVER_EFFECT.setdefault("std::collections::BTreeMap::<K, V, A>::append", "insert")
RECEIVER_EFFECT.setdefault("std::collections::BTreeMap::<K, V, A>::first_key_value", "read")
RECEIVER_EFFECT.setdefault("std::collections::BTreeMap::<K, V, A>::last_key_value", "read")
RECEIVER_EFFECT.setdefault("std::collections::BTreeMap::<K, V, A>::range", "read")

INSERT_KINDS = {"insert", "insert_back", "insert_front", "insert_any"}
REMOVE_KINDS = {"remove", "remove_front", "remove_back", "remove_any", "take"}
MUTATING_KINDS = INSERT_KINDS | REMOVE_KINDS | {"clear", "reorder", "write", "atomic_rmw", "atomic_store"}

# handle-returning calls: the result is a view of the receiver; an effect through the view is an
# effect on the receiver (added to the transparent set when looking for the cell behind a receiver)
HANDLES = {
    "parking_lot::lock_api::RwLock::<R, T>::read", "parking_lot::lock_api::RwLock::<R, T>::write",
    "parking_lot::lock_api::RwLock::<R, T>::upgradable_read",
    "parking_lot::lock_api::RwLock::<R, T>::try_read", "parking_lot::lock_api::RwLock::<R, T>::try_write",
    "parking_lot::lock_api::Mutex::<R, T>::lock", "parking_lot::lock_api::Mutex::<R, T>::try_lock",
    "std::sync::Mutex::<T>::lock", "std::sync::RwLock::<T>::read", "std::sync::RwLock::<T>::write",
    "std::collections::HashMap::<K, V, S, A>::entry",
    "std::collections::HashMap::<K, V, S, A>::get_mut",
    "std::collections::HashMap::<K, V, S, A>::values_mut",
    "std::collections::HashMap::<K, V, S, A>::iter_mut",
    "std::collections::hash_map::OccupiedEntry::<'a, K, V, A>::get_mut",
    "std::collections::hash_map::OccupiedEntry::<'a, K, V, A>::into_mut",
    "std::collections::hash_map::Entry::<'a, K, V, A>::and_modify",
    "std::collections::VecDeque::<T, A>::make_contiguous",
    "std::collections::VecDeque::<T, A>::iter_mut",
    "std::collections::VecDeque::<T, A>::front_mut",
    "std::collections::VecDeque::<T, A>::back_mut",
    "std::collections::VecDeque::<T, A>::get_mut",
    "std::option::Option::<T>::as_mut", "std::option::Option::<T>::as_ref",
    "std::result::Result::<T, E>::unwrap", "std::result::Result::<T, E>::expect",
    "std::option::Option::<T>::unwrap", "std::option::Option::<T>::expect",
}

# element-of: the result is (an iterator over / an element of) the receiver
for _k in list(HANDLES):
    if _k.startswith("std::collections::HashMap::<K, V, S, A>::"):
        HANDLES.add(_k.replace("std::collections::HashMap::<K, V, S, A>::", "std::collections::BTreeMap::<K, V, A>::"))
    if _k.startswith("std::collections::hash_map::"):
        HANDLES.add(_k.replace("std::collections::hash_map::", "std::collections::btree_map::"))
for _e in ("std::collections::hash_map::Entry", "std::collections::btree_map::Entry"):
    for _g in ("<'a, K, V, A>", "<'a, K, V>"):
        for _m in ("or_insert", "or_insert_with", "or_insert_with_key", "or_default", "and_modify"):
            HANDLES.add("%s::%s::%s" % (_e, _g, _m))

ELEMENTS = {
    "std::collections::HashMap::<K, V, S, A>::values", "std::collections::HashMap::<K, V, S, A>::iter",
    "std::collections::HashMap::<K, V, S, A>::keys", "std::collections::HashMap::<K, V, S, A>::get",
    "std::collections::HashMap::<K, V, S, A>::into_values",
    "std::collections::VecDeque::<T, A>::iter", "core::slice::<impl [T]>::iter",
    "std::collections::BTreeSet::<T, A>::iter", "std::collections::BTreeSet::<T, A>::first",
    "std::iter::IntoIterator::into_iter", "std::iter::Iterator::next", "std::iter::Iterator::cloned",
    "std::iter::Iterator::copied", "std::iter::Iterator::filter", "std::iter::Iterator::skip",
    "std::iter::Iterator::take", "std::iter::Iterator::rev", "std::iter::Iterator::peekable",
    "std::option::Option::<&T>::cloned", "std::option::Option::<&T>::copied",
}

LOCK_ACQUIRE = {
    "parking_lot::lock_api::RwLock::<R, T>::read": "read",
    "parking_lot::lock_api::RwLock::<R, T>::upgradable_read": "read",
    "parking_lot::lock_api::RwLock::<R, T>::write": "write",
    "parking_lot::lock_api::Mutex::<R, T>::lock": "lock",
    "std::sync::Mutex::<T>::lock": "lock",
    "std::sync::RwLock::<T>::read": "read",
    "std::sync::RwLock::<T>::write": "write",
    "tokio::sync::Mutex::<T>::lock": "lock",
    "tokio::sync::RwLock::<T>::read": "read",
    "tokio::sync::RwLock::<T>::write": "write",
}

GUARD_TYPES = ("parking_lot::lock_api::RwLockReadGuard", "parking_lot::lock_api::RwLockWriteGuard",
               "parking_lot::lock_api::MutexGuard", "std::sync::MutexGuard", "std::sync::RwLockReadGuard",
               "std::sync::RwLockWriteGuard", "parking_lot::lock_api::RwLockUpgradableReadGuard")

STATUS_CTORS = {
    "tonic::Status::invalid_argument": "INVALID_ARGUMENT",
    "tonic::Status::not_found": "NOT_FOUND",
    "tonic::Status::already_exists": "ALREADY_EXISTS",
    "tonic::Status::failed_precondition": "FAILED_PRECONDITION",
    "tonic::Status::internal": "INTERNAL",
    "tonic::Status::unimplemented": "UNIMPLEMENTED",
    "tonic::Status::cancelled": "CANCELLED",
    "tonic::Status::unknown": "UNKNOWN",
    "tonic::Status::aborted": "ABORTED",
    "tonic::Status::out_of_range": "OUT_OF_RANGE",
    "tonic::Status::permission_denied": "PERMISSION_DENIED",
    "tonic::Status::resource_exhausted": "RESOURCE_EXHAUSTED",
    "tonic::Status::unavailable": "UNAVAILABLE",
    "tonic::Status::deadline_exceeded": "DEADLINE_EXCEEDED",
    "tonic::Status::data_loss": "DATA_LOSS",
    "tonic::Status::unauthenticated": "UNAUTHENTICATED",
    "tonic::Status::ok": "OK",
    "tonic::Status::new": "?",
}

# calls that can panic on some input (used for the parse cone, C17)
MAY_PANIC = {
    "std::option::Option::<T>::unwrap", "std::option::Option::<T>::expect",
    "std::result::Result::<T, E>::unwrap", "std::result::Result::<T, E>::expect",
    "std::result::Result::<T, E>::unwrap_err", "std::result::Result::<T, E>::expect_err",
    "std::ops::Index::index", "std::ops::IndexMut::index_mut",
    "core::str::<impl str>::split_at", "core::slice::<impl [T]>::split_at",
    "core::str::<impl str>::split_at_mut",
    "std::time::Duration::from_secs_f64", "std::time::Duration::from_secs_f32",
    "core::panicking::panic", "core::panicking::panic_fmt", "core::panicking::panic_explicit",
    "std::rt::begin_panic", "core::panicking::unreachable_display",
    "core::slice::<impl [T]>::copy_from_slice", "core::slice::<impl [T]>::clone_from_slice",
    "std::string::String::remove", "std::string::String::insert", "std::string::String::truncate",
    "std::string::String::split_off", "std::string::String::drain", "std::string::String::replace_range",
    "std::vec::Vec::<T, A>::remove", "std::vec::Vec::<T, A>::swap_remove", "std::vec::Vec::<T, A>::insert",
    "std::vec::Vec::<T, A>::split_off", "std::vec::Vec::<T, A>::drain",
    "std::option::Option::<T>::unwrap_unchecked", "std::result::Result::<T, E>::unwrap_unchecked",
    "std::hint::unreachable_unchecked",
    "core::str::<impl str>::get_unchecked", "core::slice::<impl [T]>::get_unchecked",
}
