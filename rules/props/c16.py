"""C16 — abandoned requests have all-or-nothing effect (cancel-atomicity of client-cancellable roots)."""
from engine import rule, CheckBroken
from events import EventModel, Walker
from common import short_ty


def cancellable_roots(prog):
    """(label, body id, kind): RPC handler coroutines and the stream bodies they hand to the client"""
    roots = []
    for h in prog.handlers:
        if h.root is None:
            continue
        roots.append((h.service + "::" + h.name, h.root, "handler"))
        for bid in prog.cone(h.root, follow=("call", "closure", "poll")):
            bi = prog.info(bid)
            if bi is None:
                continue
            for bb, t in bi.calls(lambda c: c.path.startswith("async_stream::__private::AsyncStream::<T, U>::new")):
                ty = bi.body.operand_ty(t.args[-1])
                cid = prog.body_of_type(bi.body, ty)
                if cid:
                    roots.append(("%s::%s/stream#%d" % (h.service, h.name, len([r for r in roots if r[2] == "stream" and r[0].startswith(h.service + "::" + h.name)])), cid, "stream"))
    return roots


def model(prog):
    m = getattr(prog, "_event_model", None)
    if m is None:
        m = EventModel(prog)
        prog._event_model = m
    return m


@rule("C16", "R16.1", "no client-cancellable suspension point lies between two effects of one request", floor=25)
def r16_1(prog, out):
    m = model(prog)
    roots = cancellable_roots(prog)
    if len([r for r in roots if r[2] == "stream"]) < 2:
        raise CheckBroken("expected the two StreamingPull stream bodies, found %d" % len([r for r in roots if r[2] == "stream"]))
    for label, bid, kind in roots:
        w = Walker(m, lease_exempt=True)
        w.run(bid)
        if not w.eye:
            n_e = sum(1 for k in w._memo for _ in [0])
            out.holds("root:%s" % label, prog.loc(bid), "no path has effect -> cancellable yield -> effect", nontrivial=bool(w._memo))
            continue
        by_e2 = {}
        for (l1, l2), (e1, y, e2) in sorted(w.eye.items()):
            by_e2.setdefault(l2, []).append((e1, y, e2))
        for l2, lst in sorted(by_e2.items()):
            e1s = sorted({e1.label for e1, _, _ in lst})
            e1, y, e2 = lst[0]
            out.violation("root:%s:{%s}=>%s" % (label, "; ".join(e1s), l2), e2.site,
                          "a request abandoned between its effects is applied half: {%s} has happened (e.g. at %s), the caller can be dropped at "
                          "the suspension point %s, and `%s` (at %s) then never happens" % ("; ".join(e1s), e1.site, y, l2, e2.site),
                          ["effect(s) 1: %s" % "; ".join("%s at %s" % (a.label, a.site) for a, _, _ in lst),
                           "cancellable yield at %s" % y, "effect 2: %s at %s" % (l2, e2.site)])


@rule("C16", "R16.2", "actors finish what they took: loops are detached tasks, replies to vanished callers are ignored", floor=10)
def r16_2(prog, out):
    for actor in prog.actors:
        bi = prog.info(actor.start)
        sp = [s for s in bi.spawns if s.task == actor.loop]
        key = "actor-task:%s" % short_ty(actor.ty)
        if not sp or sp[0].kind != "detached":
            out.violation(key, prog.loc(actor.start), "the actor loop is not a detached task")
            continue
        # the JoinHandle is dropped (nobody can abort the loop)
        dest = bi.body.blocks[sp[0].bb].term.dest
        uses = [u for u in bi.uses_of_local(dest.local) if u[1] != -2] if dest is not None and dest.is_local() else []
        if uses:
            out.undecided(key, bi.loc(sp[0].bb), "the actor task's JoinHandle is kept (%d use(s)): the loop may be aborted from outside" % len(uses))
        else:
            out.holds(key, bi.loc(sp[0].bb), "actor loop is a detached task whose handle is dropped: a caller going away cannot stop a handler midway")
        di = prog.info(actor.dispatch)
        for vname, vh in sorted(actor.variants.items()):
            if not vh.has_responder:
                continue
            t = di.body.blocks[vh.responder_bb].term
            key = "reply:%s::%s" % (short_ty(actor.request), vname)
            d = t.dest
            uses = [u for u in di.uses_of_local(d.local) if u[1] != -2] if d is not None and d.is_local() else []
            if uses:
                out.violation(key, di.loc(vh.responder_bb), "the result of replying to the caller is used (%d use(s)): a vanished caller can make the actor fail" % len(uses))
            else:
                out.holds(key, di.loc(vh.responder_bb), "reply result is discarded (`let _ = responder.send(..)`)")
