"""C16 — abandoned requests have all-or-nothing effect (cancel-atomicity of client-cancellable roots)."""
from engine import rule, CheckBroken
from events import EventModel, Walker
from common import short_ty, await_class


def cancellable_roots(prog):
    """(label, body id, kind): RPC handler coroutines and the stream bodies they hand to the client"""
    roots = []
    for h in prog.handlers:
        if h.root is None:
            continue
        roots.append((h.service + "::" + h.name, h.root, "handler"))
        for bid in prog.cone(h.root, follow=("call", "closure", "poll")):
            bi = prog.info(bid)
            if bi is None:
                continue
            for bb, t in bi.calls(lambda c: c.path.startswith("async_stream::__private::AsyncStream::<T, U>::new")):
                ty = bi.body.operand_ty(t.args[-1])
                cid = prog.body_of_type(bi.body, ty)
                if cid:
                    roots.append(("%s::%s/stream#%d" % (h.service, h.name, len([r for r in roots if r[2] == "stream" and r[0].startswith(h.service + "::" + h.name)])), cid, "stream"))
    return roots


def model(prog):
    m = getattr(prog, "_event_model", None)
    if m is None:
        m = EventModel(prog)
        prog._event_model = m
    return m


@rule("C16", "R16.1", "no client-cancellable suspension point lies between two effects of one request", floor=25)
def r16_1(prog, out):
    m = model(prog)
    roots = cancellable_roots(prog)
    if len([r for r in roots if r[2] == "stream"]) < 2:
        raise CheckBroken("expected the two StreamingPull stream bodies, found %d" % len([r for r in roots if r[2] == "stream"]))
    for label, bid, kind in roots:
        w = Walker(m, lease_exempt=True)
        w.run(bid)
        if not w.eye:
            n_e = sum(1 for k in w._memo for _ in [0])
            out.holds("root:%s" % label, prog.loc(bid), "no path has effect -> cancellable yield -> effect", nontrivial=bool(w._memo))
            continue
        by_e2 = {}
        for (l1, l2), (e1, y, e2) in sorted(w.eye.items()):
            by_e2.setdefault(l2, []).append((e1, y, e2))
        for l2, lst in sorted(by_e2.items()):
            e1s = sorted({e1.label for e1, _, _ in lst})
            e1, y, e2 = lst[0]
            out.violation("root:%s:{%s}=>%s" % (label, "; ".join(e1s), l2), e2.site,
                          "a request abandoned between its effects is applied half: {%s} has happened (e.g. at %s), the caller can be dropped at "
                          "the suspension point %s, and `%s` (at %s) then never happens" % ("; ".join(e1s), e1.site, y, l2, e2.site),
                          ["effect(s) 1: %s" % "; ".join("%s at %s" % (a.label, a.site) for a, _, _ in lst),
                           "cancellable yield at %s" % y, "effect 2: %s at %s" % (l2, e2.site)])


@rule("C16", "R16.2", "actors finish what they took: loops are detached tasks, replies to vanished callers are ignored", floor=10)
def r16_2(prog, out):
    for actor in prog.actors:
        bi = prog.info(actor.start)
        sp = [s for s in bi.spawns if s.task == actor.loop]
        key = "actor-task:%s" % short_ty(actor.ty)
        if not sp or sp[0].kind != "detached":
            out.violation(key, prog.loc(actor.start), "the actor loop is not a detached task")
            continue
        # the JoinHandle is dropped (nobody can abort the loop)
        dest = bi.body.blocks[sp[0].bb].term.dest
        uses = [u for u in bi.uses_of_local(dest.local) if u[1] != -2] if dest is not None and dest.is_local() else []
        if uses:
            out.undecided(key, bi.loc(sp[0].bb), "the actor task's JoinHandle is kept (%d use(s)): the loop may be aborted from outside" % len(uses))
        else:
            out.holds(key, bi.loc(sp[0].bb), "actor loop is a detached task whose handle is dropped: a caller going away cannot stop a handler midway")
        di = prog.info(actor.dispatch)
        for vname, vh in sorted(actor.variants.items()):
            if not vh.has_responder:
                continue
            t = di.body.blocks[vh.responder_bb].term
            key = "reply:%s::%s" % (short_ty(actor.request), vname)
            d = t.dest
            uses = [u for u in di.uses_of_local(d.local) if u[1] != -2] if d is not None and d.is_local() else []
            if uses:
                out.violation(key, di.loc(vh.responder_bb), "the result of replying to the caller is used (%d use(s)): a vanished caller can make the actor fail" % len(uses))
            else:
                out.holds(key, di.loc(vh.responder_bb), "reply result is discarded (`let _ = responder.send(..)`)")


@rule("C11", "R16.4", "no drop guard takes back part of a request while a detached task completes the rest", floor=1)
@rule("C10", "R16.4", "no drop guard takes back part of a request while a detached task completes the rest", floor=1)
@rule("C16", "R16.4", "no drop guard takes back part of a request while a detached task completes the rest", floor=1)
def r16_4(prog, out):
    """Cancellation runs destructors.  A guard value whose `Drop` undoes something in shared state (releases the name it
    registered, unregisters from push) and that is alive across an `.await` of a client-cancellable future turns every such
    await into a point at which the request is *partly* taken back -- harmless when everything else the request did is undone
    too, a half-created resource when a task the request spawned (which cancellation does not reach) carries on with the
    other half.  Instances: every (guard local, await under it); HOLDS when nothing spawned while the guard is alive changes
    anchored state, VIOLATION otherwise.  The reference tree has no such guard (instance `drop-guards`)."""
    import libmodel as L
    A = prog.anchors
    shared = [A.cell("SubState", "subscriptions"), A.cell("TopicState", "topics"), A.cell("TopicActor", "subscriptions"),
              A.cell("PushRegistryState", "push_subscriptions")]
    guards = {}
    for b in prog.facts.lib_bodies():
        if b.impl_trait in ("std::ops::Drop", "core::ops::Drop") and b.id.endswith("::drop") and b.impl_self:
            effs = [e for e in prog.effects(b.id) if e.kind in L.MUTATING_KINDS and any(e.touches(c) for c in shared)]
            if effs:
                guards[b.impl_self.split("<")[0]] = (b.id, effs)
    out.holds("drop-guards", "", "%d type(s) of the crate undo shared state in Drop" % len(guards), nontrivial=False)
    if not guards:
        return
    roots = set()
    for label, rid, kind in cancellable_roots(prog):
        roots |= set(prog.cone(rid, follow=("call", "closure", "poll")))
    for bid in sorted(roots):
        bi = prog.info(bid)
        if bi is None or not bi.body.coroutine:
            continue
        body = bi.body
        for li in range(len(body.locals)):
            ty = (body.local_ty(li) or "").split("<")[0]
            if ty not in guards:
                continue
            defs = {d[0] for d in bi.defs.get(li, [])}
            ends = set()
            for blk in body.blocks:
                if blk.cleanup:
                    continue
                for st in blk.stmts:
                    if st.k == "assign" and any(o.kind == "move" and o.place is not None and o.place.is_local() and o.place.local == li for o in st.rv.ops):
                        ends.add(blk.idx)
                t = blk.term
                if t.k == "drop" and t.place is not None and t.place.is_local() and t.place.local == li:
                    ends.add(blk.idx)
                if t.k == "call" and any(o.kind == "move" and o.place is not None and o.place.is_local() and o.place.local == li for o in t.args):
                    ends.add(blk.idx)
            live = set()
            for d in defs:
                live |= set(bi.cfg.reachable_from(d, avoid=ends))
            under = [a for a in bi.awaits if a.poll_bb in live]
            if not under:
                continue
            gid, geffs = guards[ty]
            key = "guard:%s:%s" % (prog.short(bid), body.local_name(li) or "_%d" % li)
            carried = []
            for sp in bi.spawns:
                if sp.bb in live and sp.task is not None:
                    for c in prog.cone(sp.task, follow=("call", "closure", "poll")):
                        ci = prog.info(c)
                        if any(e.kind in L.MUTATING_KINDS and any(e.touches(x) for x in shared) for e in prog.effects(c)) or \
                                (ci is not None and any(await_class(prog, ci, a) == "mpsc_send" for a in ci.awaits)):
                            carried.append((sp.bb, c))       # changes shared state itself, or asks an actor to
            if carried:
                sbb, c = carried[0]
                out.violation(key, bi.loc(under[0].poll_bb), "a %s is alive across this await: when the client goes away its Drop (%s) takes back what the request "
                              "registered, while the task spawned at %s (%s) carries on with the rest -- the resource ends up half-created" % (
                                  short_ty(ty), prog.loc(gid), bi.loc(sbb), prog.short(c)),
                              ["guard created at %s" % ", ".join(bi.loc(d) for d in sorted(defs)), "await at %s" % bi.loc(under[0].poll_bb), "Drop effects: %s" % sorted({e.kind for e in geffs})])
            else:
                out.holds(key, bi.loc(under[0].poll_bb), "the guard undoes shared state on cancellation and nothing spawned under it changes shared state")


@rule("C16", "R16.5", "an actor that drops requests of vanished callers unhandled never does so to a later step of a multi-step operation", floor=1)
def r16_5(prog, out):
    """`if responder.is_closed() { return }` in an actor makes a request whose caller has gone away count as never sent.  For a
    single-step request that is `not at all`.  For a request that is a later step of an operation whose earlier steps have
    already taken effect (DeleteSubscription: detach from the topic, *then* `Delete` to the actor) it is `half`, unless the reply
    channel of that request lives inside the task that cannot be cancelled (then it is never closed early).  Instances: every
    request variant whose responder the actor tests, per place that builds it after an earlier step; reference tree: the actors
    test no responder (instance `skips-abandoned`)."""
    tested = {}     # (actor type, variant) -> site
    for actor in prog.actors:
        for bid in prog.cone(actor.loop, follow=("call", "closure", "poll")):
            bi = prog.info(bid)
            if bi is None:
                continue
            for bb, t in bi.calls(lambda c: c.path.startswith("tokio::sync::oneshot::Sender") and c.path.endswith("::is_closed")):
                o = bi.trace(t.args[0])
                vs = [p[1] for p in (o.path or ()) if isinstance(p, tuple) and p and p[0] == "v"]
                for v in (vs or list(actor.variants)):
                    if v in actor.variants:
                        tested[(actor.request, v)] = bi.loc(bb)
    out.holds("skips-abandoned", "", "%d request variant(s) are dropped unhandled when their responder is closed" % len(tested), nontrivial=False)
    if not tested:
        return
    # tasks that cancellation does not reach
    task_of = {}
    for b in prog.facts.lib_bodies():
        bi = prog.info(b.id)
        for sp in bi.spawns:
            if sp.task is not None:
                for c in prog.cone(sp.task, follow=("call", "closure", "poll")):
                    task_of.setdefault(c, (b.id, sp.bb))
    for (req, v), site in sorted(tested.items()):
        for (cb, cbb, _i, rv) in prog.constructions(req, v):
            ci = prog.info(cb)
            if ci is None or cb not in task_of:
                continue            # built in the caller's own future: a single step, dropped as a whole with it
            earlier = [a for a in ci.awaits if await_class(prog, ci, a) in ("mpsc_send", "local", "oneshot_recv") and ci.cfg.can_reach(a.poll_bb, cbb) and not ci.cfg.can_reach(cbb, a.poll_bb)]
            if not earlier:
                continue
            names = rv.j.get("fields") or []
            ridx = [i for i, n in enumerate(names) if "respond" in n or "reply" in n or "tx" == n]
            if not ridx:
                continue
            o = ci.trace(rv.ops[ridx[0]])
            key = "later-step:%s::%s@%s" % (short_ty(req), v, prog.short(cb))
            inside = o.kind == "call" and ci.call_at(o.data).callee is not None and ci.call_at(o.data).callee.path.startswith("tokio::sync::oneshot::channel")
            if inside:
                out.holds(key, ci.loc(cbb), "the reply channel of this later step is created and awaited inside the task, which no caller can cancel")
            else:
                out.violation(key, ci.loc(cbb), "%s::%s is sent after an earlier step of the operation has taken effect, its reply channel belongs to the caller's "
                              "cancellable future (%s), and the actor drops requests whose responder is closed (%s): a caller that goes away leaves the "
                              "operation half done" % (short_ty(req), v, o.kind, site))


def _r16_6(prog, out):
    """A worker task that applies requests already taken from the client (a queue of parsed control messages, a batch of acks) is
    a promise that they will be applied.  A value whose `Drop` *aborts* that task breaks the promise whenever the value goes out
    of scope before the queue is empty -- the client half-closes its side, the stream ends, the call is dropped: what was
    accepted and is still queued is discarded, although nothing told the client so.  Instances: every `Drop::drop` of the crate
    that aborts a task (`JoinHandle::abort`, `AbortHandle::abort`, dropping a JoinSet) whose body sends mutating requests to an
    actor; the reference tree has none (instance `aborting-guards`)."""
    import libmodel as L
    m = model(prog)
    found = 0
    for b in prog.facts.lib_bodies():
        if b.impl_trait not in ("std::ops::Drop", "core::ops::Drop") or not b.id.endswith("::drop") or not b.impl_self:
            continue
        bi = prog.info(b.id)
        aborts = [(bb, t) for bb, t in bi.calls(lambda c: c.path.endswith("::abort") and ("JoinHandle" in c.path or "AbortHandle" in c.path)) ]
        aborts += [(bb, t) for bb, t in bi.calls(lambda c: c.path.endswith("JoinSet::<T>::abort_all") or c.path.endswith("JoinSet::<T>::shutdown"))]
        if not aborts:
            continue
        ty = b.impl_self.split("<")[0]
        # the tasks stored in values of this type: spawns whose JoinHandle flows into a construction of the type
        tasks = []
        for (cb, cbb, _i, rv) in prog.constructions(ty):
            ci = prog.info(cb)
            for op in rv.ops:
                if op.place is None:
                    continue
                o = ci.trace(op)
                if o.kind == "call":
                    for sp in ci.spawns:
                        if sp.bb == o.data and sp.task is not None:
                            tasks.append((cb, sp))
        for cb, sp in tasks:
            found += 1
            key = "aborts-worker:%s" % short_ty(ty)
            labels = m.task_effect_label(sp.task)
            queue = any(await_class(prog, prog.info(x), a) == "mpsc_recv" for x in prog.cone(sp.task, follow=("call", "closure", "poll")) if prog.info(x) is not None
                        for a in prog.info(x).awaits)
            if labels and queue:
                out.violation(key, bi.loc(aborts[0][0]), "dropping a %s aborts the task that applies what was queued for it (%s): requests the server already accepted from the "
                              "client are discarded when the value goes out of scope with a non-empty queue (the client half-closes, the stream ends)" % (
                                  short_ty(ty), ", ".join(sorted(set(labels))[:3])),
                              ["task spawned at %s" % prog.loc(cb, sp.bb), "aborted in %s" % prog.loc(b.id)])
            elif labels:
                out.undecided(key, bi.loc(aborts[0][0]), "dropping a %s aborts a task with effects (%s); whether accepted work can be pending in it is not decided" % (
                    short_ty(ty), ", ".join(sorted(set(labels))[:3])))
            else:
                out.holds(key, bi.loc(aborts[0][0]), "the aborted task changes nothing")
    out.holds("aborting-guards", "", "%d task(s) are aborted by a Drop impl of the crate" % found, nontrivial=False)


@rule("C16", "R16.6", "no Drop impl aborts a worker that applies requests already accepted from the client", floor=1)
def r16_6_c16(prog, out):
    _r16_6(prog, out)


@rule("C07", "R16.6", "no Drop impl aborts a worker that applies requests already accepted from the client", floor=1)
def r16_6_c07(prog, out):
    _r16_6(prog, out)


@rule("C02", "R16.6", "no Drop impl aborts a worker that applies requests already accepted from the client", floor=1)
def r16_6_c02(prog, out):
    _r16_6(prog, out)
