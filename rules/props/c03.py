"""C03 — a delivered message is exclusively leased until its deadline."""
from engine import rule, CheckBroken
from actorlib import roles
from slicing import Slicer
from common import short_ty
from props.c09 import increment_kind, classify_bin
import libmodel as L


@rule("C03", "R03.1", "single owner: the actor state is built once, moved into one task, cannot be cloned or stored elsewhere", floor=4)
def r03_1(prog, out):
    R = roles(prog)
    A = prog.anchors
    for actor in (R.sub_actor, R.topic_actor):
        ty = actor.ty
        name = short_ty(ty)
        cons = prog.constructions(ty)
        key = "%s:constructed-once" % name
        if len(cons) == 1 and cons[0][0] == actor.start:
            out.holds(key, prog.loc(cons[0][0], cons[0][1]), "built only in %s" % prog.short(actor.start))
        else:
            out.violation(key, prog.loc(cons[0][0], cons[0][1]) if cons else "", "%s is constructed in %d place(s): %s" % (name, len(cons), [prog.short(c[0]) for c in cons]))
        # moved into exactly one spawned task
        bi = prog.info(actor.start)
        spawned = [s for s in bi.spawns if s.task == actor.loop]
        key = "%s:one-task" % name
        if len(bi.spawns) == 1 and spawned and spawned[0].kind == "detached":
            out.holds(key, bi.loc(spawned[0].bb), "the state is moved into the single spawned actor task")
        else:
            out.violation(key, prog.loc(actor.start), "%d task(s) are spawned over the actor state" % len(bi.spawns))
        # not Clone
        key = "%s:not-clone" % name
        if prog.facts.implements(ty, "::Clone"):
            out.violation(key, prog.facts.adt(ty)["span"], "%s implements Clone: a second owner of backlog/outstanding can exist" % name)
        else:
            out.holds(key, prog.facts.adt(ty)["span"], "%s is not Clone" % name)
        # no other type stores it (directly or behind Arc/Mutex)
        holders = []
        for path, adt in prog.facts.adts.items():
            if path == ty:
                continue
            for v in adt["variants"]:
                for f in v["fields"]:
                    if ty in f["ty"]:
                        holders.append("%s.%s" % (short_ty(path), f["name"]))
        key = "%s:not-stored" % name
        if holders:
            out.violation(key, "", "%s is stored in %s: handlers are no longer serialised by the mailbox alone" % (name, holders))
        else:
            out.holds(key, "", "no other type has a field of type %s" % name)
    # the state cells are not shareable: no Arc/Mutex/RwLock/RefCell around backlog / outstanding
    for f in ("backlog", "outstanding", "next_ack_id"):
        fty = A.field_ty("SubscriptionActor", f)
        key = "field-not-shared:%s" % f
        if any(w in fty for w in ("std::sync::Arc<", "Mutex<", "RwLock<", "RefCell<", "std::rc::Rc<")):
            out.violation(key, "", "SubscriptionActor.%s has type %s: it can be reached from outside the actor task" % (f, short_ty(fty)))
        else:
            out.holds(key, "", "owned plainly by the actor (%s)" % short_ty(fty))


@rule("C03", "R03.2", "pop and record happen without a suspension point in between", floor=1)
def r03_2(prog, out):
    R = roles(prog)
    for bid, effs in R.poppers():
        bi = prog.info(bid)
        recs = {e.bb for e in prog.effects(bid) if e.touches(R.t_messages) and e.kind in L.INSERT_KINDS}
        ys = set(bi.yields())
        key = "pop-record-atomic:%s" % prog.short(bid)
        if not ys:
            out.holds(key, prog.loc(bid), "the body never suspends (not a coroutine)")
            continue
        bad = None
        for e in effs:
            for y in ys:
                if bi.cfg.can_reach(e.bb, y, avoid=recs) and y != e.bb:
                    bad = (e.bb, y)
        if bad:
            out.violation(key, bi.loc(bad[1]), "the actor can suspend between popping a message and recording it as outstanding: another request may be "
                          "handled in between while the message is in neither structure")
        else:
            out.holds(key, prog.loc(bid), "no Yield between a pop and its record")


@rule("C03", "R03.3", "every hand-out uses a fresh ack id: read the counter, then advance it by AckId::next", floor=3)
@rule("C02", "R03.3", "every hand-out uses a fresh ack id: read the counter, then advance it by AckId::next", floor=3)
def r03_3(prog, out):
    R = roles(prog)
    A = prog.anchors
    ackid = A.ty("AckId")
    pm_new = A.ty("PulledMessage") + "::new"
    # (a) AckId::next is a strict increment
    nxt = None
    for b in prog.facts.lib_bodies():
        if b.impl_self == ackid and not b.impl_trait and b.kind == "AssocFn" and b.arg_count == 1 and b.local_ty(0) == ackid and b.local_ty(1) == "&" + ackid:
            nxt = b.id
            bi = prog.info(b.id)
            kind = "unknown"
            for blk in b.blocks:
                for s in blk.stmts:
                    if s.k == "assign" and s.rv.k == "bin":
                        kind = classify_bin(s.rv)
                t = blk.term
                if t.k == "call" and t.callee is not None:
                    n = t.callee.path.split("::")[-1]
                    if n in ("saturating_add", "wrapping_sub", "saturating_sub", "min", "max"):
                        kind = "bad"
                    elif n in ("wrapping_add", "checked_add") and len(t.args) > 1 and (t.args[1].const_int() or 0) >= 1:
                        kind = "inc"
            key = "ackid-next:%s" % prog.short(b.id)
            if kind == "inc":
                out.holds(key, prog.loc(b.id), "next() adds a positive constant (overflow-checked): strictly increasing, injective")
            elif kind == "bad":
                out.violation(key, prog.loc(b.id), "AckId::next is not a strict increment: two hand-outs can carry the same ack id")
            else:
                out.undecided(key, prog.loc(b.id), "shape of AckId::next not recognised")
    if nxt is None:
        raise CheckBroken("AckId successor function (fn(&AckId) -> AckId) not found")
    # (b) who writes the counter.  A method of the id type itself that steps a `&mut AckId` (fn advance(&mut self) -> AckId
    # { let cur = *self; *self = cur.next(); cur }) is the counter's own API: a call of it on the counter is a write *and* the read.
    steppers = {b.id: stepper_ok(prog, b.id, nxt) for b in prog.facts.lib_bodies()
                if b.impl_self == ackid and not b.impl_trait and b.kind == "AssocFn" and b.arg_count == 1 and b.local_ty(1) == "&mut " + ackid}
    writers = [(bid, e) for bid in R.actor_methods(R.sub_actor) for e in prog.effects(bid) if e.kind == "write" and e.touches(R.next_ack_id)
               and (prog.is_own(bid, e) or (len(e.chain) == 1 and e.chain[0][0] in steppers))]
    pop_ids = {bid for bid, _ in R.poppers()}
    for bid, e in writers:
        key = "counter-writer:%s" % prog.short(bid)
        if bid in pop_ids:
            out.holds(key, prog.loc(bid, e.bb), "the lease counter is only advanced where messages are handed out")
        else:
            out.violation(key, prog.loc(bid, e.bb), "%s rewrites the lease counter: ack ids can repeat" % prog.short(bid))
    # (c) in the popper: id of each delivery = read of the counter; the counter is overwritten with next(read) before the next read
    units = []
    for pid0 in pop_ids:
        units.append(pid0)
        # the delivery may be built in a closure of the handler (`batch.into_iter().map(|m| { let id = self.next_ack_id; .. })`)
        units += [c for c in prog.facts.descendants(pid0) if prog.facts.body(c) is not None and not prog.facts.body(c).coroutine
                  and any(True for _ in prog.info(c).calls(lambda cc: cc.target == pm_new))]
    for bid in units:
        bi = prog.info(bid)
        news = [(bb, t) for bb, t in bi.calls(lambda c: c.target == pm_new)]
        key = "fresh-id:%s" % prog.short(bid)
        if not news:
            if bid in pop_ids and not any(u != bid and prog.facts.body(u).root == (prog.facts.body(bid).root or bid) or
                                          (prog.facts.body(u).parent or "").startswith(bid) for u in units if u != bid):
                out.undecided(key, prog.loc(bid), "no PulledMessage::new in the popper")
            continue
        ws = [e for bid2, e in writers if bid2 == bid]
        if bid not in pop_ids:
            from props.c09 import cells_of_effect
            ws = [e for e in prog.effects(bid) if e.kind == "write" and not e.chain and R.next_ack_id in cells_of_effect(prog, bi, e)]
        for bb, t in news:
            o = prog.receiver_origin(bi, t.args[1])
            from props.c09 import cells_of
            if o.kind == "call" and not o.path and bi.call_at(o.data).callee is not None and prog.qual(bi.body, bi.call_at(o.data).callee.target) in steppers:
                st_call = bi.call_at(o.data)
                gid = prog.qual(bi.body, st_call.callee.target)
                recv = prog.receiver_origin(bi, st_call.args[0])
                if R.next_ack_id not in recv.cells():
                    out.violation(key, bi.loc(bb), "the delivery's ack id is stepped from something else than the lease counter (%r)" % recv)
                elif steppers[gid] is True:
                    out.holds(key, bi.loc(bb), "id = %s(&mut counter): returns the current value and advances the counter with AckId::next in one step" % prog.short(gid))
                else:
                    out.violation(key, prog.loc(gid), "%s does not hand out the current value and advance the counter by AckId::next: %s" % (prog.short(gid), steppers[gid]))
                continue
            lc = loop_carried_counter(prog, bi, t.args[1], R.next_ack_id, nxt, bb)
            if lc is True:
                out.holds(key, bi.loc(bb), "ids come from a local copy of the lease counter that is advanced with AckId::next per delivery and stored back "
                          "into the counter before the handler returns")
                continue
            if lc is not None:
                out.violation(key, bi.loc(bb), "the delivery's ack id comes from a local counter, but %s" % lc)
                continue
            if R.next_ack_id not in cells_of(prog, bi, o):
                out.violation(key, bi.loc(bb), "the delivery's ack id does not come from the lease counter (%r)" % o)
                continue
            if not ws:
                out.violation(key, bi.loc(bb), "the lease counter is never advanced: every delivery gets the same ack id")
                continue
            w = ws[0]
            # written value = AckId::next(<read of the counter>)
            st = bi.stmt(*w.extra)
            wo = bi.trace(st.rv.ops[0]) if st.rv.ops else None
            good_val = wo is not None and wo.kind == "call" and prog.qual(bi.body, bi.call_at(wo.data).callee.target) == nxt
            # on every path from the hand-out to the next iteration / exit the write happens (or already happened in this iteration)
            from props.c02 import iteration_exits, same_iteration_dominator
            covered = same_iteration_dominator(bi, w.bb, bb) or bi.cfg.escapes(bb, {w.bb}, iteration_exits(bi, bb)) is None
            if good_val and covered:
                out.holds(key, bi.loc(bb), "id read from the counter, counter advanced with AckId::next in the same iteration")
            elif not good_val:
                out.violation(key, bi.loc(w.bb), "the lease counter is not advanced with AckId::next of its current value")
            else:
                out.violation(key, bi.loc(bb), "a path hands out a message without advancing the lease counter: the next delivery reuses the ack id")


def loop_carried_counter(prog, bi, id_operand, counter_cell, nxt, new_bb):
    """`let mut next = self.next_ack_id; loop { let id = next; next = id.next(); .. } self.next_ack_id = next;`
    None: not this shape.  True: shape verified.  str: the shape, but broken in the way described."""
    o = bi.trace(id_operand)
    if o.kind != "local" or o.path or not isinstance(o.data, int):
        return None
    L = o.data
    defs = bi.defs.get(L, [])
    if len(defs) < 2:
        return None

    def is_L(op):
        oo = bi.trace(op)
        return oo.kind == "local" and oo.data == L and not oo.path

    inits, steps, other = [], [], []
    for (db, di) in defs:
        if di >= 0:
            st = bi.stmt(db, di)
            src = st.rv.ops[0] if st.rv.k == "use" and st.rv.ops else None
            if src is not None and src.place is not None:
                so = prog.receiver_origin(bi, src.place)
                if counter_cell in so.cells():
                    inits.append((db, di))
                    continue
                if so.kind == "call" and not so.path:
                    ct = bi.call_at(so.data)
                    if ct.callee is not None and prog.qual(bi.body, ct.callee.target) == nxt and ct.args and is_L(ct.args[0]):
                        steps.append((db, di))
                        continue
            other.append((db, di))
        else:
            ct = bi.body.blocks[db].term
            if ct.k == "call" and ct.callee is not None and prog.qual(bi.body, ct.callee.target) == nxt and ct.args and is_L(ct.args[0]):
                steps.append((db, di))
            else:
                other.append((db, di))
    if not inits:
        return None
    if other:
        return "the local counter is also assigned something else at %s" % bi.loc(other[0][0])
    if not steps:
        return "the local counter is never advanced with AckId::next: every delivery of a pull gets the same ack id"
    # every hand-out is followed by a step before the next hand-out
    step_bbs = {db for db, _ in steps}
    loops = bi.cfg.in_loop(new_bb)
    if loops and not any(bi.cfg.path(s, {new_bb}, avoid=step_bbs) is None for s in bi.cfg.succ[new_bb]) and \
            bi.cfg.path(new_bb, {new_bb}, avoid=step_bbs) is not None:
        pass
    for s0 in bi.cfg.succ[new_bb]:
        if not any(bi.cfg.dominates(sb, new_bb) and set(bi.cfg.in_loop(sb)) == set(loops) for sb in step_bbs):
            if bi.cfg.path(s0, {new_bb}, avoid=step_bbs) is not None:
                return "a path reaches the next hand-out without advancing the local counter"
    step_before = any(bi.cfg.dominates(sb, new_bb) and set(bi.cfg.in_loop(sb)) == set(loops) for sb in step_bbs)
    # written back
    wbs = []
    for e in prog.effects(bi.body.id):
        if e.kind == "write" and not e.chain and e.cells and e.cells[-1] == counter_cell and e.extra:
            st = bi.stmt(*e.extra)
            if st.rv.ops and is_L(st.rv.ops[0]):
                wbs.append(e.bb)
    if not wbs:
        return "the advanced value is never stored back into the lease counter: the next pull hands out the same ack ids again"
    from props.c12 import error_blocks
    if bi.cfg.escapes(new_bb, set(wbs) | error_blocks(bi)) is not None:
        return "a path returns without storing the advanced value back into the lease counter"
    if not step_before:
        # the counter is advanced after the hand-out: then no path from a hand-out may reach the store-back without the advance
        # (`if full { break }` placed before `next = next.next()` stores the id that was just handed out)
        p = bi.cfg.path(new_bb, set(wbs), avoid=step_bbs)
        if p is not None:
            return "a path (e.g. the `break` of a full batch) stores the counter back without advancing it past the id just handed out: the next pull reuses that ack id"
    return True


def stepper_ok(prog, gid, nxt):
    """fn(&mut AckId) -> AckId: True iff it returns the old value and stores AckId::next(old value) on every path"""
    bi = prog.info(gid)
    b = bi.body
    writes = [(blk.idx, i, s) for blk in b.blocks if not blk.cleanup for i, s in enumerate(blk.stmts)
              if s.k == "assign" and s.lhs.local == 1 and s.lhs.proj == ["deref"]]
    if len(writes) != 1:
        return "%d stores through the parameter" % len(writes)
    wbb, wi, ws = writes[0]
    wo = bi.trace(ws.rv.ops[0]) if ws.rv.ops else None
    if not (wo is not None and wo.kind == "call" and prog.qual(b, bi.call_at(wo.data).callee.target) == nxt):
        return "the stored value is not AckId::next(..)"
    arg = bi.trace(bi.call_at(wo.data).args[0])
    if not (arg.kind == "param" and arg.data == 1 and not arg.fields()):
        return "AckId::next is not applied to the current value"
    ret = bi.trace(0)
    if not (ret.kind == "param" and ret.data == 1 and not ret.fields()):
        return "the returned id is not the value the counter had before the step"
    if bi.cfg.escapes(0, {wbb}, after=False) is not None:
        return "a path returns without advancing the counter"
    return True


def removal_sources(prog, R, sl):
    """tracker removers, plus bodies whose return value is derived from a tracker removal (the expiry poll)"""
    removers = set(R.tracker_removers())
    out = set(removers)
    for b in prog.facts.lib_bodies():
        if b.id in out:
            continue
        rb = prog.facts.body(b.root) if b.root else b
        if (b.impl_self or (rb.impl_self if rb else None)) != prog.anchors.ty("OutstandingMessageTracker"):
            continue
        bi = prog.info(b.id)
        if any(prog.qual(b, t.callee.target) in removers for bb, t in bi.calls()):
            s0 = sl.of(b.id, 0)
            if s0.calls & removers:
                out.add(b.id)
    return out


ADAPTORS = {"collect", "map", "into_iter", "iter", "cloned", "copied", "filter_map", "flat_map", "flatten", "chain", "rev", "into_message", "clone", "to_vec",
            "unwrap_or_default", "unwrap_or", "unwrap_or_else", "from", "into", "extend", "drain", "by_ref", "take", "skip", "peekable", "fuse", "inspect", "enumerate",
            "from_iter", "into_boxed_slice", "into_vec", "as_slice", "deref", "borrow", "as_ref"}


def value_origins(prog, bid, operand, depth=0, seen=None):
    """the calls whose *result* the value is made of, followed through iterator adaptors, `?`, Option / Result payloads, the
    return value of local functions and the elements pushed into a vector built in place: [(body, bb, callee target)] ;
    ("param", body, n) for a parameter; None in the list when something could not be followed"""
    seen = seen if seen is not None else set()
    bi = prog.info(bid)
    out = []
    if bi is None or operand is None or depth > 8:
        return [None]
    if getattr(operand, "place", operand) is None:
        return []
    o = bi.trace(operand)
    key = (bid, o.kind, repr(o.data))
    if key in seen:
        return []
    seen.add(key)
    if o.kind == "param":
        return [("param", bid, o.data)]
    if o.kind == "call":
        t = bi.call_at(o.data)
        if t is None or t.callee is None:
            return [None]
        name = t.callee.path.split("::")[-1]
        tgt = prog.qual(bi.body, t.callee.target)
        fb = prog.facts.body(tgt)
        if name in ("new", "with_capacity", "default") and ("Vec" in t.callee.path or "VecDeque" in t.callee.path) and t.dest is not None and t.dest.is_local():
            # a vector built in place: what is pushed / extended into it
            fed = False
            for bb2, t2 in bi.calls(lambda c: c.path.split("::")[-1] in ("push", "push_back", "extend", "append", "insert") and ("Vec" in c.path or "VecDeque" in c.path or "Extend" in c.path)):
                r = bi.trace(t2.args[0]) if t2.args else None
                if r is not None and r.kind == "call" and r.data == o.data and len(t2.args) > 1:
                    fed = True
                    out += value_origins(prog, bid, t2.args[-1], depth + 1, seen)
            return out if fed else [None]
        if fb is not None and fb.crate == "lib" and not fb.coroutine and name not in ADAPTORS:
            if tgt in seen:
                return []
            # a local function: what its return value is made of -- unless it is itself a source the caller asks about
            return [(bid, o.data, tgt)]
        if name in ADAPTORS and t.args:
            for a in (t.args[:2] if name in ("chain", "extend") else t.args[:1]):
                out += value_origins(prog, bid, a, depth + 1, seen)
            return out
        return [(bid, o.data, tgt)]
    if o.kind == "agg":
        ag = bi.agg_at(o.data)
        for op in ag.ops:
            if op.place is not None:
                out += value_origins(prog, bid, op, depth + 1, seen)
        return out or [None]
    if o.kind == "local" and isinstance(o.data, int):
        defs = bi.defs.get(o.data, [])
        for (db, di) in defs:
            if di >= 0:
                st = bi.stmt(db, di)
                for x in st.rv.ops:
                    if x.place is not None:
                        out += value_origins(prog, bid, x, depth + 1, seen)
            else:
                t = bi.call_at(db)
                if t is not None and t.dest is not None:
                    out += value_origins(prog, bid, t.dest, depth + 1, seen) if False else [(bid, db, prog.qual(bi.body, t.callee.target) if t.callee is not None else None)]
        return out or [None]
    return [None]


def made_of_removals(prog, bid, operand, sources, depth=0, seen_fn=None):
    """True: every origin of the value is the result of a removal source; False: some origin is the result of something else that
    could be followed to the end; None: could not be followed"""
    seen_fn = seen_fn if seen_fn is not None else set()
    origins = value_origins(prog, bid, operand)
    verdicts = []
    for og in origins:
        if og is None:
            verdicts.append(None)
        elif og[0] == "param":
            verdicts.append(None)
        else:
            cb, cbb, tgt = og
            if tgt in sources:
                verdicts.append(True)
                continue
            fb = prog.facts.body(tgt) if tgt else None
            if fb is None or fb.crate != "lib" or depth > 4 or tgt in seen_fn:
                verdicts.append(False if fb is None and tgt and not str(tgt).startswith("crate::") else None)
                continue
            seen_fn.add(tgt)
            # the callee's return value
            fi = prog.info(tgt)
            from mir import Operand
            rets = []
            for (db, di) in fi.defs.get(0, []):
                if di >= 0:
                    st = fi.stmt(db, di)
                    rets += [x for x in st.rv.ops if x.place is not None]
                else:
                    t = fi.call_at(db)
                    if t is not None and t.callee is not None:
                        q = prog.qual(fi.body, t.callee.target)
                        verdicts.append(True if q in sources else None)
            for x in rets:
                verdicts.append(made_of_removals(prog, tgt, x, sources, depth + 1, seen_fn))
    if not verdicts:
        return None
    if any(v is False for v in verdicts):
        return False
    if all(v is True for v in verdicts):
        return True
    return None


def backlog_source(prog, R, sl, bid, operand, sources, post_targets, depth=0):
    """where does a value appended to the backlog come from?  ('post' | 'removal' | None, explanation)"""
    s = sl.of(bid, operand)
    precise = made_of_removals(prog, bid, operand, sources) if depth == 0 else None
    if precise is False and (s.calls & sources):
        # the whole-body slice reaches a removal (a callee sweeps the tracker on the side), but the value that is appended is made
        # of something else (the deliveries a pull just handed out): following the value decides
        return None, "the value appended is the result of something that is not a tracker removal (a removal only happens elsewhere in the callee)"
    if s.calls & sources:
        return "removal", "derived from %s" % sorted(prog.short(c) for c in s.calls & sources)[0]
    own = [r for r in s.roots if r[0] == "param" and r[1] == bid]
    if own and bid in post_targets:
        return "post", "the posted messages"
    if own and depth < 3:
        root = prog.facts.body(bid).root or bid
        kinds = set()
        n = 0
        for cid, cb in prog.facts.bodies.items():
            if cb.crate != "lib":
                continue
            ci = prog.info(cid)
            for cbb, t in ci.calls(lambda c: prog.qual(cb, c.target) == root):
                n += 1
                for r in own:
                    if r[2] - 1 < len(t.args):
                        k, why = backlog_source(prog, R, sl, cid, t.args[r[2] - 1], sources, post_targets, depth + 1)
                        kinds.add(k)
        if n and None not in kinds:
            return sorted(kinds)[0], "every caller passes a %s value" % "/".join(sorted(kinds))
    return None, "fields %s, calls %s" % (sorted(f[1] for f in s.fields)[:4], sorted(c.split("::")[-1] for c in s.calls)[:5])


@rule("C03", "R03.4", "a message re-enters the backlog only from a post or after its delivery left the outstanding set", floor=3)
@rule("C02", "R03.4", "a message re-enters the backlog only from a post or after its delivery left the outstanding set", floor=3)
def r03_4(prog, out):
    R = roles(prog)
    sl = Slicer(prog)
    post_targets = set(R.variant_targets(R.sub_actor, R.post_variant()))
    sources = removal_sources(prog, R, sl)
    for bid, effs in R.appenders():
        bi = prog.info(bid)
        key = "appender:%s" % prog.short(bid)
        e = effs[0]
        # the library call that inserts (possibly inside Messages::append): judge the argument handed over at this body's level
        t = bi.call_at(e.bb)
        if len(t.args) < 2:
            out.undecided(key, bi.loc(e.bb), "append call shape not recognised")
            continue
        kind, why = backlog_source(prog, R, sl, bid, t.args[1], sources, post_targets)
        if kind == "post":
            out.holds(key, bi.loc(e.bb), "new messages from the topic (post handler)")
        elif kind == "removal":
            out.holds(key, bi.loc(e.bb), "appends what left the outstanding set: %s" % why)
        else:
            out.violation(key, bi.loc(e.bb), "%s puts messages into the backlog that come neither from a post nor from a tracker removal (%s): "
                          "a message can be queued while a delivery of it is still outstanding" % (prog.short(bid), why))


@rule("C03", "R03.5", "one door: every consumer goes through the single lease request; nothing else pops the backlog", floor=4)
def r03_5(prog, out):
    R = roles(prog)
    pullv = R.pull_variant()
    cons = sorted({bid for bid, _, _, _ in prog.constructions(R.sub_actor.request, pullv)})
    # the door is the request *variant* (its handler is the only code that pops, below); it may be built by one handle method,
    # by sibling methods (`.._with_flow`), or in a handler a method was written into
    if cons:
        out.holds("lease-request-built", prog.loc(cons[0]), "%s build(s) the %s request" % (", ".join(prog.short(c) for c in cons), pullv))
    else:
        out.violation("lease-request-built", "", "the lease request is never built")
    # consumers: unary pull, streaming pull, push round
    want = {"pull": prog.handler("pull"), "streaming_pull": prog.handler("streaming_pull")}
    for name, h in want.items():
        if h is None:
            raise CheckBroken("handler %s not found" % name)
        cone = set(prog.cone(h.root, follow=("call", "closure", "poll")))
        # stream bodies are closures of the handler
        key = "consumer-door:%s" % name
        if any(c in cone for c in cons):
            out.holds(key, prog.loc(h.root), "reaches the lease request")
        else:
            out.violation(key, prog.loc(h.root), "%s does not obtain messages through the lease request" % name)
    push = [b.id for b in prog.facts.lib_bodies() if b.id.startswith("crate::push::push_loop::") and b.coroutine and any(c in set(prog.cone(b.id, follow=("call", "closure", "poll", "spawn"))) for c in cons)]
    if push:
        out.holds("consumer-door:push", prog.loc(push[0]), "the push round reaches the lease request")
    else:
        out.violation("consumer-door:push", "", "the push round does not obtain messages through the lease request")
    # nothing else removes from the backlog
    pop_ids = {bid for bid, _ in R.poppers()}
    for bid in R.actor_methods(R.sub_actor):
        rem = [e for e in prog.effects(bid) if e.touches(R.backlog) and e.kind in (L.REMOVE_KINDS | {"reorder"})]
        if rem and bid not in set(R.variant_targets(R.sub_actor, pullv)):
            out.violation("backlog-pop:%s" % prog.short(bid), prog.loc(bid, rem[0].bb), "%s removes from the backlog outside the lease request" % prog.short(bid))
    out.holds("backlog-pop", "", "backlog elements are removed only by the %s handler (%d body)" % (pullv, len(pop_ids)))
