"""C02 — acknowledgement is final and affects only that delivery (tracker pairing invariant)."""
from engine import rule, CheckBroken
from common import short_ty
from slicing import Slicer
import libmodel as L


def tracker_cells(prog):
    A = prog.anchors
    return A.cell("OutstandingMessageTracker", "messages"), A.cell("OutstandingMessageTracker", "expirations"), A.cell("OutstandingMessageTracker", "notify")


def direct(prog, bid, cell, kinds):
    """effects of the body's own statements, closures defined in it included"""
    return [e for e in prog.effects(bid) if prog.is_own(bid, e) and e.touches(cell) and e.kind in kinds]


def some_arm(bi, call_bb):
    """block entered when the Option returned by the call at call_bb is Some (None if there is no single such place);
    `if let`, `match`, `?` and `is_some()` are the same test (mapstate.presence_switches)"""
    from mapstate import some_entry
    return some_entry(bi, call_bb)


def deferred_pairing(prog, bi, e, partners):
    """the partner operation runs in a loop that iterates over the values removed at `e` (two-phase form)"""
    sl = Slicer(prog)
    for pb in partners:
        for h in bi.cfg.in_loop(pb):
            blocks = bi.cfg.loops()[h]
            for bb, t in bi.calls(lambda c: c.path == "std::iter::Iterator::next"):
                if bb in blocks and t.args:
                    s = sl.of(bi.body.id, t.args[0])
                    if (bi.body.id, e.bb) in s.sites or any((bi.body.id, x) in s.sites for x in [e.bb]):
                        return True
                    # removal inside a closure built at e.bb: the aggregate's block is a site of the slice through collect()
                    if any(site[0] != bi.body.id for site in s.sites) and bi.cfg.dominates(e.bb, bb):
                        return True
    return False


def iteration_exits(bi, bb):
    """a path 'leaves the iteration' at a return or at the header of a loop containing bb"""
    return set(bi.cfg.returns) | set(bi.cfg.in_loop(bb))


def same_iteration_dominator(bi, p, x):
    return bi.cfg.dominates(p, x) and set(bi.cfg.in_loop(p)) == set(bi.cfg.in_loop(x))


@rule("C03", "R02.1", "tracker pairing: the ack-id map and the expiry schedule are updated together on every path", floor=6)
@rule("C02", "R02.1", "tracker pairing: the ack-id map and the expiry schedule are updated together on every path", floor=6)
@rule("C01", "R02.1", "tracker pairing: the ack-id map and the expiry schedule are updated together on every path", floor=6)
@rule("C05", "R02.1", "tracker pairing: the ack-id map and the expiry schedule are updated together on every path", floor=6)
@rule("C04", "R02.1", "tracker pairing: the ack-id map and the expiry schedule are updated together on every path", floor=6)
def r02_1(prog, out):
    A = prog.anchors
    tracker = A.ty("OutstandingMessageTracker")
    messages, expirations, notify = tracker_cells(prog)
    # who may touch the two structures
    for bid, b in prog.facts.bodies.items():
        if b.crate != "lib":
            continue
        for e in prog.effects(bid):
            if e.chain or not (e.touches(messages) or e.touches(expirations)):
                continue
            if e.kind == "read" and b.impl_self == tracker:
                continue
            if e.kind in ("read", "read_first", "read_last", "len"):
                continue          # looking is not touching: the pairing invariant is about who mutates the two structures
            root_body = prog.facts.body(b.root) if b.root else b
            owner = b.impl_self or (root_body.impl_self if root_body is not None else None)
            # code spliced in from a (new) method of the tracker is the tracker's own code
            org = b.blocks[e.bb].origin
            ob = (prog.facts.body(org) or getattr(prog.facts, "inlined", {}).get(org)) if org else None
            if ob is not None:
                orb = (prog.facts.body(ob.root) or getattr(prog.facts, "inlined", {}).get(ob.root)) if ob.root else ob
                owner = ob.impl_self or (orb.impl_self if orb is not None else owner)
            if owner != tracker:
                out.violation("foreign-access:%s" % prog.short(bid), prog.loc(bid, e.bb), "%s accesses OutstandingMessageTracker.%s directly" % (prog.short(bid), e.cells[-1][1]))
    n = 0
    for b in prog.facts.lib_bodies():
        root_body = prog.facts.body(b.root) if b.root else b
        if (b.impl_self or (root_body.impl_self if root_body else None)) != tracker:
            continue
        if b.kind != "AssocFn" and not b.coroutine:
            continue      # plain closures are judged as part of the method that defines them
        bi = prog.info(b.id)
        ins_m = direct(prog, b.id, messages, L.INSERT_KINDS)
        ins_e = direct(prog, b.id, expirations, L.INSERT_KINDS)
        rem_m = direct(prog, b.id, messages, L.REMOVE_KINDS)
        rem_e = direct(prog, b.id, expirations, L.REMOVE_KINDS)
        clr_m = direct(prog, b.id, messages, {"clear"})
        clr_e = direct(prog, b.id, expirations, {"clear"})
        name = prog.short(b.id)
        for e in ins_m:
            n += 1
            partners = {x.bb for x in ins_e}
            key = "%s:insert(messages)=>insert(expirations)" % name
            if any(same_iteration_dominator(bi, p, e.bb) for p in partners) or (partners and bi.cfg.escapes(e.bb, partners, iteration_exits(bi, e.bb)) is None):
                out.holds(key, bi.loc(e.bb), "a delivery entering the map always gets its expiry entry")
            else:
                out.violation(key, bi.loc(e.bb), "a delivery is added to the ack-id map on a path that adds no expiry entry: it never expires")
        for e in ins_e:
            n += 1
            # an expiry entry is added either together with a map insert, or as the replacement of a removed key of a delivery that stays
            key = "%s:insert(expirations)" % name
            partners = {x.bb for x in ins_m} | {x.bb for x in rem_e}
            if any(same_iteration_dominator(bi, p, e.bb) for p in partners) or (partners and bi.cfg.escapes(e.bb, {x.bb for x in ins_m}, iteration_exits(bi, e.bb)) is None):
                out.holds(key, bi.loc(e.bb), "expiry entry added together with its delivery (or replacing the delivery's removed entry)")
            else:
                out.violation(key, bi.loc(e.bb), "an expiry entry is added without a delivery in the map: take_expired would find no message for it")
        for e in rem_m:
            n += 1
            partners = {x.bb for x in rem_e}
            key = "%s:remove(messages)=>remove(expirations)" % name
            start = some_arm(bi, e.bb)
            if any(same_iteration_dominator(bi, p, e.bb) for p in partners):
                out.holds(key, bi.loc(e.bb), "the delivery's expiry entry is removed first in the same step")
            elif partners and start is not None and bi.cfg.escapes(start, partners, iteration_exits(bi, e.bb), after=False) is None:
                out.holds(key, bi.loc(e.bb), "a removed delivery always has its expiry entry removed too")
            elif partners and start is None and bi.cfg.escapes(e.bb, partners, iteration_exits(bi, e.bb)) is None:
                out.holds(key, bi.loc(e.bb), "a removed delivery always has its expiry entry removed too")
            elif partners and deferred_pairing(prog, bi, e, partners):
                out.undecided(key, bi.loc(e.bb), "expiry entries are removed in a later loop over the removed deliveries (two-phase form): pairing holds "
                              "iff that loop visits every removed delivery, which path analysis does not establish")
            else:
                out.violation(key, bi.loc(e.bb), "a delivery can be removed from the ack-id map while its expiry entry stays behind: the stale entry later "
                              "expires a message that no longer exists (or resurrects an acknowledged one)")
        for e in rem_e:
            n += 1
            key = "%s:remove(expirations)" % name
            partners = {x.bb for x in rem_m} | {x.bb for x in ins_e}
            partners.discard(e.bb)
            start_e = some_arm(bi, e.bb)      # `let Some(k) = set.pop_first() else { break }`: only the Some arm removed anything
            if any(same_iteration_dominator(bi, p, e.bb) for p in {x.bb for x in rem_m}):
                out.holds(key, bi.loc(e.bb), "follows the removal of its delivery")
            elif partners and start_e is not None and bi.cfg.escapes(start_e, partners, iteration_exits(bi, e.bb), after=False) is None:
                out.holds(key, bi.loc(e.bb), "whenever an entry was taken, its delivery is removed too (or an entry is re-inserted)")
            elif partners and bi.cfg.escapes(e.bb, partners, iteration_exits(bi, e.bb)) is None:
                out.holds(key, bi.loc(e.bb), "every path removes the delivery or re-inserts an expiry entry for it")
            elif any(bi.cfg.dominates(x.bb, e.bb) and deferred_pairing(prog, bi, x, {e.bb}) for x in rem_m):
                out.undecided(key, bi.loc(e.bb), "runs in a loop over deliveries removed earlier (two-phase form): not decided by path analysis")
            else:
                out.violation(key, bi.loc(e.bb), "an expiry entry can be removed while its delivery stays in the map with no entry: that delivery never expires")
        for e in clr_m + clr_e:
            n += 1
            other = clr_e if e in clr_m else clr_m
            key = "%s:clear(%s)" % (name, e.cells[-1][1])
            partners = {x.bb for x in other}
            if partners and (any(bi.cfg.dominates(p, e.bb) for p in partners) or bi.cfg.escapes(e.bb, partners) is None):
                out.holds(key, bi.loc(e.bb), "both structures are cleared together")
            else:
                out.violation(key, bi.loc(e.bb), "only one of the two tracker structures is cleared")
    if n < 6:
        raise CheckBroken("only %d tracker mutation sites found" % n)


@rule("C02", "R02.2", "modify replaces the expiry entry using the old key, then re-inserts the new one", floor=1)
@rule("C01", "R02.2", "modify replaces the expiry entry using the old key, then re-inserts the new one", floor=1)
@rule("C05", "R02.2", "modify replaces the expiry entry using the old key, then re-inserts the new one", floor=1)
@rule("C04", "R02.2", "modify replaces the expiry entry using the old key, then re-inserts the new one", floor=1)
def r02_2(prog, out):
    A = prog.anchors
    tracker = A.ty("OutstandingMessageTracker")
    messages, expirations, notify = tracker_cells(prog)
    deadline = A.cell("PulledMessage", "deadline")
    found = 0
    for b in prog.facts.lib_bodies():
        rootb = prog.facts.body(b.root) if b.root else None
        if b.impl_self != tracker and not (rootb is not None and rootb.impl_self == tracker):
            continue
        # judged in the body that overwrites the deadline itself (directly or through the delivery's own setter), not in every
        # caller up the chain (`modify` -> closure -> `apply` -> `reschedule`)
        pm_ty = A.ty("PulledMessage")
        ws = [e for e in prog.effects(b.id) if e.kind == "write" and e.touches(deadline)
              and all((prog.facts.body(cb).impl_self if prog.facts.body(cb) is not None else None) == pm_ty for cb, _ in e.chain)]
        if not ws:
            continue
        found += 1
        bi = prog.info(b.id)
        w = ws[0].bb
        name = prog.short(b.id)
        rem_e = direct(prog, b.id, expirations, L.REMOVE_KINDS)
        ins_e = direct(prog, b.id, expirations, L.INSERT_KINDS)
        rem_m = direct(prog, b.id, messages, L.REMOVE_KINDS)

        def key_site(eff):
            t = bi.call_at(eff.bb)
            if len(t.args) < 2:
                return None
            o = bi.trace(t.args[1], through_clone=True)
            return o.data if o.kind == "call" else None

        key = "%s:old-key-removed" % name
        olds = [r for r in rem_e if bi.cfg.dominates(r.bb, w) or bi.cfg.can_reach(r.bb, w)]
        good = False
        bad_reason = "the old expiry entry is never removed when the deadline is modified"
        for r in rem_e:
            k = key_site(r)
            if k is None:
                continue
            if bi.cfg.dominates(k, w) and not bi.cfg.dominates(w, k):
                if bi.cfg.dominates(r.bb, w) or bi.cfg.escapes(w, {r.bb}, iteration_exits(bi, w)) is None:
                    good = True
            elif bi.cfg.dominates(w, k):
                bad_reason = "the expiry entry is removed with a key computed *after* the deadline was overwritten (the new key): the old entry stays behind"
        if good:
            out.holds(key, bi.loc(w), "the entry removed is keyed by the deadline read before the overwrite")
        else:
            out.violation(key, bi.loc(w), bad_reason)
        key = "%s:new-key-inserted" % name
        partners = set()
        for i in ins_e:
            k = key_site(i)
            if k is not None and bi.cfg.dominates(w, k):
                partners.add(i.bb)
        # ... or hands the modified delivery to a tracker method that files it again (`self.add(message)`: map entry + expiry entry
        # computed from the delivery's current deadline)
        for e2 in prog.effects(b.id):
            if e2.chain and e2.touches(expirations) and e2.kind in L.INSERT_KINDS and bi.cfg.can_reach(w, e2.bb) and e2.bb != w:
                t2 = bi.call_at(e2.bb)
                if t2 is not None and t2.callee is not None and t2.callee.impl_self == tracker:
                    partners.add(e2.bb)
        if partners and bi.cfg.escapes(w, partners, iteration_exits(bi, w)) is None:
            out.holds(key, bi.loc(w), "after the overwrite every path inserts the entry for the new deadline")
        else:
            out.violation(key, bi.loc(w), "after the deadline is overwritten a path leaves without inserting the new expiry entry (or inserts the stale key)")
    if not found:
        raise CheckBroken("no tracker body writes PulledMessage.deadline")


def ack_variant(prog):
    """the request variant carrying Vec<AckId> (and nothing else but the responder)"""
    A = prog.anchors
    actor = prog.actor_by_type("::SubscriptionActor")
    adt = prog.facts.adt(actor.request)
    for v in adt["variants"]:
        tys = [f["ty"] for f in v["fields"]]
        if any(t.startswith("std::vec::Vec<%s" % A.ty("AckId")) for t in tys):
            return actor, v["name"]
    raise CheckBroken("no request variant carries Vec<AckId>")


@rule("C02", "R02.3", "acknowledge touches only the tracker entries of the acknowledged ids", floor=1)
def r02_3(prog, out):
    A = prog.anchors
    actor, vname = ack_variant(prog)
    messages, expirations, notify = tracker_cells(prog)
    allowed = {messages, expirations, notify}
    vh = actor.variants[vname]
    if not vh.calls:
        raise CheckBroken("ack handler has no call")
    for (bb, tgt) in vh.calls:
        tid = prog.qual(prog.facts.body(actor.dispatch), tgt)
        bad = []
        for e in prog.effects(tid):
            if e.kind in ("read", "read_first", "read_last", "handle", "notified", "oneshot_send"):
                continue
            if e.kind in ("mpsc_send", "mpsc_try_send", "spawn_detached"):
                bad.append(e)
                continue
            if not e.cells or e.root[0] not in ("param", "upvar"):
                continue
            if not any(c in allowed for c in e.cells):
                # only state the properties talk about: the actor's anchored fields.  A field added next to them (a statistics
                # counter nothing reads back) is not the subscription's delivery state.
                actor_ty = A.ty("SubscriptionActor")
                from anchors import FIELDS
                if any(c[0] == actor_ty and c[1] not in FIELDS["SubscriptionActor"] for c in e.cells):
                    continue        # bookkeeping next to the delivery state (a counter, a per-message attempt count pruned on ack)
                tr_ty = A.ty("OutstandingMessageTracker")
                if any(c[0] == tr_ty and c[1] not in FIELDS["OutstandingMessageTracker"] for c in e.cells):
                    continue        # a field the tracker keeps about its own map (bounds of the live ids, a size): R02.8 judges how it is used
                bad.append(e)
        key = "ack-handler:%s" % prog.short(tid)
        if bad:
            e = bad[0]
            out.violation(key, prog.loc(*e.leaf()), "acknowledging also performs `%s` on %s: an ack must only retire the acknowledged deliveries"
                          % (e.kind, ".".join(c[1] for c in e.cells) or e.lib))
        else:
            out.holds(key, prog.loc(tid), "effects confined to the tracker's map, schedule and timer notify")


@rule("C02", "R02.4", "unknown / stale ack ids fall through without any effect", floor=2)
@rule("C05", "R02.4", "unknown / stale ack ids fall through without any effect", floor=2)
@rule("C04", "R02.4", "unknown / stale ack ids fall through without any effect", floor=2)
def r02_4(prog, out):
    A = prog.anchors
    tracker = A.ty("OutstandingMessageTracker")
    messages, expirations, notify = tracker_cells(prog)
    n = 0
    for b in prog.facts.lib_bodies():
        if b.impl_self != tracker:
            continue
        bi = prog.info(b.id)
        # a lookup hidden in an iterator adapter that stops at the first miss
        for bb, t in bi.calls(lambda c: c.path.split("::")[-1] in ("map_while", "take_while", "scan", "try_for_each", "try_fold")):
            o = bi.trace(t.args[1]) if len(t.args) > 1 else None
            if o is not None and o.kind == "agg":
                cid = prog.qual(b, bi.agg_at(o.data).j["def"])
                if any(x.touches(messages) and x.chain and x.chain[0][0] == cid for x in prog.effects(b.id)):
                    n += 1
                    out.violation("%s:%s" % (prog.short(b.id), t.callee.path.split("::")[-1]), bi.loc(bb),
                                  "ack ids are looked up inside %s(): the first id that is not outstanding ends the whole batch, the ids after it are silently ignored" % t.callee.path.split("::")[-1])
        # lookups by ack id: remove(&id) / entry(id) / get_mut(&id) / get(&id) / contains_key(&id)
        from mapstate import presence_switches, LOOKUPS
        seen_lookup = set()
        if any((b.local_ty(i) or "") == A.ty("PulledMessage") for i in range(1, b.arg_count + 1)):
            continue      # the method that starts tracking a new delivery (its id is the server's own, never "unknown")
        for e in [x for x in prog.effects(b.id) if not x.chain and x.touches(messages) and x.kind in (L.REMOVE_KINDS | {"handle", "read"})]:
            t = bi.call_at(e.bb)
            if t.k != "call" or t.callee is None or e.bb in seen_lookup:
                continue
            p = t.callee.path
            last = p.split("::")[-1]
            if p.endswith("HashMap::<K, V, S, A>::remove"):
                lk = "option"
            elif "HashMap::<K, V, S, A>::" in p and last in LOOKUPS:
                lk = LOOKUPS[last]
            else:
                continue
            seen_lookup.add(e.bb)
            sws = presence_switches(bi, e.bb, lk)
            found = [pt for (_, pt, _) in sws if pt is not None]
            arm = bi._skip_false(found[0]) if len(found) == 1 else None
            missing = [at for (_, _, at) in sws if at not in (None, "self")]
            found_region = set()
            for (sw, pt, _) in sws:
                if pt is not None:
                    found_region |= bi.cfg.edge_dominated(sw, pt)
            # a second lookup of the same id under the `found` arm of an earlier one (get_mut .. then remove) asks nothing new
            _absent, present_all = __import__("mapstate").regions(prog, bi, messages)
            if e.bb in present_all and e.bb not in {x for (sw0, p0, a0) in sws for x in ()}:
                # (whether or not its own result is matched again: `if let Some(m) = map.remove(&id)` inside
                # `let Some(m) = map.get_mut(&id) else { continue }` is the same question asked twice)
                earlier = [x for x in prog.effects(b.id) if not x.chain and x.touches(messages) and x.bb != e.bb and x.kind in (L.REMOVE_KINDS | {"handle", "read"})
                           and bi.cfg.dominates(x.bb, e.bb)]
                if earlier:
                    continue
            ks = Slicer(prog).of(b.id, t.args[1]) if len(t.args) > 1 else None
            if ks is not None and any("BTreeSet" in c for c in ks.calls):
                continue   # keyed by an entry of the schedule itself (expiry), not by a client-supplied id
            n += 1
            key = "%s:%s" % (prog.short(b.id), p.split("::")[-1])
            if arm is None:
                out.undecided(key, bi.loc(e.bb), "lookup result is not matched directly")
                continue
            # in the same loop iteration, every other mutation lies under the found arm
            loop = set(bi.cfg.in_loop(e.bb))
            body_blocks = None
            if loop:
                h = sorted(loop)[-1]
                body_blocks = bi.cfg.loops()[h]
            muts = []
            for x in prog.effects(b.id):
                if x.chain and x.kind not in ("write",):
                    pass
                if x.bb == e.bb or x.kind in ("read", "read_first", "handle", "notified"):
                    continue
                if not (x.touches(messages) or x.touches(expirations)):
                    continue
                if x.kind not in L.MUTATING_KINDS:
                    continue
                if body_blocks is not None and x.bb not in body_blocks:
                    continue
                muts.append(x)
            bad = [x for x in muts if x.bb not in found_region and not bi.cfg.dominates(arm, x.bb)]
            # the not-found arm must go on with the next id: it may not leave the loop
            stops = None
            if loop:
                h = sorted(loop)[-1]
                lb = bi.cfg.loops()[h]
                for s in missing:
                    # from the not-found arm: can an exit of the loop be reached without passing the header?
                    exits = {x for x in bi.cfg.reach if x not in lb}
                    pth = bi.cfg.path(s, exits, avoid={h})
                    if pth is not None:
                        stops = pth
            if bad:
                out.violation(key, bi.loc(bad[0].bb), "a tracker mutation (%s) happens even when the ack id is not outstanding" % bad[0].kind)
            elif stops is not None:
                out.violation(key, bi.loc(stops[0]), "an unknown or stale ack id ends the processing of the whole batch: the ids listed after it are silently ignored "
                              "although the call reports success", ["bb%d (%s)" % (x, bi.loc(x)) for x in stops][:6])
            else:
                out.holds(key, bi.loc(e.bb), "all %d mutation(s) of the step are under the `found` arm; an unknown id just moves on to the next one" % len(muts))
    # every mutation of the methods on the ack / modify paths sits under the `found` arm of a lookup by id:
    # bulk operations (clear, drain, retain) there act on deliveries the request did not name
    actor = prog.actor_by_type("::SubscriptionActor")
    on_path = set()
    if actor is not None:
        for vname, vh in actor.variants.items():
            fields = [f["ty"] for v in prog.facts.adt(actor.request)["variants"] if v["name"] == vname for f in v["fields"]]
            if not any(A.ty("AckId") in t or A.ty("DeadlineModification") in t for t in fields):
                continue
            for (bb, tgt) in vh.calls:
                tid = prog.qual(prog.facts.body(actor.dispatch), tgt)
                for cid in prog.cone(tid, follow=("call", "closure")):
                    cb = prog.facts.body(cid)
                    if cb is not None and cb.impl_self == tracker and cb.kind == "AssocFn":
                        on_path.add(cid)
    for cid in sorted(on_path):
        bi = prog.info(cid)
        arms = set()
        for e in prog.effects(cid):
            if e.chain or not e.touches(messages):
                continue
            t = bi.call_at(e.bb) if bi.body.blocks[e.bb].term.k == "call" else None
            if t is None or t.callee is None:
                continue
            arm = some_arm(bi, e.bb) if t.callee.path.endswith("HashMap::<K, V, S, A>::remove") else occupied_arm(bi, e.bb) if t.callee.path.endswith("::entry") else None
            if arm is not None:
                arms.add(arm)
        for e in prog.own_effects(cid):
            if not (e.touches(messages) or e.touches(expirations)) or e.kind not in L.MUTATING_KINDS:
                continue
            if e.kind in ("remove", "handle") and e.touches(messages) and not e.chain and some_arm(bi, e.bb) is not None:
                continue   # the lookup itself
            n += 1
            key = "%s:keyed:%s@%s" % (prog.short(cid), e.lib.split("::")[-1], e.cells[-1][1])
            if any(bi.cfg.dominates(a, e.bb) for a in arms):
                out.holds(key, bi.loc(e.bb), "under the `found` arm of a lookup by ack id", nontrivial=False)
            elif e.kind in ("clear",) or e.lib.split("::")[-1] in ("drain", "retain", "clear", "split_off", "truncate"):
                out.violation(key, bi.loc(e.bb), "`%s` on the tracker's %s on the acknowledge / modify path is not keyed by an ack id of the request: deliveries the "
                              "request did not name are retired (or lose their expiry entry)" % (e.lib.split("::")[-1], e.cells[-1][1]))
            else:
                out.undecided(key, bi.loc(e.bb), "mutation outside a found arm")
    if n < 2:
        raise CheckBroken("expected the ack-id lookups of remove() and modify(), found %d" % n)


def occupied_arm(bi, call_bb):
    t = bi.body.blocks[call_bb].term
    if t.dest is None or not t.dest.is_local() or t.target is None:
        return None
    nb = bi.body.blocks[t.target]
    sw = nb.term
    if sw.k != "switch":
        return None
    for s in nb.stmts:
        if s.k == "assign" and s.rv.k == "discr" and s.rv.place.is_local() and s.rv.place.local == t.dest.local:
            arms = dict(sw.arms)
            # Entry::Occupied is variant 0
            if 0 in arms:
                return bi._skip_false(arms[0])
            return bi._skip_false(sw.otherwise) if 1 in arms else None
    return None


@rule("C02", "R02.5", "unary and streaming acknowledgements go through one sink with ids from the ack-id parser", floor=3)
def r02_5(prog, out):
    A = prog.anchors
    actor, vname = ack_variant(prog)
    cons = prog.constructions(actor.request, vname)
    sinks = sorted({bid for bid, _, _, _ in cons})
    # the request is built by methods of the subscription handle only (one, or siblings such as `.._with_outcome`): every one
    # of them is a sink whose callers are judged below
    handle = A.ty("Subscription")

    def in_handle(bid):
        return prog.facts.body(prog.facts.body(bid).root or bid).impl_self == handle

    if not sinks:
        raise CheckBroken("the ack request is never built")
    out.holds("ack-request-constructed", prog.loc(sinks[0]), "the ack request is built by %s" % ", ".join(prog.short(s) for s in sinks))
    sink_roots = {prog.facts.body(s).root or s for s in sinks if in_handle(s)}
    sl = Slicer(prog)
    # entry points: calls of the handle's sink method(s) from outside them, and places outside the handle where the request is
    # built directly (a sibling method written -- or spliced -- into a handler)
    entries = []
    for bid, b in prog.facts.bodies.items():
        bi = prog.info(bid)
        if (b.root or bid) in sink_roots:
            continue          # one sink delegating to another
        for bb, t in bi.calls(lambda c: prog.qual(b, c.target) in sink_roots):
            entries.append((bid, bb, t.args[1]))
    for (bid, bb, i, rv) in cons:
        if not in_handle(bid):
            tys = [prog.info(bid).body.operand_ty(op) or "" for op in rv.ops]
            ids = [op for op, ty in zip(rv.ops, tys) if ty.startswith("std::vec::Vec<%s" % A.ty("AckId"))]
            if ids:
                entries.append((bid, bb, ids[0]))
    n = 0
    for bid, bb, ids in entries:
        bi = prog.info(bid)
        n += 1
        s = sl.of(bid, ids)
        if "crate::api::parser::parse_ack_id" not in s.calls and any(r[0] in ("param", "upvar") for r in s.roots):
            s = sl.of_resolved(bid, ids)      # the ids arrive as a field of a value built by the caller
        key = "ack-caller:%s" % prog.short(bid)
        from common import skipped_only_when_empty
        from slicing import through_channels
        via = None
        if "crate::api::parser::parse_ack_id" not in s.calls:
            via = through_channels(prog, sl, bid, s)      # the ids were parsed by a reader and queued for a worker task
            if via is not None:
                s = via
        sk = skipped_only_when_empty(prog, bi, bb, ids)
        if sk is not None and via is not None:
            out.undecided(key + ":applied", bi.loc(sk[0]), "acknowledgements are applied by a worker fed through a queue: " + sk[1] + " (whether that path is only taken "
                          "when the subscription refuses further work is not decided)")
        elif sk is not None:
            out.violation(key + ":applied", bi.loc(sk[0]), "acknowledgements: " + sk[1])
        if "crate::api::parser::parse_ack_id" in s.calls:
            out.holds(key, bi.loc(bb), "ids come from the ack-id parser")
        elif any(f == A.cell("PulledMessage", "ack_id") or f[1] == "ack_id" for f in s.fields) or A.ty("PulledMessage") + "::ack_id" in s.calls:
            out.holds(key, bi.loc(bb), "id of a delivery the server handed out itself (push dispatch)")
        else:
            out.violation(key, bi.loc(bb), "acknowledged ids do not come from the ack-id parser (%s)" % sorted(c.split('::')[-1] for c in s.calls)[:5])
    if n < 3:
        raise CheckBroken("expected 3 callers of the ack sink (unary, streaming, push), found %d" % n)


CUTTING = {"chunks", "chunks_exact", "take", "skip", "split_at", "split_off", "drain", "truncate", "step_by", "windows", "filter", "partition",
           "flat_map", "filter_map", "flatten", "take_while", "skip_while", "map_while", "dedup", "dedup_by_key", "retain", "pop", "swap_remove",
           "find_map", "find", "last", "first", "nth", "binary_search", "position", "split_first", "split_last", "unzip", "partition_in_place"}


@rule("C02", "R02.6", "every id of an acknowledge request reaches the tracker: no id is filtered out or skipped on the way", floor=1)
def r02_6_ack(prog, out):
    r02_6(prog, out, "AckId")


@rule("C05", "R02.6", "every modification of a modify-deadline request reaches the tracker: none is filtered out or skipped on the way", floor=1)
def r02_6_modify(prog, out):
    r02_6(prog, out, "DeadlineModification")


def r02_6(prog, out, elem):
    """`Acknowledge(ids)` retires every listed delivery that is outstanding; which ids are `stale` is the tracker's decision (its
    map is the only authority, R02.4).  A handler that drops ids before the tracker sees them (a `stale id` fast path, a
    prefix cut, an early return when some unrelated condition holds) answers Ok for deliveries that stay outstanding and are
    redelivered.  Rule: in the handler of a request carrying ack ids, the tracker operation (a) receives the request's vector
    through element-preserving steps only and (b) is executed on every normal path except under the actor's own `deleted`
    flag (or when the batch is known to be empty)."""
    from actorlib import roles
    from props.c11 import flag_regions
    from props.c12 import error_blocks
    R = roles(prog)
    A = prog.anchors
    sl = Slicer(prog)
    actor = R.sub_actor
    tracker = A.ty("OutstandingMessageTracker")
    messages, expirations, notify = tracker_cells(prog)
    flag = A.cell("SubscriptionActor", "deleted", optional=True)
    adt = prog.facts.adt(actor.request)
    n = 0
    for v in adt["variants"]:
        tys = [f["ty"] for f in v["fields"]]
        if not any(t.startswith("std::vec::Vec<%s" % A.ty(elem)) for t in tys):
            continue
        for tid in R.variant_targets(actor, v["name"]):
            bi = prog.info(tid)
            b = bi.body
            ops = []
            for bb, t in bi.calls(lambda c: c.impl_self == tracker or (c.target or "").startswith(tracker + "::")):
                cid = prog.qual(b, t.callee.target)
                if any(e.touches(messages) and e.kind in (L.REMOVE_KINDS | {"handle", "write"}) for e in prog.effects(cid)):
                    ops.append((bb, t))
            key = "%s:all-ids" % prog.short(tid)
            if not ops:
                # the tracker's maps are updated in this body itself (handler merged with the tracker method): judged by R02.1/R02.4
                own = [e for e in prog.effects(tid) if e.touches(messages) and e.kind in L.REMOVE_KINDS]
                if own:
                    out.undecided(key, prog.loc(tid), "the handler updates the tracker's map itself; per-id coverage not decided here")
                else:
                    out.violation(key, prog.loc(tid), "the handler of %s never applies its ids to the outstanding-delivery tracker" % v["name"])
                n += 1
                continue
            for bb, t in ops:
                n += 1
                arg = [a for a in t.args[1:]]
                if not arg:
                    out.undecided(key, bi.loc(bb), "tracker operation without an id argument")
                    continue
                s = sl.of(tid, arg[0])
                from_req = any(r[0] == "param" and r[1] == tid and r[2] >= 2 for r in s.roots)
                cut = sorted({c.split("::")[-1] for c in s.calls} & CUTTING)
                _fa, deleted_blocks = flag_regions(prog, bi, flag)
                esc = bi.cfg.escapes(0, {bb} | deleted_blocks | error_blocks(bi), after=False)
                if not from_req:
                    out.violation(key, bi.loc(bb), "the ids handed to the tracker are not the request's ids")
                elif cut:
                    out.violation(key, bi.loc(bb), "the request's ids pass through %s before the tracker sees them: an id that is outstanding can be dropped, "
                                  "the request is answered Ok and the delivery is redelivered anyway" % cut)
                elif esc is not None:
                    from common import skipped_only_when_empty
                    sk = skipped_only_when_empty(prog, bi, bb, arg[0])
                    if sk is None and _only_empty_skips(prog, bi, bb, arg[0], deleted_blocks):
                        out.holds(key, bi.loc(bb), "applied on every path unless the batch is empty or the subscription is deleted")
                    else:
                        out.violation(key, bi.loc(esc[-1]), "a path answers the request without handing its ids to the tracker (and not because the subscription is "
                                      "deleted): outstanding deliveries named in the request stay outstanding")
                else:
                    out.holds(key, bi.loc(bb), "the request's id vector reaches %s whole, on every path of a live subscription" % t.callee.path.split("::")[-1])
    if n == 0:
        raise CheckBroken("no request variant carrying ack ids has a handler")


def _only_empty_skips(prog, bi, call_bb, operand, also_ok):
    """every normal path from the entry reaches the call, an `is_empty() == true` region of the batch, or `also_ok`"""
    from mapstate import _bool_switches
    from props.c12 import error_blocks
    key = bi.trace(operand).key()
    empty = set()
    for bb, t in bi.calls(lambda c: c.path.endswith("::is_empty")):
        if not t.args or t.dest is None or not t.dest.is_local() or bi.trace(t.args[0]).key() != key:
            continue
        for sw, tr, fa in _bool_switches(bi, t.dest.local):
            if tr is not None:
                empty |= bi.cfg.edge_dominated(sw, tr)
    return bool(empty) and bi.cfg.escapes(0, {call_bb} | empty | also_ok | error_blocks(bi), after=False) is None


@rule("C02", "R02.7", "a request that is answered Ok has had its ack ids parsed: no early success in front of the parse", floor=2)
def r02_7(prog, out):
    """as R05.7, for the ack ids of Acknowledge and of a StreamingPull control message: in every body that hands the request's
    ids to the ack-id parser (directly or through an iterator closure), each normal path to the return passes that point"""
    from props.c05 import _early_success
    pa = "crate::api::parser::parse_ack_id"
    if prog.facts.body(pa) is None:
        raise CheckBroken("ack-id parser not found")
    n = 0
    # request-facing bodies only: the handlers, their nested closures / awaited local coroutines (a batch parser that calls
    # the ack-id parser per element is judged through the handler that calls it: R05.7)
    facing = set()
    for h in prog.handlers:
        if h.root is not None:
            facing |= {c for c in prog.cone(h.root, follow=("closure", "poll", "spawn", "spawn-joinset")) if not c.startswith("crate::api::parser::")}
    for b in prog.facts.lib_bodies():
        if b.id == pa or (b.kind == "Closure" and not b.coroutine) or b.id not in facing:
            continue
        bi = prog.info(b.id)
        sites = [bb for bb, t in bi.calls(lambda c: prog.qual(bi.body, c.target) == pa)]
        # closures built in this body that call the parser (wherever the closure was written: a spliced helper's closure keeps
        # its own id): the block that builds the closure for the adapter
        for blk in bi.body.blocks:
            if blk.cleanup:
                continue
            for st in blk.stmts:
                if st.k == "assign" and st.rv.k == "agg" and st.rv.j.get("ak") == "closure":
                    cid = prog.qual(bi.body, st.rv.j["def"])
                    ci = prog.info(cid)
                    if ci is not None and any(prog.qual(ci.body, t.callee.target) == pa for _bb, t in ci.calls(lambda c: c.local or c.res_local)):
                        sites.append(blk.idx)
        # `map(parse_ack_id)` -- the parser passed as a fn item
        for bb, t in bi.calls():
            if any(a.place is None and (a.const.get("fn") or "") == pa for a in t.args):
                sites.append(bb)
        if not sites:
            continue
        n += 1
        key = "parsed-on-every-path:%s" % prog.short(b.id)
        esc = _early_success(prog, bi, sites)
        if esc is not None:
            out.violation(key, bi.loc(esc[-1]), "a path answers without an error before the ack ids of the message are parsed: the acknowledgements are dropped silently",
                          ["path: " + " -> ".join(str(x) for x in esc[:12])])
        else:
            out.holds(key, bi.loc(sites[0]), "every normal path parses the ack ids")
    if n < 2:
        raise CheckBroken("expected the unary and the streaming user of the ack-id parser, found %d" % n)


def bound_provenance(prog, bid, bi, site, messages, expirations):
    """the switch at `site` compares the requested id with tracker fields; "from-map" when every value ever written to those
    fields derives from the map's own keys (a key being inserted, `keys()`, `contains_key`, the field itself) and never from an
    entry that is being taken out (a popped expiry, a removed delivery); "from-removed" / "unknown" otherwise"""
    A = prog.anchors
    tracker = A.ty("OutstandingMessageTracker")
    sl = Slicer(prog)
    t = bi.body.blocks[site].term
    if t.k != "switch" or t.discr is None or t.discr.place is None:
        return "unknown"
    sd = sl.of(bid, t.discr)
    from anchors import FIELDS
    bounds = {f for f in sd.fields if f[0] == tracker and f[1] not in FIELDS["OutstandingMessageTracker"]}
    if not bounds:
        return "unknown"
    # (the slicer follows `self` as a whole, so the provenance of the written value cannot be told apart precisely; what can be
    # told is *who* writes the bound: a bound that the inserting operation widens follows what is in the map, a bound that only
    # the removing operations move follows what left it)
    writers = set()
    for b in prog.facts.lib_bodies():
        if b.impl_self != tracker:
            continue
        for e in prog.effects(b.id):
            if e.kind == "write" and e.cells and e.cells[-1] in bounds:
                writers.add(b.id)
    inserters = {b.id for b in prog.facts.lib_bodies() if b.impl_self == tracker and any(
        e.touches(messages) and e.kind in L.INSERT_KINDS and not e.chain for e in prog.effects(b.id))}
    if not writers:
        return "unknown"
    if writers & inserters:
        return "from-map"
    return "from-removed"


def _r02_8(prog, out):
    """R02.6 follows every id of a request from the API to the tracker.  Inside the tracker the same question remains: the loop
    over the requested ids has to put each of them to the ack-id map -- the only thing that may decide `not outstanding`.  A
    shortcut in front of the lookup (a low-water mark of `already expired` ids, a bloom filter, a generation compare) decides
    on something else: a delivery that is still outstanding is silently neither acknowledged nor modified, and the caller is
    told OK.  Instances: every by-id operation of the tracker that loops over client-supplied ids."""
    from mapstate import LOOKUPS
    A = prog.anchors
    tracker = A.ty("OutstandingMessageTracker")
    messages, expirations, notify = tracker_cells(prog)
    n = 0
    for b in prog.facts.lib_bodies():
        if b.impl_self != tracker or b.kind != "AssocFn":
            continue
        if any((b.local_ty(i) or "") == A.ty("PulledMessage") for i in range(1, b.arg_count + 1)):
            continue
        takes_ids = any(A.ty("AckId") in (b.local_ty(i) or "") or A.ty("DeadlineModification") in (b.local_ty(i) or "") or "impl " in (b.local_ty(i) or "") or
                        (b.local_ty(i) or "") in ("I", "T") for i in range(1, b.arg_count + 1))
        if not takes_ids:
            continue
        bi = prog.info(b.id)
        loops = bi.cfg.loops()
        looks = []
        for e in prog.effects(b.id):
            if not e.touches(messages) or e.kind not in (L.REMOVE_KINDS | {"handle", "read"}):
                continue
            last = e.lib.split("::")[-1]
            if "HashMap" not in e.lib or not (last in LOOKUPS or last in ("remove", "remove_entry")):
                continue
            looks.append(e.bb)
        if not looks:
            continue
        for h, blocks in loops.items():
            inl = [x for x in looks if x in blocks]
            nexts = [bb for bb, t in bi.calls(lambda c: c.path == "std::iter::Iterator::next") if bb in blocks and h in bi.cfg.in_loop(bb)]
            if not inl or not nexts:
                continue
            # innermost loop only
            if any(set(b2) < set(blocks) and any(x in b2 for x in inl) for h2, b2 in loops.items() if h2 != h):
                continue
            n += 1
            key = "id-reaches-map:%s" % prog.short(b.id)
            start = some_arm(bi, nexts[0])
            if start is None:
                out.undecided(key, bi.loc(nexts[0]), "the loop over the requested ids is not a plain iterator loop")
                continue
            esc = bi.cfg.escapes(start, set(inl), iteration_exits(bi, inl[0]), after=False)
            if esc is None:
                out.holds(key, bi.loc(inl[0]), "every requested id is put to the ack-id map; only the map decides that it is not outstanding")
            else:
                site = esc[-1]
                for x in esc:
                    if bi.body.blocks[x].term.k == "switch":
                        site = x
                        break
                verdict = bound_provenance(prog, b.id, bi, site, messages, expirations)
                if verdict == "from-map":
                    out.undecided(key, bi.loc(site), "ids outside a range the tracker keeps about the keys of its own map are passed over without a lookup; the range is only "
                                  "ever written from what is in the map (an inserted key, a reading of the keys): that it always covers every live id is an invariant "
                                  "of that bookkeeping, not decided here")
                    continue
                out.violation(key, bi.loc(site), "an id of the request can be passed over without being looked up in the ack-id map (a test in front of the lookup decides): "
                              "a delivery that is still outstanding is neither acknowledged nor modified although the call reports success",
                              ["bb%d (%s)" % (x, bi.loc(x)) for x in esc][:8])
    if n == 0:
        out.undecided("id-reaches-map", "", "no tracker operation loops over client-supplied ids with a lookup in the loop (iterator pipelines are judged by R02.4)")


@rule("C02", "R02.8", "inside the tracker every requested ack id is put to the ack-id map: nothing in front of the lookup decides to skip it", floor=1)
def r02_8_c02(prog, out):
    _r02_8(prog, out)


@rule("C05", "R02.8", "inside the tracker every requested ack id is put to the ack-id map: nothing in front of the lookup decides to skip it", floor=1)
def r02_8_c05(prog, out):
    _r02_8(prog, out)


def _r02_9(prog, out):
    """The ack id travels as text: `Display` writes it into every delivery, `AckId::parse` reads it back from Acknowledge /
    ModifyAckDeadline / StreamingPull.  `acknowledging the ID you were given retires that delivery and no other` needs the two
    to be inverse: one radix on both sides, and a parser that tries exactly that reading -- a parser that tries decimal first
    and hexadecimal second reads the hex token "10" (delivery 16) as delivery 10."""
    A = prog.anchors
    ack = A.ty("AckId")
    disp = [b.id for b in prog.facts.lib_bodies() if b.impl_self == ack and b.impl_trait == "std::fmt::Display" and b.id.endswith("::fmt")]
    parsers = [b.id for b in prog.facts.lib_bodies() if b.impl_self == ack and b.kind == "AssocFn" and not b.impl_trait and b.arg_count == 1
               and (b.local_ty(1) or "") == "&str" and ack in (b.local_ty(0) or "")]
    if not disp or not parsers:
        raise CheckBroken("AckId's Display impl or its parser fn(&str) -> .. AckId .. not found")
    W = set()
    NAMES = {"new_display": 10, "new_lower_hex": 16, "new_upper_hex": 16, "new_octal": 8, "new_binary": 2, "new_lower_exp": "exp", "new_upper_exp": "exp", "new_debug": 10}
    for bid in prog.cone(disp[0], follow=("call", "closure")):
        bi = prog.info(bid)
        if bi is None:
            continue
        for bb, t in bi.calls():
            n = t.callee.path.split("::")[-1]
            if "fmt::rt::Argument" in t.callee.path and n in NAMES:
                W.add(NAMES[n])
            elif t.callee.path in ("std::fmt::Display::fmt", "std::fmt::LowerHex::fmt", "std::fmt::UpperHex::fmt", "std::fmt::Octal::fmt", "std::fmt::Binary::fmt"):
                W.add({"Display": 10, "LowerHex": 16, "UpperHex": 16, "Octal": 8, "Binary": 2}[t.callee.path.split("::")[-2]])
    Rd = []
    for bid in prog.cone(parsers[0], follow=("call", "closure")):
        bi = prog.info(bid)
        if bi is None:
            continue
        for bb, t in bi.calls():
            p = t.callee.path
            if p == "core::str::<impl str>::parse" and any(a in ("u64", "u32", "u128", "usize", "i64") for a in (t.callee.args or [])):
                Rd.append((10, bi.loc(bb)))
            elif p.endswith("::from_str_radix"):
                r = t.args[1].const_int() if len(t.args) > 1 else None
                if r is None and len(t.args) > 1:
                    sl = Slicer(prog).of(bid, t.args[1])
                    ints = [c for c in sl.consts if isinstance(c, int) or (isinstance(c, str) and c.isdigit())]
                    r = int(ints[0]) if len(ints) == 1 else None
                Rd.append((r, bi.loc(bb)))
    key = "ack-id-text"
    radices = {r for r, _ in Rd}
    if len(W) != 1 or not Rd:
        out.undecided(key, prog.loc(disp[0]), "rendering %s / parsing %s of the ack id not recognised" % (sorted(map(str, W)), sorted(map(str, radices))))
    elif len(Rd) > 1 and len(radices) > 1:
        out.violation(key, Rd[1][1], "AckId::parse tries several readings of the text (radices %s): a token that is a valid number in more than one of them is taken "
                      "for another delivery than the one it was handed out for -- acknowledging it retires the wrong message" % sorted(map(str, radices)),
                      ["written in radix %s by %s" % (sorted(W)[0], prog.loc(disp[0]))] + ["read in radix %s at %s" % (r, l) for r, l in Rd])
    elif radices != W:
        out.violation(key, Rd[0][1], "the ack id is written in radix %s and read in radix %s: the id a client hands back denotes another delivery (or none)" % (
            sorted(W)[0], sorted(map(str, radices))[0]))
    else:
        out.holds(key, prog.loc(parsers[0]), "written and read in radix %s, one reading" % sorted(W)[0])


@rule("C02", "R02.9", "the ack id is written and parsed in one radix, and the parser tries exactly that reading", floor=1)
def r02_9_c02(prog, out):
    _r02_9(prog, out)


@rule("C03", "R02.9", "the ack id is written and parsed in one radix, and the parser tries exactly that reading", floor=1)
def r02_9_c03(prog, out):
    _r02_9(prog, out)


@rule("C05", "R02.9", "the ack id is written and parsed in one radix, and the parser tries exactly that reading", floor=1)
def r02_9_c05(prog, out):
    _r02_9(prog, out)
