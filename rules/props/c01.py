"""C01 — fan-out without loss: message-conservation skeleton and routing."""
from engine import rule, CheckBroken
from actorlib import roles
from slicing import Slicer
from common import await_class, short_ty, mpsc_send_request
from props.c12 import error_blocks
import libmodel as L

ELEM = None


def elem_transparent():
    from flow import TRANSPARENT
    return TRANSPARENT | L.HANDLES | L.ELEMENTS


@rule("C01", "R01.1", "publish fans out to every attached subscription and joins all posts before it replies", floor=1)
@rule("C08", "R01.1", "publish fans out to every attached subscription and joins all posts before it replies", floor=1)
def r01_1(prog, out):
    R = roles(prog)
    pid = R.publish_body()
    bi = prog.info(pid)
    name = prog.short(pid)
    req = R.sub_actor.request
    post = R.post_variant()
    spawns = [s for s in bi.spawns]
    posting = []
    for sp in spawns:
        if sp.task is None:
            continue
        reaches = False
        for bid in prog.cone(sp.task, follow=("call", "closure", "poll")):
            ci = prog.info(bid)
            if ci is None:
                continue
            for a in ci.awaits:
                if await_class(prog, ci, a) == "mpsc_send" and mpsc_send_request(ci, a) == req:
                    reaches = True
        if reaches:
            posting.append(sp)
    if not posting:
        # posting inline (awaited in the handler itself) is also joined
        inline = False
        for bid in prog.cone(pid, follow=("call", "closure", "poll")):
            ci = prog.info(bid)
            for a in (ci.awaits if ci else []):
                if await_class(prog, ci, a) == "mpsc_send" and mpsc_send_request(ci, a) == req:
                    inline = True
        if inline:
            out.holds("%s:posts-joined" % name, prog.loc(pid), "posts are awaited inline by the publish handler")
        else:
            out.violation("%s:posts" % name, prog.loc(pid), "the publish handler never posts the batch to the subscription mailboxes")
        return
    for n, sp in enumerate(posting):
        key = "%s:post-task#%d" % (name, n)
        if sp.kind != "joinset":
            out.violation(key, bi.loc(sp.bb), "messages are posted from a %s task that nobody joins: Publish can return (and later publishes overtake) before the "
                          "post has reached the subscription's mailbox" % sp.kind)
            continue
        # inside a loop over TopicActor.subscriptions
        loops = bi.cfg.in_loop(sp.bb)
        over_subs = False
        for bb, t in bi.calls(lambda c: c.path in ("std::iter::Iterator::next",)):
            if any(bb in bi.cfg.loops()[h] for h in loops):
                o = bi.trace(t.args[0], transparent=elem_transparent())
                if R.topic_subs in o.cells():
                    over_subs = True
        if not loops or not over_subs:
            out.violation(key + ":all-subscriptions", bi.loc(sp.bb), "the posting task is not spawned once per entry of TopicActor.subscriptions")
        else:
            out.holds(key + ":all-subscriptions", bi.loc(sp.bb), "one posting task per entry of TopicActor.subscriptions")
        # joined until None before Ok
        joins = [a for a in bi.awaits if await_class(prog, bi, a) == "join_next"]
        oks = [blk.idx for blk in bi.body.blocks if not blk.cleanup and any(
            s.k == "assign" and s.lhs.is_local() and s.lhs.local == 0 and s.rv.k == "agg" and s.rv.j.get("variant") == "Ok" for s in blk.stmts)]
        key2 = key + ":joined-before-reply"
        if not joins:
            out.violation(key2, bi.loc(sp.bb), "the JoinSet is never drained: the publish handler replies before the posts are in the mailboxes")
            continue
        j = joins[0]
        if not oks or not all(bi.cfg.dominates(j.poll_bb, o) for o in oks):
            out.violation(key2, bi.loc(j.poll_bb), "Ok can be returned without waiting for the posting tasks")
            continue
        # the loop around join_next exits towards Ok only on None
        some_blocks = set()
        res = bi._final_result_local(j)
        for blk in bi.body.blocks:
            if blk.cleanup:
                continue
            t = blk.term
            if t.k == "switch":
                for s in blk.stmts:
                    if s.k == "assign" and s.rv.k == "discr" and s.rv.place.is_local() and s.rv.place.local == res:
                        arms = dict(t.arms)
                        if 1 in arms:
                            some_blocks.add(bi._skip_false(arms[1]))
        ok_exit_from_some = False
        for sb in some_blocks:
            esc = bi.cfg.path(sb, set(oks), avoid={j.poll_bb} | error_blocks(bi))
            if esc is not None:
                ok_exit_from_some = True
        if some_blocks and not ok_exit_from_some:
            out.holds(key2, bi.loc(j.poll_bb), "Ok is only reached after join_next() returned None (all posts delivered to the mailboxes)")
        elif not some_blocks:
            out.undecided(key2, bi.loc(j.poll_bb), "join loop shape not recognised")
        else:
            out.violation(key2, bi.loc(j.poll_bb), "the join loop can leave towards Ok after a single completed task: remaining posts are not awaited")


@rule("C01", "R01.2", "posting cannot skip: no non-blocking send on a mailbox, every send result is propagated", floor=10)
@rule("C08", "R01.2", "posting cannot skip: no non-blocking send on a mailbox, every send result is propagated", floor=10)
def r01_2(prog, out):
    reqs = {a.request for a in prog.actors}
    n = 0
    for b in prog.facts.lib_bodies():
        bi = prog.info(b.id)
        for bb, t in bi.calls(lambda c: c.path.startswith("tokio::sync::mpsc::Sender::<T>::") or c.path.startswith("tokio::sync::mpsc::UnboundedSender::<T>::")):
            if not (t.callee.args and t.callee.args[0] in reqs):
                continue
            n += 1
            m = t.callee.path.split("::")[-1]
            key = "%s:%s" % (prog.short(b.id), m)
            if L.RECEIVER_EFFECT.get(t.callee.path) == "mpsc_try_send" or m in ("try_send", "try_reserve", "send_timeout", "try_reserve_owned", "try_reserve_many"):
                out.violation(key, bi.loc(bb), "`%s` on an actor mailbox does not wait for capacity: when the mailbox is full the request (e.g. a post of published messages) is dropped" % m)
                continue
            if m != "send":
                out.holds(key, bi.loc(bb), "mailbox API %s" % m, nontrivial=False)
                continue
            # the future must be awaited and its result consumed
            aw = [a for a in bi.awaits if a.origin is not None and a.origin.kind == "call" and a.origin.data == bb]
            if not aw:
                out.violation(key, bi.loc(bb), "the send future is never awaited: nothing is sent")
                continue
            res = bi._final_result_local(aw[0])
            uses = [u for u in bi.uses_of_local(res) if u[1] != -2] if res is not None else []
            if uses:
                out.holds(key, bi.loc(bb), "awaited; a closed mailbox is reported to the caller")
            else:
                out.violation(key, bi.loc(bb), "the result of the mailbox send is discarded: a failed post is silently lost")
    if n == 0:
        raise CheckBroken("no mailbox send found")
    # a future that (transitively) sends to a mailbox must be awaited to completion: wrappers that poll it once or for a
    # bounded time and then drop it turn the send into a non-blocking one
    POLL_ONCE = ("now_or_never", "poll_immediate", "timeout", "timeout_at", "poll_once")
    for b in prog.facts.lib_bodies():
        bi = prog.info(b.id)
        for bb, t in bi.calls(lambda c: c.path.split("::")[-1] in POLL_ONCE):
            for a in t.args:
                cid = prog.body_of_type(b, b.operand_ty(a) or "")
                if not cid:
                    continue
                sends = []
                for x in prog.cone(cid, follow=("call", "closure", "poll")):
                    xi = prog.info(x)
                    for aw in (xi.awaits if xi else []):
                        if await_class(prog, xi, aw) == "mpsc_send" and mpsc_send_request(xi, aw) in reqs:
                            sends.append(mpsc_send_request(xi, aw))
                if sends:
                    out.violation("%s:%s" % (prog.short(b.id), t.callee.path.split("::")[-1]), bi.loc(bb),
                                  "a request to the %s mailbox is sent through %s(): when the mailbox is full the pending send is dropped and the request "
                                  "(e.g. a post of published messages) is lost" % (short_ty(sends[0]), t.callee.path.split("::")[-1]))


@rule("C01", "R01.3", "a post lands in the backlog unless the subscription is deleted", floor=1)
def r01_3(prog, out):
    R = roles(prog)
    post = R.post_variant()
    targets = R.variant_targets(R.sub_actor, post)
    if not targets:
        raise CheckBroken("post variant %s has no handler call" % post)
    sl = Slicer(prog)
    for tid in targets:
        bi = prog.info(tid)
        ins = [e for e in prog.effects(tid) if e.touches(R.backlog) and e.kind in L.INSERT_KINDS]
        key = "post-handler:%s" % prog.short(tid)
        if not ins:
            out.violation(key, prog.loc(tid), "the handler of %s never appends to the backlog: posted messages are lost" % post)
            continue
        allowed = R.flag_true_blocks(bi, R.deleted)
        esc = bi.cfg.escapes(0, {e.bb for e in ins} | allowed, after=False)
        if esc is not None:
            out.violation(key, bi.loc(esc[-1]), "posted messages can be dropped: a path through the post handler returns without appending to the backlog "
                          "although the subscription is not deleted", ["bb%d (%s)" % (x, bi.loc(x)) for x in esc][:8])
            continue
        # what is appended is what was posted
        t = bi.call_at(ins[0].bb)
        s = Slicer(prog).of(tid, t.args[1]) if len(t.args) > 1 else None
        if s is not None and any(r[0] == "param" and r[1] == tid for r in s.roots):
            out.holds(key, bi.loc(ins[0].bb), "the posted vector is appended on every path on which the subscription is live")
        else:
            out.violation(key, bi.loc(ins[0].bb), "what is appended to the backlog is not derived from the posted messages")


def batch_pop(prog, bi, sl, bid, e, recs):
    """the backlog hands out a *collection* of messages at once (a whole batch, a drained prefix): (verdict, why, site) or None
    when the pop yields a single message.  Every message of the collection has to reach a record: the collection is iterated
    to its end by a loop whose every iteration records, and is not cut on the way (take / skip / filter on a drain loses what
    it does not yield)."""
    lb, lbb = e.leaf()
    li = prog.info(lb)
    t = li.call_at(lbb) if li is not None else None
    if t is None or t.dest is None or not t.dest.is_local():
        return None
    ty = li.body.local_ty(t.dest.local) or ""
    coll = ("VecDeque<" in ty or "Vec<" in ty or "Drain<" in ty) and "TopicMessage" in ty
    if not coll:
        return None
    CUT = {"take", "take_while", "skip", "skip_while", "step_by", "filter", "filter_map", "map_while", "nth", "truncate", "split_off"}
    rec = recs[0]
    rt = bi.call_at(rec.bb)
    s = sl.of(bid, rt.args[1]) if rt is not None and len(rt.args) > 1 else None
    if s is None or (lb, lbb) not in s.sites and not (s.calls & {t.callee.target, t.callee.path}):
        return ("violation", "the delivery recorded as outstanding does not carry a message of the batch taken from the backlog", bi.loc(rec.bb))
    cut = {c.split("::")[-1] for c in s.calls} & CUT
    # a cut *inside* the collection's own take (`drain(..limit)`) is the take itself; a cut between the take and the record is not
    between = set()
    for (sb, sbb) in s.sites:
        si = prog.info(sb)
        c = si.call_at(sbb) if si is not None else None
        if c is not None and c.callee is not None and c.callee.path.split("::")[-1] in CUT and (sb, sbb) != (lb, lbb):
            o = si.trace(c.args[0]) if c.args else None
            between.add(c.callee.path.split("::")[-1])
    if between:
        return ("violation", "the batch taken from the backlog is cut by %s() before its messages are recorded: what the cut does not yield has left the backlog and is "
                "neither delivered nor requeued" % sorted(between)[0], bi.loc(rec.bb))
    loops = bi.cfg.loops()
    inner = [blocks for h, blocks in loops.items() if rec.bb in blocks]
    if not inner:
        return ("undecided", "a batch is taken from the backlog and recorded outside a loop over it", bi.loc(rec.bb))
    blocks = min(inner, key=len)
    nexts = [bb for bb, c in bi.calls(lambda c: c.path == "std::iter::Iterator::next") if bb in blocks]
    if not nexts:
        return ("undecided", "a batch is taken from the backlog; the loop that records its messages is not an iterator loop", bi.loc(rec.bb))
    from props.c02 import some_arm, iteration_exits
    start = some_arm(bi, nexts[0])
    esc = bi.cfg.escapes(start, {r.bb for r in recs}, iteration_exits(bi, nexts[0]), after=False) if start is not None else None
    if start is None or esc is not None:
        return ("violation", "a message of a batch taken from the backlog can leave the recording loop's iteration without being recorded as outstanding",
                bi.loc(esc[-1]) if esc else bi.loc(nexts[0]))
    # ... and the loop runs the batch to its end: leaving it early (a `break` at the pull limit) drops what the batch -- or the
    # Drain, which removes its whole range when dropped -- still holds
    from mapstate import presence_switches
    none_ok = set()
    for sw, pt, at in presence_switches(bi, nexts[0], "option"):
        if at == "self":
            none_ok.add(sw)
        elif at is not None:
            none_ok |= bi.cfg.edge_dominated(sw, at) | {sw}
    for u in sorted(blocks):
        ub = bi.body.blocks[u]
        if ub.cleanup:
            continue
        for v in bi.cfg.succ[u]:
            if v not in blocks and not bi.body.blocks[v].cleanup and u not in none_ok:
                return ("violation", "the loop over the batch taken from the backlog can be left before the batch is exhausted: the messages it still holds have left "
                        "the backlog and are neither delivered nor requeued", bi.loc(u))
    return ("holds", "the backlog hands out a batch; every message of it is recorded as outstanding by the loop over the batch", bi.loc(rec.bb))


@rule("C01", "R01.4", "a message popped from the backlog is recorded as outstanding before the next pop or return", floor=1)
@rule("C03", "R01.4", "a message popped from the backlog is recorded as outstanding before the next pop or return", floor=1)
def r01_4(prog, out):
    R = roles(prog)
    sl = Slicer(prog)
    pops = R.poppers()
    if not pops:
        raise CheckBroken("no actor method pops the backlog")
    from props.c02 import some_arm, iteration_exits
    for bid, effs in pops:
        bi = prog.info(bid)
        recs = [e for e in prog.effects(bid) if e.touches(R.outstanding) and e.touches(R.t_messages) and e.kind in L.INSERT_KINDS]
        for e in effs:
            key = "pop:%s" % prog.short(bid)
            if e.chain and prog.facts.body(e.chain[0][0]) is not None and prog.facts.body(e.chain[0][0]).kind == "Closure" \
                    and not prog.facts.body(e.chain[0][0]).coroutine and recs:
                out.undecided(key, bi.loc(e.bb), "the backlog is popped inside a closure that a lazy iterator drives (iter::from_fn / map ..): which "
                              "pops pair with which records depends on how often the iterator is advanced, which path analysis of this body does not decide")
                continue
            if not recs:
                out.violation(key, bi.loc(e.bb), "messages popped from the backlog are never recorded as outstanding: an unacked message is lost for good")
                continue
            batch = batch_pop(prog, bi, sl, bid, e, recs)
            if batch is not None:
                verdict, why, site = batch
                (out.holds if verdict == "holds" else out.undecided if verdict == "undecided" else out.violation)(key, site, why)
                continue
            start = some_arm(bi, e.bb)
            rec_bbs = {r.bb for r in recs}
            esc = bi.cfg.escapes(start, rec_bbs, iteration_exits(bi, e.bb), after=False) if start is not None else bi.cfg.escapes(e.bb, rec_bbs, iteration_exits(bi, e.bb))
            if esc is not None:
                out.violation(key, bi.loc(esc[-1]), "a popped message can leave the loop iteration without being recorded as outstanding (lost if not acked)",
                              ["bb%d (%s)" % (x, bi.loc(x)) for x in esc][:8])
                continue
            # the recorded delivery carries the popped message
            t = bi.call_at(recs[0].bb)
            s = sl.of(bid, t.args[1]) if len(t.args) > 1 else None
            pop_names = {bi.call_at(e.bb).callee.target, bi.call_at(e.bb).callee.path}
            if s is not None and (s.calls & pop_names):
                out.holds(key, bi.loc(e.bb), "every popped message is recorded in the tracker in the same iteration")
            else:
                out.violation(key, bi.loc(recs[0].bb), "the delivery recorded as outstanding does not carry the popped message")
    # clear on the backlog only where the subscription is marked deleted
    for bid in R.actor_methods(R.sub_actor):
        clr = [e for e in prog.effects(bid) if e.touches(R.backlog) and e.kind == "clear"]
        if not clr:
            continue
        key = "clear:%s" % prog.short(bid)
        if any(e.kind == "write" and e.touches(R.deleted) for e in prog.effects(bid)):
            out.holds(key, prog.loc(bid, clr[0].bb), "the backlog is only cleared by the delete flow")
        else:
            out.violation(key, prog.loc(bid, clr[0].bb), "the backlog is cleared outside the delete flow: queued messages are lost")


@rule("C01", "R01.5", "a delivery leaving the outstanding set is requeued unless it was acknowledged", floor=3)
@rule("C03", "R01.5", "a delivery leaving the outstanding set is requeued unless it was acknowledged", floor=3)
@rule("C05", "R01.5", "a delivery leaving the outstanding set is requeued unless it was acknowledged", floor=3)
def r01_5(prog, out):
    R = roles(prog)
    sl = Slicer(prog)
    from props.c02 import ack_variant
    actor, ackv = ack_variant(prog)
    ack_targets = set(R.variant_targets(actor, ackv))
    removers = R.tracker_removers()
    if len(removers) < 3:
        raise CheckBroken("expected 3 tracker removers (expire, ack/remove, modify), found %d" % len(removers))
    # each remover returns what it removed
    for rid in removers:
        bi = prog.info(rid)
        s = sl.of(rid, 0)
        key = "remover-returns:%s" % prog.short(rid)
        # the value handed back has to *be* what a removal from the ack-id map yielded (`remove`, `Entry::remove`, `pop_first` ..): a
        # removal that yields nothing (`retain`) next to a list of copies read beforehand hands back copies
        VALUE_REMOVALS = ("remove", "remove_entry", "pop_first", "pop_last", "take", "extract_if", "drain", "split_off")
        rsites = set()
        for e in prog.effects(rid):
            if e.touches(R.t_messages) and e.kind in L.REMOVE_KINDS and e.lib.split("::")[-1] in VALUE_REMOVALS:
                rsites.add(e.leaf())
                rsites.add((rid, e.bb))
        if any("::remove" in c or "pop_first" in c for c in s.calls) and (rsites & set(s.sites)):
            out.holds(key, prog.loc(rid), "the removed deliveries are returned to the caller")
        elif any("::remove" in c or "pop_first" in c or "retain" in c for c in s.calls) or rsites or any(
                e.touches(R.t_messages) and e.kind in L.REMOVE_KINDS for e in prog.effects(rid)):
            out.violation(key, prog.loc(rid), "what %s hands back is not what its removal from the ack-id map yielded (the entries are removed by a call that returns "
                          "nothing, or its result is dropped, and a list of copies read beforehand is returned): a repeated ack id yields the same delivery twice, "
                          "which the caller requeues twice -- one message leased twice at the same time" % prog.short(rid))
        else:
            out.violation(key, prog.loc(rid), "deliveries removed from the tracker are not returned: the caller cannot requeue them")
    # ... and what it hands back *is* what it removed: an element pushed to the result that is a copy of an entry merely read
    # from the map (`get(..).clone()`), with the removal done elsewhere (another pass over the ids), can be returned twice for a
    # repeated id or returned without ever being removed -- the caller requeues it while a delivery of it is still tracked
    pm = prog.anchors.ty("PulledMessage")
    READS = ("get", "get_mut", "get_key_value", "values", "values_mut", "iter", "iter_mut", "index", "first_key_value", "last_key_value")
    for rid in removers:
        bi = prog.info(rid)
        loops = bi.cfg.loops()
        rem_bbs = {e.bb for e in prog.effects(rid) if e.touches(R.t_messages) and e.kind in L.REMOVE_KINDS}
        for bb, t in bi.calls(lambda c: c.path.endswith("Vec::<T, A>::push") or c.path.endswith("VecDeque::<T, A>::push_back")):
            if len(t.args) < 2 or bi.body.operand_ty(t.args[1]) != pm:
                continue
            o = bi.trace(t.args[1])
            if o.kind != "call":
                continue
            src = bi.call_at(o.data)
            name = src.callee.path.split("::")[-1] if src.callee is not None else ""
            recv = prog.receiver_origin(bi, src.args[0]) if src.args else None
            on_map = recv is not None and R.t_messages in cells_of_origin(prog, bi, recv)
            key = "returns-what-it-removed:%s" % prog.short(rid)
            if not on_map:
                continue
            if name in READS:
                inner = [blocks for h, blocks in loops.items() if bb in blocks]
                scope = min(inner, key=len) if inner else set(bi.cfg.reach)
                if rem_bbs & scope and inner:
                    out.undecided(key, bi.loc(bb), "a copy of an entry read with %s() is returned and the entry is removed in the same iteration: equal only if both use the same key" % name)
                else:
                    out.violation(key, bi.loc(bb), "%s hands back a copy of an entry it only read (%s()), the removal happens in a separate pass: for a repeated ack id the same "
                                  "delivery is returned (and requeued) twice, so one message is leased twice at the same time" % (prog.short(rid), name),
                                  ["read at %s" % bi.loc(o.data), "pushed to the result at %s" % bi.loc(bb), "removals at %s" % sorted(bi.loc(x) for x in rem_bbs)[:3]])
            elif name in ("remove", "remove_entry", "pop_first", "pop_last", "take"):
                out.holds(key, bi.loc(bb), "the element handed back is the value the removal returned")
    # callers
    for bid, b in prog.facts.bodies.items():
        if b.crate != "lib":
            continue
        bi = prog.info(bid)
        for bb, t in bi.calls(lambda c: prog.qual(b, c.target) in removers):
            rid = prog.qual(b, t.callee.target)
            key = "remover-caller:%s<-%s" % (prog.short(rid).split("::")[-1], prog.short(bid))
            if bid in ack_targets:
                out.holds(key, bi.loc(bb), "acknowledge: the removed deliveries are retired", nontrivial=False)
                continue
            ins = [e for e in prog.effects(bid) if e.touches(R.backlog) and e.kind in L.INSERT_KINDS]
            flows = []
            for e in ins:
                tt = bi.call_at(e.bb)
                if len(tt.args) > 1:
                    s = sl.of(bid, tt.args[1])
                    if (bid, bb) in s.sites or t.callee.target in s.calls:
                        flows.append(e.bb)
            if flows and bi.cfg.escapes(bb, set(flows)) is None:
                out.holds(key, bi.loc(bb), "removed deliveries flow back into the backlog on every path")
                continue
            # returned to the caller (expiry poll): follow one level up
            s0 = sl.of(bid, 0)
            if (bid, bb) in s0.sites or t.callee.target in s0.calls:
                ok, why, site = expiry_chain(prog, R, sl, bid)
                if ok:
                    out.holds(key, bi.loc(bb), why)
                elif ok is None:
                    out.undecided(key, site or bi.loc(bb), why)
                else:
                    out.violation(key, site or bi.loc(bb), why)
                continue
            out.violation(key, bi.loc(bb), "deliveries removed from the outstanding set here are neither requeued nor acknowledged: they are lost")


def cells_of_origin(prog, bi, origin):
    """the (adt, field) cells on the access path of a traced origin"""
    out = []
    for p in getattr(origin, "path", ()) or ():
        if isinstance(p, tuple) and len(p) >= 3 and p[0] == "f":
            out.append((p[2], p[1]))
    return out


def expiry_chain(prog, R, sl, producer):
    """producer (a coroutine returning removed deliveries) is polled by a select of the actor loop; the branch
    continuation must hand the value to a method that appends it to the backlog"""
    prod_root = prog.facts.body(producer).root or producer
    for bid in prog.cone(R.sub_actor.loop, follow=("call", "closure", "poll")):
        bi = prog.info(bid)
        if bi is None:
            continue
        for a in bi.awaits:
            if a.select is None:
                continue
            for br in a.select.branches:
                if prog.body_of_type(bi.body, br.fut_ty) != producer or br.cont_bb is None:
                    continue
                # calls in the continuation (blocks dominated by cont) that append their argument
                for x in sorted(bi.cfg.reach):
                    if not bi.cfg.dominates(br.cont_bb, x):
                        continue
                    t = bi.body.blocks[x].term
                    if t.k == "call" and t.callee is not None and (t.callee.local or t.callee.res_local) and not t.callee.path.endswith("Future::poll"):
                        dst = R.effect_body(prog.qual(bi.body, t.callee.target))
                        ins = [e for e in prog.effects(dst) if e.touches(R.backlog) and e.kind in L.INSERT_KINDS]
                        if not ins:
                            continue
                        di = prog.info(dst)
                        tt = di.call_at(ins[0].bb)
                        s = sl.of(dst, tt.args[1]) if len(tt.args) > 1 else None
                        if s is not None and any(r[0] == "param" for r in s.roots) and di.cfg.escapes(0, {e.bb for e in ins}, after=False) is None:
                            return True, "expired deliveries are handed to %s which appends them to the backlog on every path" % prog.short(dst), bi.loc(x)
                        return False, "%s receives the expired deliveries but does not requeue all of them" % prog.short(dst), di.loc(ins[0].bb)
                return False, "the actor loop drops the deliveries produced by the expiry poll", bi.loc(a.poll_bb)
    return None, "no select branch polls %s" % prog.short(producer), None


@rule("C01", "R01.6", "routing: posts come only from the publish fan-out; attachment only through create with the same topic", floor=4)
@rule("C11", "R01.6", "routing: posts come only from the publish fan-out; attachment only through create with the same topic", floor=4)
def r01_6(prog, out):
    R = roles(prog)
    A = prog.anchors
    post = R.post_variant()
    pid = R.publish_body()
    # (1) who builds the post request, and who calls that
    cons = sorted({bid for bid, _, _, _ in prog.constructions(R.sub_actor.request, post)})
    if len(cons) != 1:
        out.violation("post-request-built", prog.loc(cons[0]) if cons else "", "the post request is built in %d places" % len(cons))
    else:
        out.holds("post-request-built", prog.loc(cons[0]), "only %s builds the post request" % prog.short(cons[0]))
        root = prog.facts.body(cons[0]).root or cons[0]
        pub_cone = set(prog.cone(pid, follow=("call", "closure", "poll", "spawn-joinset")))
        for bid, b in prog.facts.bodies.items():
            if b.crate != "lib":
                continue
            bi = prog.info(bid)
            for bb, t in bi.calls(lambda c: prog.qual(b, c.target) == root):
                key = "post-caller:%s" % prog.short(bid)
                if bid in pub_cone:
                    out.holds(key, bi.loc(bb), "called from the publish fan-out")
                else:
                    out.violation(key, bi.loc(bb), "messages are posted to a subscription from outside the publish fan-out")
    # (2) inserts into TopicActor.subscriptions only in the attach handler
    attach = R.attach_variant()
    attach_targets = set(R.variant_targets(R.topic_actor, attach))
    for bid in R.actor_methods(R.topic_actor):
        ins = [e for e in prog.effects(bid) if e.touches(R.topic_subs) and e.kind in L.INSERT_KINDS]
        if not ins:
            continue
        key = "attach-site:%s" % prog.short(bid)
        if bid in attach_targets:
            out.holds(key, prog.loc(bid, ins[0].bb), "subscriptions are attached only by the %s handler" % attach)
        else:
            out.violation(key, prog.loc(bid, ins[0].bb), "%s attaches a subscription to the topic outside the attach request" % prog.short(bid))
    # (3) the attach request is built in one handle method, called only from the manager's create flow with the same topic
    acons = sorted({bid for bid, _, _, _ in prog.constructions(R.topic_actor.request, attach)})
    if len(acons) != 1:
        out.violation("attach-request-built", "", "the attach request is built in %d places" % len(acons))
        return
    aroot = prog.facts.body(acons[0]).root or acons[0]
    submap = A.cell("SubState", "subscriptions")
    ncall = 0

    def is_topic_handle(ty):       # Arc<Topic>, lent or owned
        ty = (ty or "").lstrip("&").replace("mut ", "").strip()
        return ty.startswith("std::sync::Arc<%s" % A.ty("Topic"))

    for bid, b in prog.facts.bodies.items():
        if b.crate != "lib":
            continue
        bi = prog.info(bid)
        for bb, t in bi.calls(lambda c: prog.qual(b, c.target) == aroot):
            ncall += 1
            key = "attach-caller:%s" % prog.short(bid)
            # the create flow: some enclosing body (this one, or the one that spawns/awaits this coroutine) inserts into the manager map
            flow = [bid]
            x = b
            while x is not None and x.parent:
                pid2 = prog.qual(x, x.parent)
                flow.append(pid2)
                x = prog.facts.body(pid2)
            # ... or the body that spawns this coroutine as a task (`tokio::spawn(registration.attach_or_release())`), and its parents
            mine = {bid, b.root or bid} | set(prog.facts.children(b.root or bid))
            for sb in prog.facts.lib_bodies():
                si = prog.info(sb.id)
                if any(sp.task in mine for sp in si.spawns if sp.task):
                    y = sb
                    while y is not None:
                        if y.id not in flow:
                            flow.append(y.id)
                        y = prog.facts.body(prog.qual(y, y.parent)) if y.parent else None
            ins = None
            for f in flow:
                es = [e for e in prog.effects(f) if e.touches(submap) and e.kind in L.INSERT_KINDS]
                if es:
                    ins = (f, es[0])
                    break
            if ins is None:
                out.violation(key, bi.loc(bb), "a subscription is attached to a topic outside the create-subscription flow")
                continue
            # same topic: receiver of attach and the topic handed to the subscription constructor have one origin
            fi = prog.info(ins[0])
            recv = bi.trace(t.args[0])
            ctor_call = fi.call_at(ins[1].bb)
            topic_args = [a for a in ctor_call.args if is_topic_handle(fi.body.operand_ty(a))]
            if not topic_args:
                # the registration step is written out in this body: the topic handed to the subscription's constructor
                for cbb2, ct2 in fi.calls(lambda c: c.target == A.ty("Subscription") + "::new"):
                    topic_args = [a for a in ct2.args if is_topic_handle(fi.body.operand_ty(a))]
            same = False
            if topic_args:
                o2 = fi.trace(topic_args[0])
                same = topic_origin_name(prog, bi, recv) == topic_origin_name(prog, fi, o2) and topic_origin_name(prog, fi, o2) is not None
            if not same and topic_args:
                # the topic travels to the attach inside a value built in the create flow (`Registration { subscription, topic }`)
                want = topic_origin_name(prog, fi, fi.trace(topic_args[0]))
                for p in reversed(recv.path or ()):
                    if isinstance(p, tuple) and len(p) >= 3 and p[0] == "f" and str(p[2]).startswith("crate::"):
                        for (cb, cbb, _i, rv2) in prog.constructions(p[2]):
                            names2 = rv2.j.get("fields") or []
                            if cb in flow and p[1] in names2:
                                ci2 = prog.info(cb)
                                if want is not None and topic_origin_name(prog, ci2, ci2.trace(rv2.ops[names2.index(p[1])])) == want:
                                    same = True
                        break
            if same:
                out.holds(key, bi.loc(bb), "the subscription is attached to the same Arc<Topic> it was created with")
            else:
                out.violation(key, bi.loc(bb), "the subscription is attached to a topic obtained separately from the one it was created with (%r vs %r)"
                              % (recv, fi.trace(topic_args[0]) if topic_args else None))
    if ncall == 0:
        raise CheckBroken("attach handle method is never called")


def topic_origin_name(prog, bi, o):
    """name of the parameter / captured variable a topic handle originates from, resolving captures to the enclosing fn"""
    if o.kind == "upvar":
        # resolve through the parent's aggregate
        parent = bi.body.parent
        if parent:
            pi = prog.info(prog.qual(bi.body, parent))
            if pi is not None:
                for blk in pi.body.blocks:
                    for s in blk.stmts:
                        if s.k == "assign" and s.rv.k == "agg" and s.rv.j.get("ak") in ("closure", "coroutine") and prog.qual(pi.body, s.rv.j["def"]) == bi.body.id:
                            names = s.rv.j.get("fields", [])
                            if o.data in names:
                                po = pi.trace(s.rv.ops[names.index(o.data)])
                                r = topic_origin_name(prog, pi, po)
                                if r is not None:
                                    return r
        return "var:" + str(o.data).split(".")[0]
    if o.kind == "param":
        return "var:" + (bi.body.local_name(o.data) or str(o.data))
    if o.kind == "local":
        n = bi.body.local_name(o.data)
        return "var:" + n if n else None
    return None


@rule("C01", "R01.7", "a future that can be dropped by a select! does not suspend while it alone holds removed deliveries", floor=1)
@rule("C03", "R01.7", "a future that can be dropped by a select! does not suspend while it alone holds removed deliveries", floor=1)
@rule("C04", "R01.7", "a future that can be dropped by a select! does not suspend while it alone holds removed deliveries", floor=1)
def r01_7(prog, out):
    """The losing branches of a `tokio::select!` are dropped at whatever await they are suspended in.  A branch future that has
    taken deliveries out of the tracker / backlog and then awaits anything before handing them back (returning them) loses
    them when another branch wins: neither outstanding nor queued nor acknowledged."""
    from mapstate import _bool_switches
    R = roles(prog)
    cells = {R.t_messages, R.t_expirations, R.backlog}
    branches = set()
    for b in prog.facts.lib_bodies():
        if not b.coroutine:
            continue
        bi = prog.info(b.id)
        for a in bi.awaits:
            if a.select is None:
                continue
            for br in a.select.branches:
                cid = prog.body_of_type(b, br.fut_ty)
                if cid and prog.facts.body(cid) is not None:
                    branches.add(cid)
    n = 0
    for cid in sorted(branches):
        ci = prog.info(cid)
        # removals this future performs itself (directly or through a synchronous helper that hands the removed deliveries back to
        # it); a request handler of the actor reached through the dispatcher is a synchronous step that pairs its own pops (R01.4)
        ops = set(R.actor_methods(R.sub_actor)) | {R.sub_actor.dispatch}
        ops |= {prog.facts.body(x).root for x in list(ops) if prog.facts.body(x) is not None and prog.facts.body(x).root}
        rem = [e for e in prog.effects(cid) if e.kind in L.REMOVE_KINDS and any(c in cells for c in e.cells) and not e.spawned
               and not any(cb in ops for cb, _ in e.chain)
               and not any(prog.facts.body(cb) is not None and prog.facts.body(cb).coroutine and cb != cid for cb, _ in e.chain)]     # another future's removals: its own instance
        if not rem:
            continue
        n += 1
        key = "cancel-safe:%s" % prog.short(cid)
        ys = set(ci.yields())
        bad = None
        for e in rem:
            t = ci.call_at(e.bb)
            # blocks only reached when what was removed is empty (nothing is held then)
            empty = set()
            if t.k == "call" and t.dest is not None and t.dest.is_local():
                dkey = ci.trace(t.dest.local).key() if False else None
                for bb2, t2 in ci.calls(lambda c: c.path.endswith("::is_empty")):
                    if t2.args and t2.dest is not None and t2.dest.is_local():
                        o2 = ci.trace(t2.args[0])
                        if o2.kind == "call" and o2.data == e.bb:
                            for sw, tr, fa in _bool_switches(ci, t2.dest.local):
                                if tr is not None:
                                    empty |= ci.cfg.edge_dominated(sw, tr)
            for y in ys:
                if y == e.bb or y in empty:
                    continue
                if ci.cfg.can_reach(e.bb, y, avoid=empty) and not ci.cfg.dominates(y, e.bb):
                    bad = (e, y)
                elif ci.cfg.can_reach(e.bb, y, avoid=empty) and ci.cfg.dominates(y, e.bb):
                    # a loop: the yield precedes the removal of the NEXT round; fine if every way from the removal to it passes the empty arm or a return
                    if ci.cfg.path(e.bb, {y}, avoid=empty | set(ci.cfg.returns)) is not None:
                        bad = (e, y)
        if bad:
            e, y = bad
            out.violation(key, ci.loc(y), "this future is a select! branch: it removes deliveries (%s) and can then be suspended here while it alone holds them; if another "
                          "branch of the select wins, the future is dropped and the deliveries are lost (neither outstanding nor requeued)" % e.lib.split("::")[-1],
                          ["removal at %s" % ci.loc(e.bb), "suspension at %s" % ci.loc(y)])
        else:
            out.holds(key, prog.loc(cid), "after taking deliveries out it returns them without suspending (it only waits when it holds nothing)")
    if n == 0:
        raise CheckBroken("no select! branch future removes deliveries (the expiry poll was expected)")


@rule("C01", "R01.8", "a copy of actor state that other tasks consult is refreshed after every change of that state, before the actor suspends", floor=1)
@rule("C06", "R01.8", "a copy of actor state that other tasks consult is refreshed after every change of that state, before the actor suspends", floor=1)
@rule("C15", "R01.8", "a copy of actor state that other tasks consult is refreshed after every change of that state, before the actor suspends", floor=1)
@rule("C04", "R01.8", "a copy of actor state that other tasks consult is refreshed after every change of that state, before the actor suspends", floor=1)
def r01_8(prog, out):
    """Consumers learn about a subscription's backlog by asking its actor.  A shortcut that answers from a published copy
    (a backlog-size hint in an atomic, an `is_idle` flag) is only right if the copy is refreshed on every path that changes
    the backlog -- the expiry timer's requeue included.  shadow.py finds such copies and the unrefreshed paths."""
    import shadow
    shs = shadow.find_shadows(prog)
    if not shs:
        out.holds("no-shadow-state", "", "no value derived from an actor's anchored state is published for other tasks to branch on", nontrivial=False)
        return
    for sh in shs:
        key = "shadow:%s" % sh.label()
        stale = shadow.stale_paths(prog, sh)
        if stale:
            b, bb, text = stale[0]
            out.violation(key, prog.loc(b, bb), "%s is consulted at %s instead of asking the actor, but the actor changes %s here (%s) and can suspend without "
                          "refreshing the copy: whoever trusts it acts on a state that is gone (a pull is skipped although messages are waiting, ...)"
                          % (sh.label().split("<-")[0], sh.consulted[0], sh.field[1], text),
                          ["copy written at %s" % sh.site] + ["unrefreshed change: %s in %s" % (t, prog.short(bx)) for bx, _, t in stale[:6]])
        else:
            out.holds(key, sh.site, "refreshed after every change of %s before the actor's next suspension point" % sh.field[1])
