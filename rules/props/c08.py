"""C08 — publish order is delivery order; message ids are issued in order."""
from engine import rule, CheckBroken
from actorlib import roles
from slicing import Slicer
from common import short_ty
import libmodel as L
from props import c09

rule("C08", "R09.3", "message ids are unique: one constructor, fresh counter, never-reused topic id, injective bit layout", floor=5)(c09.r09_3)

ORDER_PRESERVING = {"into_iter", "iter", "map", "collect", "cloned", "copied", "by_ref", "enumerate", "zip", "inspect", "from_iter", "extend", "to_vec", "clone",
                    "into", "from", "deref", "deref_mut", "next", "into_future", "as_ref"}
REORDERING = {"rev", "sort", "sort_by", "sort_by_key", "sort_unstable", "sort_unstable_by", "sort_unstable_by_key", "reverse", "swap", "rotate_left",
              "rotate_right", "shuffle", "par_iter", "into_par_iter", "skip", "step_by", "filter", "filter_map", "take", "dedup", "retain", "swap_remove", "pop"}


def adapter_chain(prog, bi, operand, sl):
    """method names of the calls a value flows through (backward slice, this body only)"""
    s = sl.of(bi.body.id, operand)
    return {c.split("::")[-1].split("<")[0] for c in s.calls}, s


@rule("C08", "R08.1", "one id and one shared message per submitted message, assigned in request order", floor=3)
def r08_1(prog, out):
    R = roles(prog)
    A = prog.anchors
    sl = Slicer(prog)
    pid = R.publish_body()
    pi = prog.info(pid)
    ctr = A.cell("TopicActor", "next_message_id", optional=True)
    if ctr is None:
        out.violation("%s:counter" % prog.short(pid), prog.loc(pid), "the topic actor no longer owns the per-topic message counter: ids are not issued in the order in which "
                      "the actor accepts the messages")
        return
    # the per-message closure: the child body that writes the counter
    clos = [c for c in prog.facts.children(pid) if any(e.kind == "write" and not e.chain for e in prog.effects(c)
                                                       if c09.cells_of_effect(prog, prog.info(c), e) & {ctr})]
    if not clos:
        out.violation("%s:counter" % prog.short(pid), prog.loc(pid), "the publish handler does not advance the per-topic counter while it accepts the messages: ids are "
                      "not issued in acceptance order")
        return
    cid = clos[0]
    ci = prog.info(cid)
    name = prog.short(cid)
    # exactly one push of an id per invocation
    pushes = [bb for bb, t in ci.calls(lambda c: c.path == "std::vec::Vec::<T, A>::push") if (ci.body.operand_ty(t.args[1]) or "") == A.ty("MessageId")]
    key = "%s:one-id-per-message" % name
    if len(pushes) == 1 and ci.cfg.post_dominates(pushes[0], 0) and not ci.cfg.in_loop(pushes[0]):
        out.holds(key, ci.loc(pushes[0]), "exactly one id is pushed to the response per message, on every path")
    else:
        out.violation(key, prog.loc(cid), "the per-message step pushes %d id(s) (or not on every path): Publish no longer returns exactly one id per message" % len(pushes))
    # the pushed id is the one stored in the message
    setter = [(bb, t) for bb, t in ci.calls(lambda c: c.target == A.ty("TopicMessage") + "::publish")]
    key = "%s:returned-id=stored-id" % name
    if pushes and setter:
        o1 = ci.trace(ci.call_at(pushes[0]).args[1])
        o2 = ci.trace(setter[0][1].args[1])
        if o1.key() == o2.key():
            out.holds(key, ci.loc(pushes[0]), "the id returned to the publisher is the id stored in the message")
        else:
            out.violation(key, ci.loc(pushes[0]), "the id returned to the publisher (%r) is not the id stored in the message (%r)" % (o1, o2))
    else:
        out.undecided(key, prog.loc(cid), "id push / publish setter not found")
    # one Arc per invocation = the return value
    arcs = [bb for bb, t in ci.calls(lambda c: c.path == "std::sync::Arc::<T>::new")]
    key = "%s:one-message-per-message" % name
    ro = ci.trace(0)
    if len(arcs) == 1 and ro.kind == "call" and ro.data == arcs[0]:
        out.holds(key, ci.loc(arcs[0]), "the step returns the one Arc it creates")
    else:
        out.violation(key, prog.loc(cid), "the per-message step does not return exactly the one shared message it creates")
    # driven in request order
    key = "%s:request-order" % prog.short(pid)
    agg_bb = None
    for blk in pi.body.blocks:
        for i, s in enumerate(blk.stmts):
            if s.k == "assign" and s.rv.k == "agg" and s.rv.j.get("ak") == "closure" and prog.qual(pi.body, s.rv.j["def"]) == cid:
                agg_bb = (blk.idx, i, s)
    maps = [(bb, t) for bb, t in pi.calls(lambda c: c.path == "std::iter::Iterator::map")]
    drv = None
    for bb, t in maps:
        o = pi.trace(t.args[1])
        if agg_bb and o.kind == "agg" and o.data == (agg_bb[0], agg_bb[1]):
            drv = (bb, t)
    if drv is None:
        out.undecided(key, prog.loc(pid), "the per-message closure is not driven by Iterator::map")
    else:
        names, s = adapter_chain(prog, pi, drv[1].args[0], sl)
        bad = names & REORDERING
        unknown = names - ORDER_PRESERVING - REORDERING
        if bad:
            out.violation(key, pi.loc(drv[0]), "messages are processed through %s before ids are assigned: ids / posted order no longer follow request order" % sorted(bad))
        elif unknown:
            out.undecided(key, pi.loc(drv[0]), "iterator adapters without an order model: %s" % sorted(unknown))
        else:
            out.holds(key, pi.loc(drv[0]), "request vector -> into_iter -> map(per-message step): request order")
    # what is posted is that vector, unmodified
    key = "%s:posted-order" % prog.short(pid)
    reorder = [e for e in prog.effects(pid) if e.kind == "reorder" and not e.spawned]
    if reorder:
        out.violation(key, prog.loc(*reorder[0].leaf()), "the batch is reordered (%s) between id assignment and posting" % reorder[0].lib.split("::")[-1])
    else:
        out.holds(key, prog.loc(pid), "no reordering call between id assignment, posting and the reply")


@rule("C08", "R08.2", "the backlog is a FIFO: appended at the back, taken from the front, never reordered", floor=4)
def r08_2(prog, out):
    R = roles(prog)
    n = 0
    for bid in R.actor_methods(R.sub_actor):
        for e in prog.effects(bid):
            if not e.touches(R.backlog) or e.spawned:
                continue
            k = e.kind
            if k in ("read", "write", "clear", "handle", "read_first", "read_last"):
                if k == "handle":
                    out.undecided("backlog:%s:%s" % (prog.short(bid), e.lib.split("::")[-1]), prog.loc(*e.leaf()), "mutable view of the backlog handed out")
                continue
            n += 1
            key = "backlog:%s:%s" % (prog.short(bid), e.lib.split("::")[-1])
            if k == "insert_back" or k == "remove_front":
                out.holds(key, prog.loc(*e.leaf()), "%s keeps queue order" % e.lib.split("::")[-1])
            elif k in ("insert_front", "insert_any", "remove_back", "remove_any", "reorder", "insert", "remove"):
                out.violation(key, prog.loc(*e.leaf()), "`%s` on the backlog breaks FIFO order: first deliveries no longer follow publish order" % e.lib.split("::")[-1])
    if n < 4:
        raise CheckBroken("expected >= 4 backlog insert/remove sites, found %d" % n)
    # the vector handed from the publish handler to the backlog is not reordered on the way (post handler)
    for tid in R.variant_targets(R.sub_actor, R.post_variant()):
        ro = [e for e in prog.effects(tid) if e.kind == "reorder"]
        key = "post-handler-order:%s" % prog.short(tid)
        if ro:
            out.violation(key, prog.loc(*ro[0].leaf()), "the post handler reorders the batch before appending it")
        else:
            out.holds(key, prog.loc(tid), "no reordering in the post handler")


@rule("C08", "R08.4", "the Publish response lists the ids in the order the actor issued them", floor=1)
def r08_4(prog, out):
    sl = Slicer(prog)
    h = prog.handler("publish")
    if h is None:
        raise CheckBroken("publish handler not found")
    bi = prog.info(h.root)
    resp = [(bid, bb, i, rv) for (bid, bb, i, rv) in prog.constructions("crate::pubsub_proto::PublishResponse") if bid == h.root]
    if not resp:
        raise CheckBroken("PublishResponse construction not found in the publish handler")
    bid, bb, i, rv = resp[0]
    names = rv.j["fields"]
    op = rv.ops[names.index("message_ids")]
    s = sl.of(h.root, op)
    used = {c.split("::")[-1].split("<")[0] for c in s.calls}
    key = "publish-response-order"
    mid = prog.anchors.cell("MessageId", "value")
    src_ok = ("crate::topics::topic_actor::PublishMessagesResponse", "message_ids") in s.fields
    bad = used & REORDERING
    if not src_ok:
        out.violation(key, bi.loc(bb), "the ids in the Publish response do not come from the actor's reply")
    elif bad:
        out.violation(key, bi.loc(bb), "the id list is passed through %s before it is returned: order / count no longer match the request" % sorted(bad))
    else:
        unknown = used - ORDER_PRESERVING - {"to_string", "publish_messages", "map_err", "branch", "poll", "new", "get_ref", "parse_topic_message", "parse_topic_name",
                                             "get_topic_internal", "from_residual", "unwrap_or", "new_unchecked", "get_context", "fmt", "send", "channel"}
        if unknown:
            out.holds(key, bi.loc(bb), "ids come from the actor's reply through order-preserving adapters (other calls on the path: %s)" % sorted(unknown)[:6])
        else:
            out.holds(key, bi.loc(bb), "ids come from the actor's reply through iter().map(to_string).collect()")


@rule("C08", "R08.5", "one Publish request is handed to the topic actor as one request carrying all its messages", floor=1)
def r08_5(prog, out):
    A = prog.anchors
    sl = Slicer(prog)
    h = prog.handler("publish")
    if h is None:
        raise CheckBroken("publish handler not found")
    target = A.ty("Topic") + "::publish_messages"
    n = 0
    for bid in prog.cone(h.root, follow=("call", "closure", "poll")):
        bi = prog.info(bid)
        if bi is None:
            continue
        for bb, t in bi.calls(lambda c: c.target == target):
            n += 1
            key = "one-request:%s" % prog.short(bid)
            s = sl.of_resolved(bid, t.args[1])
            cut = sorted({c.split("::")[-1] for c in s.calls} & {"chunks", "chunks_exact", "take", "skip", "split_at", "split_off", "drain", "truncate", "step_by", "windows", "filter", "rev"})
            if bi.cfg.in_loop(bb):
                out.violation(key, bi.loc(bb), "Publish sends its messages to the topic actor in several requests (the call sits in a loop): batches of concurrent "
                              "publishers interleave, so the messages of one Publish are neither contiguous nor numbered contiguously")
            elif cut:
                out.violation(key, bi.loc(bb), "only part of the request's messages is handed to the topic actor in this call (%s)" % cut)
            elif ("crate::pubsub_proto::PublishRequest", "messages") in s.fields:
                out.holds(key, bi.loc(bb), "the whole request.messages vector goes to the actor in one request")
            else:
                out.undecided(key, bi.loc(bb), "origin of the published vector not recognised")
    if n == 0:
        raise CheckBroken("publish handler never calls Topic::publish_messages")
