"""C08 — publish order is delivery order; message ids are issued in order."""
from engine import rule, CheckBroken
from actorlib import roles
from slicing import Slicer
from common import short_ty
import libmodel as L
from props import c09

rule("C08", "R09.3", "message ids are unique: one constructor, fresh counter, never-reused topic id, injective bit layout", floor=5)(c09.r09_3)

ORDER_PRESERVING = {"into_iter", "iter", "map", "fold", "for_each", "try_fold", "try_for_each", "collect", "cloned", "copied", "by_ref", "enumerate", "zip", "inspect", "from_iter", "extend", "to_vec", "clone",
                    "into", "from", "deref", "deref_mut", "next", "into_future", "as_ref"}
REORDERING = {"rev", "sort", "sort_by", "sort_by_key", "sort_unstable", "sort_unstable_by", "sort_unstable_by_key", "reverse", "swap", "rotate_left",
              "rotate_right", "shuffle", "par_iter", "into_par_iter", "skip", "step_by", "filter", "filter_map", "take", "dedup", "retain", "swap_remove", "pop"}


def adapter_chain(prog, bi, operand, sl):
    """method names of the calls a value flows through (backward slice, this body only)"""
    s = sl.of(bi.body.id, operand)
    return {c.split("::")[-1].split("<")[0] for c in s.calls}, s


class Unit:
    """the code that handles ONE submitted message: a closure driven by an iterator adapter (whole body = one message), or
    the body of a `for` loop over the submitted vector (one iteration = one message)"""

    def __init__(self, prog, bi, header=None):
        self.prog, self.bi, self.header = prog, bi, header
        self.blocks = set(bi.cfg.reach) if header is None else set(bi.cfg.loops()[header])
        self.name = prog.short(bi.body.id) + ("" if header is None else ":loop@%s" % bi.loc(header).split(":")[-1])

    def calls(self, pred):
        return [(bb, t) for bb, t in self.bi.calls(pred) if bb in self.blocks]

    def on_every_pass(self, bb):
        """every complete pass (closure: entry -> return; loop: header -> back to the header) goes through bb"""
        cfg = self.bi.cfg
        if self.header is None:
            return cfg.post_dominates(bb, 0) and not cfg.in_loop(bb)
        if [h for h in cfg.in_loop(bb) if h != self.header and h in self.blocks and cfg.loops()[h] < self.blocks]:
            return False     # inside a nested loop: zero or many times per message
        outside = {x for x in cfg.reach if x not in self.blocks}
        for s0 in cfg.succ[self.header]:
            if s0 in self.blocks and cfg.path(s0, {self.header}, avoid={bb} | outside) is not None:
                return False
        return True


@rule("C08", "R08.1", "one id and one shared message per submitted message, assigned in request order", floor=3)
def r08_1(prog, out):
    R = roles(prog)
    A = prog.anchors
    sl = Slicer(prog)
    pid = R.publish_body()
    pi = prog.info(pid)
    ctr = c09.id_cells(prog)[1]
    if ctr is None:
        out.violation("%s:counter" % prog.short(pid), prog.loc(pid), "the topic actor no longer owns the per-topic message counter: ids are not issued in the order in which "
                      "the actor accepts the messages")
        return
    # the per-message unit: the child closure that writes the counter, or the loop of the handler in which it is written
    unit = None
    clos = [c for c in prog.facts.children(pid) if any(e.kind == "write" and not e.chain for e in prog.effects(c)
                                                       if c09.cells_of_effect(prog, prog.info(c), e) & {ctr})]
    if clos:
        unit = Unit(prog, prog.info(clos[0]))
    else:
        wbbs = [e.bb for e in prog.effects(pid) if e.kind == "write" and not e.chain and c09.cells_of_effect(prog, pi, e) & {ctr}]
        heads = [h for bb in wbbs for h in pi.cfg.in_loop(bb)]
        if heads:
            # the innermost loop around the counter write
            h = sorted(heads, key=lambda x: len(pi.cfg.loops()[x]))[0]
            unit = Unit(prog, pi, h)
    if unit is None:
        out.violation("%s:counter" % prog.short(pid), prog.loc(pid), "the publish handler does not advance the per-topic counter while it accepts the messages: ids are "
                      "not issued in acceptance order")
        return
    ci = unit.bi
    name = unit.name
    # exactly one push of an id per message
    pushes = [bb for bb, t in unit.calls(lambda c: c.path == "std::vec::Vec::<T, A>::push") if (ci.body.operand_ty(t.args[1]) or "") == A.ty("MessageId")]
    key = "%s:one-id-per-message" % name
    # the step may *return* the id next to the message (`.map(|m| (id, Arc::new(m))).unzip()`): one tuple per message
    ret_tuple = None
    if not pushes and unit.header is None:
        ro = ci.trace(0)
        if ro.kind == "agg" and not ro.path and ci.agg_at(ro.data).j.get("ak") == "tuple":
            ret_tuple = ci.agg_at(ro.data)
    if ret_tuple is not None:
        id_ops = [op for op in ret_tuple.ops if (ci.body.operand_ty(op) or "") == A.ty("MessageId")]
        arc_ops = [op for op in ret_tuple.ops if ci.trace(op).kind == "call" and ci.call_at(ci.trace(op).data).callee is not None
                   and ci.call_at(ci.trace(op).data).callee.path == "std::sync::Arc::<T>::new"]
        if len(id_ops) == 1:
            out.holds(key, prog.loc(ci.body.id), "the step returns exactly one id per message (collected by unzip)")
        else:
            out.violation(key, prog.loc(ci.body.id), "the per-message step returns %d ids per message" % len(id_ops))
        setter = unit.calls(lambda c: c.target == A.ty("TopicMessage") + "::publish")
        key = "%s:returned-id=stored-id" % name
        if id_ops and setter and ci.trace(id_ops[0]).key() == ci.trace(setter[0][1].args[1]).key():
            out.holds(key, prog.loc(ci.body.id), "the id returned to the publisher is the id stored in the message")
        elif id_ops and setter:
            out.violation(key, prog.loc(ci.body.id), "the id returned to the publisher is not the id stored in the message")
        else:
            out.undecided(key, prog.loc(ci.body.id), "id / setter not found in the tuple form")
        key = "%s:one-message-per-message" % name
        if len(arc_ops) == 1:
            out.holds(key, prog.loc(ci.body.id), "each message becomes exactly one shared message that is handed on")
        else:
            out.violation(key, prog.loc(ci.body.id), "the per-message step does not hand on exactly the one shared message it creates")
    elif len(pushes) == 1 and unit.on_every_pass(pushes[0]):
        out.holds(key, ci.loc(pushes[0]), "exactly one id is pushed to the response per message, on every path")
    else:
        out.violation(key, prog.loc(ci.body.id), "the per-message step pushes %d id(s) (or not on every path): Publish no longer returns exactly one id per message" % len(pushes))
    # the pushed id is the one stored in the message
    setter = unit.calls(lambda c: c.target == A.ty("TopicMessage") + "::publish")
    key = "%s:returned-id=stored-id" % name
    if ret_tuple is not None:
        pass
    elif pushes and setter:
        o1 = ci.trace(ci.call_at(pushes[0]).args[1])
        o2 = ci.trace(setter[0][1].args[1])
        if o1.key() == o2.key():
            out.holds(key, ci.loc(pushes[0]), "the id returned to the publisher is the id stored in the message")
        elif prog.receiver_origin(ci, ci.call_at(pushes[0]).args[1]).cells()[-1:] == (A.cell("TopicMessage", "id"),) and unit.on_every_pass(setter[0][0]) \
                and ci.cfg.dominates(setter[0][0], pushes[0]):
            out.holds(key, ci.loc(pushes[0]), "the id returned to the publisher is read back from the message after it was stamped")
        else:
            out.violation(key, ci.loc(pushes[0]), "the id returned to the publisher (%r) is not the id stored in the message (%r)" % (o1, o2))
    elif pushes:
        # the id may be stored by a direct field write instead of a setter
        idw = [e for e in prog.effects(ci.body.id) if e.kind == "write" and e.cells and e.cells[-1] == A.cell("TopicMessage", "id") and e.bb in unit.blocks]
        if idw:
            out.holds(key, ci.loc(idw[0].bb), "the id is stored in the message by the per-message step")
        else:
            out.violation(key, ci.loc(pushes[0]), "the per-message step returns an id but never stores it in the message: deliveries carry another id than Publish returned")
    else:
        out.undecided(key, prog.loc(ci.body.id), "id push not found")
    # one Arc per message, handed on (returned by the closure / pushed to the batch by the loop)
    arcs = [bb for bb, t in unit.calls(lambda c: c.path == "std::sync::Arc::<T>::new")]
    key = "%s:one-message-per-message" % name
    handed = False
    if ret_tuple is not None:
        arcs = []
    elif len(arcs) == 1:
        if unit.header is None:
            ro = ci.trace(0)
            handed = ro.kind == "call" and ro.data == arcs[0]
        if not handed:
            # .. or pushed to the batch (a local Vec, or the Vec field of a batch builder), once per pass
            for bb, t in unit.calls(lambda c: c.path == "std::vec::Vec::<T, A>::push"):
                o = ci.trace(t.args[1])
                if o.kind == "call" and o.data == arcs[0] and unit.on_every_pass(bb):
                    handed = True
    if ret_tuple is not None:
        pass
    elif handed and unit.on_every_pass(arcs[0]):
        out.holds(key, ci.loc(arcs[0]), "each message becomes exactly one shared message that is handed on")
    else:
        out.violation(key, prog.loc(ci.body.id), "the per-message step does not hand on exactly the one shared message it creates")
    # driven in request order
    key = "%s:request-order" % prog.short(pid)
    src = None
    if unit.header is None:
        cid = ci.body.id
        agg_bb = None
        for blk in pi.body.blocks:
            for i, st in enumerate(blk.stmts):
                if st.k == "assign" and st.rv.k == "agg" and st.rv.j.get("ak") == "closure" and prog.qual(pi.body, st.rv.j["def"]) == cid:
                    agg_bb = (blk.idx, i, st)
        for bb, t in pi.calls(lambda c: c.path in ("std::iter::Iterator::map", "std::iter::Iterator::fold", "std::iter::Iterator::for_each",
                                                   "std::iter::Iterator::try_fold", "std::iter::Iterator::try_for_each")):
            o = pi.trace(t.args[-1])
            if agg_bb and o.kind == "agg" and o.data == (agg_bb[0], agg_bb[1]):
                src = (bb, t.args[0], "%s(per-message step)" % t.callee.path.split("::")[-1])
    else:
        for bb, t in unit.calls(lambda c: c.path == "std::iter::Iterator::next"):
            if t.args and (bb == unit.header or pi.cfg.dominates(bb, [x for x in pi.cfg.succ[unit.header] if x in unit.blocks][0]) or True):
                src = (bb, t.args[0], "for loop")
                break
    if src is None:
        out.undecided(key, prog.loc(pid), "the per-message step is not driven by Iterator::map or a for loop")
    else:
        names, s2 = adapter_chain(prog, pi, src[1], sl)
        bad = names & REORDERING
        unknown = names - ORDER_PRESERVING - REORDERING
        from_request = any(r[0] == "param" for r in s2.roots) or any(r[0] == "upvar" for r in s2.roots)
        if bad:
            out.violation(key, pi.loc(src[0]), "messages are processed through %s before ids are assigned: ids / posted order no longer follow request order" % sorted(bad))
        elif unknown:
            out.undecided(key, pi.loc(src[0]), "iterator adapters without an order model: %s" % sorted(unknown))
        elif not from_request:
            out.undecided(key, pi.loc(src[0]), "the iterated collection is not the submitted vector")
        else:
            out.holds(key, pi.loc(src[0]), "request vector -> into_iter -> %s: request order" % src[2])
    # what is posted is that vector, unmodified
    key = "%s:posted-order" % prog.short(pid)
    reorder = [e for e in prog.effects(pid) if e.kind == "reorder" and not e.spawned]
    if reorder:
        out.violation(key, prog.loc(*reorder[0].leaf()), "the batch is reordered (%s) between id assignment and posting" % reorder[0].lib.split("::")[-1])
    else:
        out.holds(key, prog.loc(pid), "no reordering call between id assignment, posting and the reply")


@rule("C08", "R08.2", "the backlog is a FIFO: appended at the back, taken from the front, never reordered", floor=4)
def r08_2(prog, out):
    R = roles(prog)
    n = 0
    for bid in R.actor_methods(R.sub_actor):
        for e in prog.effects(bid):
            if not e.touches(R.backlog) or e.spawned:
                continue
            k = e.kind
            if k in ("read", "write", "clear", "handle", "read_first", "read_last"):
                if k == "handle":
                    out.undecided("backlog:%s:%s" % (prog.short(bid), e.lib.split("::")[-1]), prog.loc(*e.leaf()), "mutable view of the backlog handed out")
                continue
            n += 1
            key = "backlog:%s:%s" % (prog.short(bid), e.lib.split("::")[-1])
            if e.lib.split("::")[-1] == "drain":
                # `drain(..n)` / `drain(..)` takes a prefix (or everything) from the front, in order: n pop_fronts
                lb, lbb = e.leaf()
                lt = prog.info(lb).call_at(lbb)
                rng = [a for a in (lt.callee.args if lt is not None and lt.callee is not None else []) if a.startswith("std::ops::Range")]
                if rng and (rng[0].startswith("std::ops::RangeTo<") or rng[0] == "std::ops::RangeFull"):
                    out.holds(key, prog.loc(lb, lbb), "drain of a prefix keeps queue order (%s)" % rng[0].split("::")[-1])
                    continue
            if k == "insert_back" or k == "remove_front":
                out.holds(key, prog.loc(*e.leaf()), "%s keeps queue order" % e.lib.split("::")[-1])
            elif k in ("insert_front", "insert_any", "remove_back", "remove_any", "reorder", "insert", "remove"):
                out.violation(key, prog.loc(*e.leaf()), "`%s` on the backlog breaks FIFO order: first deliveries no longer follow publish order" % e.lib.split("::")[-1])
    if n < 4:
        raise CheckBroken("expected >= 4 backlog insert/remove sites, found %d" % n)
    # what was taken from the front is not put back at the back (a partial take that re-queues its remainder behind later arrivals)
    sl = Slicer(prog)
    seen = set()
    for bid in R.actor_methods(R.sub_actor):
        effs = [e for e in prog.effects(bid) if e.touches(R.backlog) and not e.spawned]
        for e1 in effs:
            if e1.kind != "remove_front":
                continue
            for e2 in effs:
                if e2.kind != "insert_back":
                    continue
                if e1.leaf()[0] != e2.leaf()[0]:
                    # taken and re-queued through wrappers (Messages::pop_front / Messages::append, a local helper): judged at
                    # the two call sites in the actor method -- the value handed to the appending call derives from the
                    # value the popping call returned, and the wrapper appends (a value derived from) its own parameter
                    if e1.body != e2.body or e1.bb == e2.bb or (e1.body, e1.bb, e2.bb, "via") in seen:
                        continue
                    seen.add((e1.body, e1.bb, e2.bb, "via"))
                    bi0 = prog.info(e1.body)
                    tc = bi0.call_at(e2.bb)
                    hb, hbb = e2.leaf()
                    ht = prog.info(hb).call_at(hbb)
                    if tc is None or ht is None or len(ht.args) < 2 or len(tc.args) < 2 or not bi0.cfg.can_reach(e1.bb, e2.bb):
                        continue
                    takes_param = not e2.chain or any(r[0] == "param" and r[1] == hb for r in sl.of(hb, ht.args[1]).roots)
                    passed = any((e1.body, e1.bb) in sl.of(e1.body, a).sites for a in tc.args[1:])
                    if takes_param and passed:
                        out.violation("backlog:%s:rotation" % prog.short(e1.body), bi0.loc(e2.bb), "part of what was taken from the front of the backlog is put "
                                      "back at the *back*: it now waits behind messages that were published later, so first deliveries no longer "
                                      "follow publish order", ["taken at %s" % bi0.loc(e1.bb), "re-queued at %s (%s)" % (bi0.loc(e2.bb), e2.lib.split("::")[-1])])
                    continue
                lb, b1 = e1.leaf()
                b2 = e2.leaf()[1]
                if (lb, b1, b2) in seen:
                    continue
                seen.add((lb, b1, b2))
                li = prog.info(lb)
                t2 = li.call_at(b2)
                if not li.cfg.can_reach(b1, b2) or t2 is None or len(t2.args) < 2:
                    continue
                s2 = sl.of(lb, t2.args[1])
                if (lb, b1) in s2.sites:
                    out.violation("backlog:%s:rotation" % prog.short(lb), li.loc(b2), "part of what was taken from the front of the backlog is put back at the *back*: it "
                                  "now waits behind messages that were published later, so a pull limit that ends inside a Publish request's batch tears the batch "
                                  "apart and delivers later messages first", ["taken at %s" % li.loc(b1), "re-queued with %s at %s" % (e2.lib.split("::")[-1], li.loc(b2))])
    # the vector handed from the publish handler to the backlog is not reordered on the way (post handler)
    for tid in R.variant_targets(R.sub_actor, R.post_variant()):
        ro = [e for e in prog.effects(tid) if e.kind == "reorder"]
        key = "post-handler-order:%s" % prog.short(tid)
        if ro:
            out.violation(key, prog.loc(*ro[0].leaf()), "the post handler reorders the batch before appending it")
        else:
            out.holds(key, prog.loc(tid), "no reordering in the post handler")


@rule("C08", "R08.4", "the Publish response lists the ids in the order the actor issued them", floor=1)
def r08_4(prog, out):
    sl = Slicer(prog)
    h = prog.handler("publish")
    if h is None:
        raise CheckBroken("publish handler not found")
    bi = prog.info(h.root)
    resp = [(bid, bb, i, rv) for (bid, bb, i, rv) in prog.constructions("crate::pubsub_proto::PublishResponse") if bid == h.root]
    if not resp:
        raise CheckBroken("PublishResponse construction not found in the publish handler")
    bid, bb, i, rv = resp[0]
    names = rv.j["fields"]
    op = rv.ops[names.index("message_ids")]
    s = sl.of(h.root, op)
    used = {c.split("::")[-1].split("<")[0] for c in s.calls}
    key = "publish-response-order"
    mid = prog.anchors.cell("MessageId", "value")
    src_ok = ("crate::topics::topic_actor::PublishMessagesResponse", "message_ids") in s.fields
    bad = used & REORDERING
    if not src_ok:
        out.violation(key, bi.loc(bb), "the ids in the Publish response do not come from the actor's reply")
    elif bad:
        out.violation(key, bi.loc(bb), "the id list is passed through %s before it is returned: order / count no longer match the request" % sorted(bad))
    else:
        unknown = used - ORDER_PRESERVING - {"to_string", "publish_messages", "map_err", "branch", "poll", "new", "get_ref", "parse_topic_message", "parse_topic_name",
                                             "get_topic_internal", "from_residual", "unwrap_or", "new_unchecked", "get_context", "fmt", "send", "channel"}
        if unknown:
            out.holds(key, bi.loc(bb), "ids come from the actor's reply through order-preserving adapters (other calls on the path: %s)" % sorted(unknown)[:6])
        else:
            out.holds(key, bi.loc(bb), "ids come from the actor's reply through iter().map(to_string).collect()")


@rule("C08", "R08.5", "one Publish request is handed to the topic actor as one request carrying all its messages", floor=1)
def r08_5(prog, out):
    A = prog.anchors
    sl = Slicer(prog)
    h = prog.handler("publish")
    if h is None:
        raise CheckBroken("publish handler not found")
    target = A.ty("Topic") + "::publish_messages"
    n = 0
    for bid in prog.cone(h.root, follow=("call", "closure", "poll")):
        bi = prog.info(bid)
        if bi is None:
            continue
        for bb, t in bi.calls(lambda c: c.target == target):
            n += 1
            key = "one-request:%s" % prog.short(bid)
            s = sl.of_resolved(bid, t.args[1])
            cut = sorted({c.split("::")[-1] for c in s.calls} & {"chunks", "chunks_exact", "take", "skip", "split_at", "split_off", "drain", "truncate", "step_by", "windows", "filter", "rev",
                                                                 "flat_map", "filter_map", "flatten", "take_while", "skip_while", "map_while", "dedup", "dedup_by_key", "retain",
                                                                 "pop", "swap_remove", "remove", "find_map", "last", "first", "nth"})
            if bi.cfg.in_loop(bb):
                out.violation(key, bi.loc(bb), "Publish sends its messages to the topic actor in several requests (the call sits in a loop): batches of concurrent "
                              "publishers interleave, so the messages of one Publish are neither contiguous nor numbered contiguously")
            elif cut:
                out.violation(key, bi.loc(bb), "the batch handed to the topic actor is built with %s: some of the request's messages can be dropped (or the batch cut), "
                              "so Publish returns fewer ids than messages and ids no longer line up with the request" % cut)
            elif ("crate::pubsub_proto::PublishRequest", "messages") in s.fields:
                out.holds(key, bi.loc(bb), "the whole request.messages vector goes to the actor in one request")
            else:
                out.undecided(key, bi.loc(bb), "origin of the published vector not recognised")
    if n == 0:
        raise CheckBroken("publish handler never calls Topic::publish_messages")
