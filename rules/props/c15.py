"""C15 — pull batches respect their size limit and are empty only when allowed."""
from engine import rule, CheckBroken
from actorlib import roles
from slicing import Slicer
from consumers import find_consumer_loops, const_walk
from common import await_class, short_ty
import libmodel as L


def bounded_by_param(bi, operand, param, depth=0):
    """G6: is the operand provably <= parameter `param`?  True / False (bound provably lost) / None (unknown)"""
    if depth > 12:
        return None
    if operand.place is None:
        return None
    o = bi.trace(operand)
    if o.kind == "local" and isinstance(o.data, int) and not o.path:
        # several assignments (if / else): every one of them must be bounded
        rs = []
        for (db, di) in bi.defs.get(o.data, []):
            if di >= 0:
                st = bi.stmt(db, di)
                if st.rv.k in ("use", "cast") and st.rv.ops:
                    if st.rv.k == "cast":
                        rs.append(bounded_by_param(bi, st.rv.ops[0], param, depth + 1))
                    else:
                        rs.append(bounded_by_param(bi, st.rv.ops[0], param, depth + 1))
                else:
                    rs.append(None)
            else:
                t = bi.body.blocks[db].term
                n = t.callee.path.split("::")[-1] if t.k == "call" and t.callee is not None else ""
                if n in ("len", "capacity", "count"):
                    rs.append(False)       # a container size: unrelated to the requested limit
                else:
                    rs.append(None)
        if rs and all(r is True for r in rs):
            return True
        if any(r is False for r in rs):
            return False
        return None
    if o.kind == "param" and o.data == param and not o.path:
        return True
    if o.kind == "call" and bi.call_at(o.data).callee is not None and bi.call_at(o.data).callee.path.split("::")[-1] in ("len", "capacity", "count"):
        return False
    if o.kind == "cast":
        s = bi.stmt(*o.data)
        frm, to = bi.body.ty(s.rv.j["from"]), bi.body.ty(s.rv.j["to"])
        from intervals import INT_RANGES
        fr, tr = INT_RANGES.get(frm), INT_RANGES.get(to)
        if fr and tr and fr[0] >= 0 and tr[1] >= fr[1]:
            return bounded_by_param(bi, s.rv.ops[0], param, depth + 1)   # widening of a non-negative value
        if fr and tr and fr[0] >= 0:
            return bounded_by_param(bi, s.rv.ops[0], param, depth + 1)   # truncation of a non-negative value only lowers it
        return None
    if o.kind == "call":
        t = bi.call_at(o.data)
        n = t.callee.path.split("::")[-1]
        if n in ("from", "into") and t.callee.path.startswith("std::convert::") and len(t.args) == 1:
            return bounded_by_param(bi, t.args[0], param, depth + 1)     # From between integer types is lossless
        if n == "clamp" and len(t.args) == 3:
            lo = t.args[1].const_int()
            r = bounded_by_param(bi, t.args[0], param, depth + 1)
            if r and lo == 0:
                return True
            return r if r is not True else None
        if n == "min" and len(t.args) == 2:
            a, b = bounded_by_param(bi, t.args[0], param, depth + 1), bounded_by_param(bi, t.args[1], param, depth + 1)
            if a or b:
                return True
            if a is False and b is False:
                return False        # the smaller of two quantities neither of which is bounded by the request
            return None
        if n == "max" and len(t.args) == 2 and any(x.const_int() is not None and x.const_int() <= 1 for x in t.args):
            # max(capacity, 1): "at most max(limit, 1) messages" is exactly the bound this rule states
            other = [x for x in t.args if not (x.const_int() is not None and x.const_int() <= 1)]
            return bounded_by_param(bi, other[0], param, depth + 1) if other else None
        if n in ("max", "saturating_add", "wrapping_add", "checked_add", "add", "saturating_mul", "mul") and len(t.args) >= 2:
            a, b = bounded_by_param(bi, t.args[0], param, depth + 1), bounded_by_param(bi, t.args[1], param, depth + 1)
            if a or b:
                return False
            return None
        return None
    if o.kind == "expr":
        s = bi.stmt(*o.data)
        if s.rv.k == "bin" and s.rv.j["op"] in ("Add", "AddWithOverflow", "Mul", "MulWithOverflow", "BitOr"):
            if any(bounded_by_param(bi, x, param, depth + 1) for x in s.rv.ops):
                return False
    return None


@rule("C15", "R15.1", "the pop loop stops at a capacity that is bounded by the requested limit", floor=2)
def r15_1(prog, out):
    R = roles(prog)
    from props.c02 import iteration_exits
    for bid, effs in R.poppers():
        bi = prog.info(bid)
        b = bi.body
        name = prog.short(bid)
        # the limit parameter: the integer parameter of the popper
        params = [i for i in range(2, b.arg_count + 1) if b.local_ty(i) in ("u16", "u32", "usize", "u64", "i32")]
        if len(params) != 1:
            out.undecided("%s:no-limit-parameter" % name, prog.loc(bid), "this body removes from the backlog but takes no batch limit (%d integer parameters)" % len(params))
            continue
        p = params[0]
        pushes = [bb for bb, t in bi.calls(lambda c: c.path == "std::vec::Vec::<T, A>::push") if prog.anchors.ty("PulledMessage") in (b.operand_ty(t.args[1]) or "")]
        if not pushes:
            # two-phase form: the loop first collects the popped messages themselves, the deliveries are built from that batch
            pop_bbs = {e.bb for e in effs}
            pushes = [bb for bb, t in bi.calls(lambda c: c.path == "std::vec::Vec::<T, A>::push")
                      if any(set(bi.cfg.in_loop(bb)) & set(bi.cfg.in_loop(pb)) for pb in pop_bbs)]
        lazy0 = [e for e in effs if e.chain and prog.facts.body(e.chain[0][0]) is not None and prog.facts.body(e.chain[0][0]).kind == "Closure"]
        if not pushes and not lazy0:
            raise CheckBroken("no push of a delivery / popped message in the pop loop of %s" % name)
        # comparisons len(result) >= cap
        cmps = []
        for blk in b.blocks:
            if blk.cleanup:
                continue
            for i, s in enumerate(blk.stmts):
                if s.k == "assign" and s.rv.k == "bin" and s.rv.j["op"] in ("Ge", "Gt", "Eq", "Lt", "Le", "Ne"):
                    oa = bi.trace(s.rv.ops[0])
                    if oa.kind == "call" and bi.call_at(oa.data).callee.path.endswith("::len"):
                        cmps.append((blk.idx, i, s))
        key = "%s:exit-test" % name
        lazy = [e for e in effs if e.chain and prog.facts.body(e.chain[0][0]) is not None and prog.facts.body(e.chain[0][0]).kind == "Closure"]
        if lazy and not cmps:
            tk = [t for cbb, t in bi.calls(lambda c: c.path == "std::iter::Iterator::take")]
            if tk:
                r = bounded_by_param(bi, tk[0].args[1], p)
                k2 = "%s:capacity<=limit" % name
                if r is True:
                    out.holds(k2, bi.loc(lazy[0].bb), "n of take(n) is derived from the requested limit by clamp/min/widening only")
                elif r is False:
                    out.violation(k2, bi.loc(lazy[0].bb), "n of take(n) is not bounded by the requested limit")
                else:
                    out.undecided(k2, bi.loc(lazy[0].bb), "derivation of n from the limit not recognised")
                if r is True:
                    out.holds(key, bi.loc(lazy[0].bb), "the pops are driven by an iterator cut with take(n), n bounded by the requested limit (at most max(limit, 1))")
                elif r is False:
                    out.violation(key, bi.loc(lazy[0].bb), "the pops are driven by take(n) with n not bounded by the requested limit")
                else:
                    out.undecided(key, bi.loc(lazy[0].bb), "the pops are driven by take(n); derivation of n from the limit not recognised")
            else:
                out.undecided(key, bi.loc(lazy[0].bb), "the backlog is popped inside a closure driven by a lazy iterator without take(): bound not decided")
            continue
        if not cmps:
            out.violation(key, bi.loc(pushes[0]), "the pop loop has no size test: a pull returns the whole backlog regardless of max_messages")
            continue
        cbb, ci, cs = cmps[0]
        pops = {e.bb for e in effs}
        # between a push and the next pop the size test is passed, whether it sits at the end of the body (`if len >= cap
        # { break }`) or in the loop condition (`while len < cap`)
        esc = bi.cfg.path(pushes[0], pops, avoid={cbb}) if pushes[0] not in pops else None
        if esc is not None and len(esc) > 1:
            out.violation(key, bi.loc(esc[-1]), "a message can be pushed to the result and the next one popped without the size test in between")
        else:
            from mapstate import _bool_switches
            sws = _bool_switches(bi, cs.lhs.local) if cs.lhs.is_local() else []
            true_bb, false_bb = (sws[0][1], sws[0][2]) if len(sws) == 1 else (None, None)
            op = cs.rv.j["op"]
            # which arm is taken when len(result) has reached the capacity
            stop_bb = {"Ge": true_bb, "Eq": true_bb, "Gt": true_bb, "Lt": false_bb, "Le": false_bb, "Ne": false_bb}.get(op)
            loops = bi.cfg.in_loop(cbb)
            leaves = stop_bb is not None and loops and not any(bi.cfg.can_reach(stop_bb, p) for p in pops)
            if leaves and op in ("Ge", "Eq", "Lt", "Ne"):
                out.holds(key, bi.loc(cbb), "between two pops the loop goes on only while len(result) < capacity")
            elif leaves:
                out.violation(key, bi.loc(cbb), "the loop ends only when len(result) > capacity: one message more than the limit is returned")
            else:
                out.violation(key, bi.loc(cbb), "reaching the capacity does not end the pop loop")
        key = "%s:capacity<=limit" % name
        r = bounded_by_param(bi, cs.rv.ops[1], p)
        if r is True:
            out.holds(key, bi.loc(cbb), "capacity is derived from the requested limit by clamp/min/widening only: a response holds at most max(limit, 1) messages")
        elif r is False:
            out.violation(key, bi.loc(cbb), "the capacity of a pull is not bounded by the requested limit (it is combined with another quantity by max/+): "
                          "more than max_messages can be returned")
        else:
            out.undecided(key, bi.loc(cbb), "derivation of the capacity from the limit not recognised (%r)" % bi.trace(cs.rv.ops[1]))


@rule("C15", "R15.2", "the limit handed to the actor comes from the request field through non-increasing conversions", floor=2)
def r15_2(prog, out):
    A = prog.anchors
    sl = Slicer(prog)
    # the door(s) to the lease request: methods of the subscription handle that build it, and handle methods wrapping those
    from actorlib import roles
    R = roles(prog)
    handle = A.ty("Subscription")
    builders = {prog.facts.body(b).root or b for b, _, _, _ in prog.constructions(R.sub_actor.request, R.pull_variant())}
    targets = set(builders)
    for b in prog.facts.lib_bodies():
        if b.impl_self == handle and b.kind in ("AssocFn", "Fn") and b.id not in targets:
            if any((prog.facts.body(c).root or c) in builders for c in prog.cone(b.id, follow=("call", "closure", "poll")) if prog.facts.body(c) is not None and c != b.id):
                targets.add(b.id)
    if not targets:
        raise CheckBroken("no handle method builds the lease request")
    fields = {("crate::pubsub_proto::PullRequest", "max_messages"), ("crate::pubsub_proto::StreamingPullRequest", "max_outstanding_messages")}
    n = 0
    for name in ("pull", "streaming_pull"):
        h = prog.handler(name)
        if h is None:
            raise CheckBroken("handler %s not found" % name)
        for bid in prog.cone(h.root, follow=("call", "closure", "poll")):
            bi = prog.info(bid)
            if bi is None:
                continue
            if (prog.facts.body(bid).root or bid) in targets and prog.facts.body(prog.facts.body(bid).root or bid).impl_self == handle:
                continue       # a wrapper calling the builder: judged at the wrapper's own call site
            doors = []
            for bb, t in bi.calls(lambda c: prog.qual(bi.body, c.target) in targets):
                doors.append((bb, [a for a in t.args[1:] if (bi.body.operand_ty(a) or "") in ("u16", "u32", "usize", "u64", "i32")]))
            # the handle method may have been written (or spliced) into the handler: the request is built right here
            for (cb, cbb, ci, crv) in prog.constructions(R.sub_actor.request, R.pull_variant()):
                if cb == bid:
                    doors.append((cbb, [a for a in crv.ops if (bi.body.operand_ty(a) or "") in ("u16", "u32", "usize", "u64", "i32")]))
            for bb, lim in doors:
                if not lim:
                    out.undecided("limit:%s:%s" % (name, prog.short(bid)), bi.loc(bb), "no integer limit argument")
                    continue
                s = sl.of_resolved(bid, lim[0])
                key = "limit:%s:%s" % (name, prog.short(bid))
                src = s.fields & fields
                n += 1
                grow = {o for o in s.ops if o in ("Add", "AddWithOverflow", "Mul", "MulWithOverflow", "Shl", "BitOr")} | \
                       {c.split("::")[-1] for c in s.calls if c.split("::")[-1] in ("max", "saturating_add", "wrapping_add", "checked_add", "pow", "saturating_mul")}
                if not src:
                    out.violation(key, bi.loc(bb), "the batch limit does not come from the request (%s)" % (sorted(s.consts)[:3] or sorted(c.split('::')[-1] for c in s.calls)[:4]))
                elif grow:
                    out.violation(key, bi.loc(bb), "the requested limit is enlarged on its way to the actor (%s)" % sorted(grow))
                else:
                    casts = sorted(o for o in s.ops if o.startswith("cast:"))
                    note = ""
                    if "cast:i32->u16" in casts:
                        note = " (i32 -> u16 truncates: 65536 becomes 0, i.e. one message; it can only lower the bound)"
                    out.holds(key, bi.loc(bb), "limit = %s%s" % (sorted(f[1] for f in src), note))
    if n < 2:
        raise CheckBroken("expected the unary and the streaming pull call, found %d" % n)


@rule("C15", "R15.3", "a unary Pull answers with an empty response only under return_immediately or its timer", floor=2)
def r15_3(prog, out):
    h = prog.handler("pull")
    if h is None:
        raise CheckBroken("pull handler not found")
    resp_ty = "crate::pubsub_proto::PullResponse"
    cone = prog.cone(h.root, follow=("call", "closure", "poll"))
    n = 0
    for (bid, bb, i, rv) in prog.constructions(resp_ty):
        if bid not in cone:
            continue
        n += 1
        bi = prog.info(bid)
        key = "pull-response:%s#%d" % (prog.short(bid), n)
        # A response may be empty only (a) after the server-side timer fired, (c) when return_immediately is set; otherwise it
        # is built (b) only when the pulled batch is not empty.  The three conditions may be combined in any way
        # (`if got || return_immediately`): the response block must be unreachable once the three kinds of edges are removed.
        from props.c07 import is_const_sleep
        from mapstate import _bool_switches
        good = set()
        why = []
        sleeps = [a for a in bi.awaits if await_class(prog, bi, a) == "sleep"]
        if sleeps and all(is_const_sleep(prog, bi, a) for a in sleeps):
            for a in sleeps:
                sw = bi.body.blocks[a.poll_bb].term.target
                if sw is not None and a.ready_bb is not None:
                    for s2 in bi.cfg.succ[sw]:
                        if bi._skip_false(s2) == a.ready_bb or s2 == a.ready_bb:
                            good.add((sw, s2))
                            why.append("timer")
        for cbb, t in bi.calls():
            if t.callee.path.split("::")[-1] == "is_empty" and t.args and "ReceivedMessage" in (bi.body.operand_ty(t.args[0]) or "") \
                    and t.dest is not None and t.dest.is_local():
                for sw, tr, fa in _bool_switches(bi, t.dest.local):
                    good.add((sw, fa))
                    why.append("non-empty")
        ri_cell = ("crate::pubsub_proto::PullRequest", "return_immediately")

        def is_ri(place, bi=bi, bid=bid):
            o = prog.receiver_origin(bi, place)
            if ri_cell in o.cells() and o.cells()[-1] == ri_cell:
                return True
            if o.kind == "upvar" and (bi.body.place_ty(place) or "") == "bool":
                # read once in the enclosing body and captured by the loop's future
                s0 = Slicer(prog).of_resolved(bid, place)
                return s0.fields == {ri_cell} or (ri_cell in s0.fields and all(f2[0].startswith("crate::pubsub_proto::PullRequest") or f2[0].startswith("tonic::") for f2 in s0.fields))
            return False
        for blk in bi.body.blocks:
            if blk.cleanup:
                continue
            for st in blk.stmts:
                if st.k == "assign" and st.lhs.is_local() and st.rv.k == "use" and st.rv.ops[0].place is not None \
                        and is_ri(st.rv.ops[0].place):
                    for sw, tr, fa in _bool_switches(bi, st.lhs.local):
                        good.add((sw, tr))
                        why.append("return_immediately")
            t = blk.term
            if t.k == "switch" and t.discr is not None and t.discr.place is not None and not t.discr.place.is_local():
                o = prog.receiver_origin(bi, t.discr)
                if o.cells() and o.cells()[-1] == ri_cell:
                    good.add((blk.idx, t.otherwise))
                    why.append("return_immediately")
        free = bi.cfg.reach_avoiding_edges(0, good)
        if bb not in bi.cfg.reach:
            continue
        if bb not in free:
            out.holds(key, bi.loc(bb), "built only after one of: %s" % ", ".join(sorted(set(why))))
            continue
        # the decision may be recorded first (an enum `Respond(batch) | Wait`, a flag) and acted on later: follow constants
        labels = const_walk(bi, 0, lambda x: "response" if x == bb else None, max_steps=40000, blocked_edges=set(good))
        if "response" not in labels and "unknown" not in labels:
            out.holds(key, bi.loc(bb), "built only after one of: %s (the decision is carried in a value; followed by constant propagation)" % ", ".join(sorted(set(why))))
        else:
            out.violation(key, bi.loc(bb), "a Pull response can be returned here although it may be empty, return_immediately is not set and the server-side timer has not fired")
    if n < 1:
        raise CheckBroken("no PullResponse construction in the pull flow")
    # the non-empty answer is given before any wait
    loops = [cl for cl in find_consumer_loops(prog) if cl.body.startswith(h.wrapper)]
    for cl in loops:
        bi = prog.info(cl.body)
        for p in cl.pulls:
            key = "pull-answers-before-waiting:%s" % cl.label
            waits = {a.poll_bb for a in cl.waits}
            # from the pull's continuation, a return must be reachable without passing the wait
            if bi.cfg.path(p.ready_bb, set(bi.cfg.returns), avoid=waits) is not None and all(bi.cfg.dominates(p.poll_bb, w) for w in waits):
                out.holds(key, bi.loc(p.poll_bb), "each iteration pulls first and can answer without waiting")
            else:
                out.violation(key, bi.loc(p.poll_bb), "the pull loop waits before it has looked at the backlog: available messages are not returned at once")


@rule("C15", "R15.4", "each streamed response carries the result of exactly one pull", floor=1)
def r15_4(prog, out):
    sl = Slicer(prog)
    h = prog.handler("streaming_pull")
    loops = [cl for cl in find_consumer_loops(prog) if cl.body.startswith(h.wrapper)]
    if not loops:
        raise CheckBroken("streaming consumer loop not found")
    for cl in loops:
        bi = prog.info(cl.body)
        cons = [(bid, bb, i, rv) for (bid, bb, i, rv) in prog.constructions("crate::pubsub_proto::StreamingPullResponse") if bid == cl.body]
        for (bid, bb, i, rv) in cons:
            names = rv.j["fields"]
            op = rv.ops[names.index("received_messages")]
            o = bi.trace(op)
            key = "stream-item:%s" % cl.label
            pull = cl.pulls[0]
            s0 = sl.of(bid, op)
            pull_site = pull.origin.data if pull.origin is not None and pull.origin.kind == "call" else None
            via_slice = pull_site is not None and (bid, pull_site) in s0.sites and pull_site in cl.blocks and bb in cl.blocks \
                and bi.cfg.dominates(pull.poll_bb, bb)
            if (o.kind == "call" and o.data in cl.blocks and bi.cfg.dominates(pull.poll_bb, o.data) and bb in cl.blocks) or via_slice:
                s = sl.of(bid, op)
                acc = [c for c in s.calls if c.split("::")[-1] in ("extend", "append", "extend_from_slice")]
                if acc:
                    out.violation(key, bi.loc(bb), "the streamed item accumulates messages across pulls (%s): it can exceed max_outstanding_messages" % acc[0].split("::")[-1])
                else:
                    out.holds(key, bi.loc(bb), "the item's messages are collected from the pull of the same iteration")
            else:
                out.violation(key, bi.loc(bb), "the streamed item's messages are not built from the pull of the same iteration (%r)" % o)
        if not cons:
            raise CheckBroken("no StreamingPullResponse built in the streaming loop")


def first_iteration_runs(bi):
    """blocks behind the exit edge of a loop guard `result.len() < limit` that cannot be taken on the first arrival: `result`
    is a vector this body created (still empty before the first pop) and `limit` is at least 1 (`x.max(1)`, a constant >= 1).
    A path that avoids every pop can only reach the guard with an empty result, so for that search the exit edge is dead."""
    from mapstate import _bool_switches
    body = bi.body
    dead = set()

    def fresh_vec_len(op):
        o = bi.trace(op)
        if o.kind != "call" or o.path:
            return False
        t = bi.call_at(o.data)
        if t.callee is None or not t.callee.path.endswith("::len") or "Vec" not in t.callee.path:
            return False
        v = bi.trace(t.args[0], transparent=None)
        if v.kind != "call" or v.path:
            return False
        c = bi.call_at(v.data).callee
        return c is not None and c.path.split("::")[-1] in ("new", "with_capacity", "default") and "Vec" in c.path

    def at_least_one(op, depth=0):
        if op.const_int() is not None:
            return op.const_int() >= 1
        if depth > 4:
            return False
        o = bi.trace(op)
        if o.kind == "cast" and not o.path:
            return at_least_one(bi.stmt(*o.data).rv.ops[0], depth + 1)
        if o.kind == "call" and not o.path:
            t = bi.call_at(o.data)
            n = t.callee.path.split("::")[-1] if t.callee is not None else ""
            if n == "max" and len(t.args) == 2:
                return any(at_least_one(a, depth + 1) for a in t.args)
            if n == "clamp" and len(t.args) == 3:
                return at_least_one(t.args[1], depth + 1)
        if o.kind in ("expr", "bin", "binop", "stmt") and isinstance(o.data, tuple):
            st0 = bi.stmt(*o.data)
            if st0.k == "assign" and st0.rv.k == "bin" and st0.rv.j["op"] in ("Sub", "SubWithOverflow") and fresh_vec_len(st0.rv.ops[1]):
                return at_least_one(st0.rv.ops[0], depth + 1)
        if o.kind == "local" and isinstance(o.data, int) and not o.path:
            # `limit - result.len()` with the result still empty: (checked) subtraction of the fresh vector's length
            for (db, di) in bi.defs.get(o.data, []):
                if di < 0:
                    continue
                st0 = bi.stmt(db, di)
                if st0.k == "assign" and st0.rv.k == "bin" and st0.rv.j["op"] in ("Sub", "SubWithOverflow") and fresh_vec_len(st0.rv.ops[1]):
                    return at_least_one(st0.rv.ops[0], depth + 1)
                if st0.k == "assign" and st0.rv.k == "use" and st0.rv.ops[0].place is not None and st0.rv.ops[0].place.proj == [] :
                    return at_least_one(st0.rv.ops[0], depth + 1)
        return False

    for blk in body.blocks:
        if blk.cleanup or blk.idx not in bi.cfg.reach:
            continue
        for st in blk.stmts:
            if st.k == "assign" and st.lhs.is_local() and st.rv.k == "bin" and st.rv.j["op"] in ("Lt", "Gt", "Le", "Ge", "Ne"):
                a, b2 = st.rv.ops
                op = st.rv.j["op"]
                # normalise to len OP limit
                if fresh_vec_len(a) and at_least_one(b2):
                    true_when_empty = op in ("Lt", "Le", "Ne")          # 0 < L, 0 <= L, 0 != L  with L >= 1
                elif fresh_vec_len(b2) and at_least_one(a):
                    true_when_empty = op in ("Gt", "Ge", "Ne")          # L > 0 ..
                else:
                    continue
                if not true_when_empty:
                    continue
                for sw, tr, fa in _bool_switches(bi, st.lhs.local):
                    if fa is not None:
                        dead |= bi.cfg.edge_dominated(sw, fa)
            # `if limit == 0 { return None }` inside a taking helper, limit >= 1 on the first arrival
            if st.k == "assign" and st.lhs.is_local() and st.rv.k == "bin" and st.rv.j["op"] in ("Eq", "Ne"):
                a, b2 = st.rv.ops
                x = a if b2.const_int() == 0 else b2 if a.const_int() == 0 else None
                if x is not None and x.place is not None and at_least_one(x):
                    for sw, tr, fa in _bool_switches(bi, st.lhs.local):
                        gone = tr if st.rv.j["op"] == "Eq" else fa
                        if gone is not None:
                            dead |= bi.cfg.edge_dominated(sw, gone)
    return dead


@rule("C15", "R15.5", "the lease handler answers without popping only when the backlog is empty (or the subscription deleted)", floor=1)
@rule("C01", "R15.5", "the lease handler answers without popping only when the backlog is empty (or the subscription deleted)", floor=1)
@rule("C06", "R15.5", "the lease handler answers without popping only when the backlog is empty (or the subscription deleted)", floor=1)
def r15_5(prog, out):
    """A pull that finds messages waiting hands out at least one.  Every normal path through the handler that pops the
    backlog either attempts a pop, or runs where the backlog was found empty by an exact test (`is_empty()`, `len() == 0`
    -- not a narrowed or capped copy of the length), or under the actor's deleted flag.  A count computed as
    `min(limit, len as u16)` is zero for a backlog of 65536: the handler answers empty for ever although messages wait."""
    from actorlib import roles
    from props.c11 import flag_regions
    from props.c12 import error_blocks
    from props.c13 import emptiness_regions
    R = roles(prog)
    A = prog.anchors
    flag = A.cell("SubscriptionActor", "deleted", optional=True)
    n = 0
    for bid, effs in R.poppers():
        bi = prog.info(bid)
        pops = {e.bb for e in effs if e.touches(R.backlog) and e.kind in L.REMOVE_KINDS}
        if not pops:
            continue
        n += 1
        key = "pop-or-empty:%s" % prog.short(bid)
        _fa, deleted = flag_regions(prog, bi, flag)
        empty, _ne = emptiness_regions(prog, bi)
        # `front()` / `front_mut()` / `first()` of the backlog's queue answering None is an exact emptiness test too
        from mapstate import presence_switches
        for fbb, ft in bi.calls(lambda c: c.path.split("::")[-1] in ("front", "front_mut", "back", "first", "last") and ("VecDeque" in c.path or "slice" in c.path or "Vec" in c.path)):
            ro = prog.receiver_origin(bi, ft.args[0]) if ft.args else None
            if ro is None or R.backlog not in (ro.cells() if hasattr(ro, "cells") else []):
                continue
            for sw, pt, at in presence_switches(bi, fbb, "option"):
                if at is not None and at != "self":
                    empty |= bi.cfg.edge_dominated(sw, at)
        esc = bi.cfg.escapes(0, pops | deleted | error_blocks(bi) | empty | first_iteration_runs(bi), after=False)
        if esc is None:
            out.holds(key, prog.loc(bid), "every normal path attempts a pop, or knows the backlog is empty / the subscription deleted")
        else:
            site = esc[-1]
            for x in esc:
                if bi.body.blocks[x].term.k == "switch":
                    site = x
            out.violation(key, bi.loc(site), "the handler can answer without looking at the backlog on a path that is not guarded by an exact emptiness test: "
                          "a pull returns nothing although messages are waiting", ["bb%d (%s)" % (x, bi.loc(x)) for x in esc][:8])
    if n == 0:
        raise CheckBroken("no handler pops the backlog")
