"""C17 — malformed requests are rejected cleanly and change nothing."""
import re
from engine import rule, CheckBroken
from events import EventModel, Walker
from intervals import IntervalWalker, INT_RANGES
from slicing import Slicer
from common import short_ty
import libmodel as L
from props.c16 import cancellable_roots, model

RAW_TYPES = ("&str", "std::string::String", "&std::string::String", "i32", "i64", "&[std::string::String]", "&[i32]", "&std::vec::Vec<")


@rule("C17", "R17.1", "validate before mutate: no state effect precedes a possible INVALID_ARGUMENT rejection", floor=25)
def r17_1(prog, out):
    m = model(prog)
    for label, bid, kind in cancellable_roots(prog):
        w = Walker(m, lease_exempt=False)
        w.run(bid)
        if not w.ev:
            out.holds("root:%s" % label, prog.loc(bid), "every parser / validation that can reject runs before the first state effect")
            continue
        by_v = {}
        for (l1, lv), (e1, v) in sorted(w.ev.items()):
            by_v.setdefault(lv, []).append((e1, v))
        for lv, lst in sorted(by_v.items()):
            e1, v = lst[0]
            e1s = sorted({a.label for a, _ in lst})
            out.violation("root:%s:{%s}=>%s" % (label, "; ".join(e1s), lv), v.site,
                          "a request can be rejected with INVALID_ARGUMENT (%s at %s) after part of it was applied: {%s} (e.g. at %s) happens first"
                          % (lv, v.site, "; ".join(e1s), e1.site),
                          ["effect: %s at %s" % (e1.label, e1.site), "later validation: %s at %s" % (lv, v.site)])


def is_raw(ty):
    return any(ty == r or ty.startswith(r) for r in RAW_TYPES) or "crate::pubsub_proto::" in ty


def parse_roots(prog):
    """raw-field parsers: everything in api::parser, plus fn(&str) -> Option/Result<Self> constructors"""
    roots = []
    for b in prog.facts.lib_bodies():
        if b.kind not in ("Fn", "AssocFn") or b.coroutine:
            continue
        if b.id.startswith("crate::api::parser::") and "::{" not in b.id:
            roots.append(b.id)
        elif b.kind == "AssocFn" and b.arg_count == 1 and b.local_ty(1) == "&str" and b.impl_self and b.impl_trait is None \
                and b.impl_self in b.local_ty(0) and ("Option<" in b.local_ty(0) or "Result<" in b.local_ty(0)):
            roots.append(b.id)
    return roots


def raw_cone(prog, roots):
    """bodies reachable from the parsers through calls/closures whose parameters still carry raw input"""
    seen, order = set(), []
    stack = list(roots)
    left = []
    while stack:
        x = stack.pop()
        if x in seen:
            continue
        seen.add(x)
        order.append(x)
        for e in prog.edges(x):
            if e.kind not in ("call", "closure"):
                continue
            db = prog.facts.body(e.dst)
            if db is None:
                continue
            if e.kind == "call":
                ptys = [db.local_ty(i) for i in range(1, db.arg_count + 1)]
                if not any(is_raw(t) for t in ptys):
                    left.append((x, e.bb, e.dst))
                    continue
            stack.append(e.dst)
    return order, left


def index_from_find(bi, t):
    """`s.split_at(i)` where i is the position `s.find(..)` / `s.rfind(..)` returned for the same string: always a character
    boundary inside the string, cannot panic"""
    if t.callee.path.split("::")[-1] not in ("split_at", "split_at_mut") or len(t.args) != 2 or "str" not in t.callee.path:
        return False
    o = bi.trace(t.args[1])
    for _ in range(3):
        if o.kind != "call":
            return False
        c = bi.call_at(o.data)
        n = c.callee.path.split("::")[-1] if c.callee is not None else ""
        if c.callee is not None and c.callee.path == "std::ops::Try::branch":
            o = bi.trace(c.args[0])
            continue
        if n in ("find", "rfind") and "str" in c.callee.path:
            return bi.trace(c.args[0]).key() == bi.trace(t.args[0]).key()
        return False
    return False


@rule("C17", "R17.2", "the raw-field parse cone contains no call that can panic", floor=10)
def r17_2(prog, out):
    roots = parse_roots(prog)
    if len(roots) < 8:
        raise CheckBroken("expected >= 8 raw-field parsers, found %d" % len(roots))
    cone, left = raw_cone(prog, roots)
    for bid in cone:
        bi = prog.info(bid)
        bad = []
        notes = []
        for blk in bi.body.blocks:
            if blk.cleanup or blk.idx not in bi.cfg.reach:
                continue
            t = blk.term
            if t.k == "call" and t.callee is not None:
                p = t.callee.path
                if p in L.MAY_PANIC and not (t.exp and any("select!" in e or "unreachable" in e or "debug_assert" in e for e in t.exp)) and not index_from_find(bi, t):
                    bad.append((blk.idx, p))
                if p.startswith("<tokio::time::Instant as std::ops::Add") or t.callee.target.startswith("<tokio::time::Instant as std::ops::Add"):
                    notes.append("Instant + Duration")
            elif t.k == "assert":
                msg = t.j.get("msg")
                if msg == "BoundsCheck":
                    bad.append((blk.idx, "index bounds check"))
                elif msg in ("DivisionByZero", "RemainderByZero"):
                    # only a divisor the request can influence makes this `panics on some inputs` (`hash % self.slots.len()` of a
                    # fixed-size table does not)
                    dep = True
                    for st in blk.stmts:
                        if st.k == "assign" and st.rv.k == "bin" and st.rv.j["op"] == "Eq" and any(o.const_int() == 0 for o in st.rv.ops):
                            dv = [o for o in st.rv.ops if o.place is not None]
                            if dv:
                                sd = Slicer(prog).of_resolved(bid, dv[0])
                                dep = any(f[0].startswith("crate::pubsub_proto") for f in sd.fields) or any(
                                    r[0] == "param" and (prog.facts.body(r[1]) is not None and (prog.facts.body(r[1]).local_ty(r[2]) or "") in ("&str", "std::string::String", "&std::string::String"))
                                    for r in sd.roots) or any(r[0] == "unknown" for r in sd.roots)
                    if dep:
                        bad.append((blk.idx, msg))
                    else:
                        notes.append("%s on a divisor that does not depend on the request at %s" % (msg, bi.loc(blk.idx)))
                elif msg == "Overflow":
                    notes.append("overflow-checked arithmetic at %s" % bi.loc(blk.idx))
        key = "parser:%s" % prog.short(bid)
        if bad:
            bb, p = bad[0]
            out.violation(key, bi.loc(bb), "%s is reachable from request parsing and calls %s, which panics on some inputs "
                          "instead of returning INVALID_ARGUMENT" % (prog.short(bid), p.split("::")[-1] if "::" in p else p))
        else:
            out.holds(key, prog.loc(bid), "no panicking call / indexing" + ("; notes: %s" % sorted(set(notes))[:3] if notes else ""))
    # arithmetic on lengths in the name parsers: additions of constants and of a substring length
    for (src, bb, dst) in left:
        pass


def request_field_casts(prog):
    """IntToInt casts whose operand derives from a request (pubsub_proto) field"""
    sl = Slicer(prog)
    out = []
    for bid, b in prog.facts.bodies.items():
        if b.crate != "lib" or b.file.startswith("/"):
            continue
        bi = prog.info(bid)
        for blk in b.blocks:
            if blk.cleanup:
                continue
            for i, s in enumerate(blk.stmts):
                if s.k == "assign" and s.rv.k == "cast" and s.rv.j["ck"] == "IntToInt" and not s.exp:
                    frm, to = b.ty(s.rv.j["from"]), b.ty(s.rv.j["to"])
                    if s.rv.ops[0].is_const():
                        continue
                    sc = sl.of(bid, s.rv.ops[0])
                    proto = [f for f in sc.fields if f[0].startswith("crate::pubsub_proto::")]
                    raw_param = any(r[0] == "param" and b.local_ty(r[2]) in ("i32", "i64") and b.id.startswith("crate::api::parser") for r in sc.roots)
                    if proto or raw_param:
                        out.append((bid, blk.idx, i, s, frm, to, proto))
    return out


@rule("C17", "R17.3", "lossy integer conversions of request fields are guarded", floor=3)
def r17_3(prog, out):
    casts = request_field_casts(prog)
    # conversions of request integers written without `as` (TryFrom / From / unsigned_abs) cannot wrap silently: they count as
    # analysed sites, so that a code base that has replaced its casts by checked conversions is not `fewer instances than counted`
    sl0 = Slicer(prog)
    for bid0, b0 in prog.facts.bodies.items():
        if b0.crate != "lib" or b0.file.startswith("/"):
            continue
        bi0 = prog.info(bid0)
        for cbb, t in bi0.calls(lambda c: c.path in ("std::convert::TryFrom::try_from", "std::convert::From::from", "std::convert::TryInto::try_into", "std::convert::Into::into")
                                or c.path.split("::")[-1] == "unsigned_abs"):
            if not t.args or (b0.operand_ty(t.args[0]) or "") not in ("i32", "i64", "u32", "u64", "usize", "i16", "u16"):
                continue
            sc = sl0.of(bid0, t.args[0])
            proto = [f for f in sc.fields if f[0].startswith("crate::pubsub_proto::")]
            raw_param = any(r[0] == "param" and b0.local_ty(r[2]) in ("i32", "i64") and b0.id.startswith("crate::api::parser") for r in sc.roots)
            if proto or raw_param:
                out.holds("conv:%s:%s:%s" % (prog.short(bid0), t.callee.path.split("::")[-1], ".".join(f[1] for f in sorted(proto)) or "param"), bi0.loc(cbb),
                          "checked / lossless conversion (no `as`)")
    for (bid, bb, i, s, frm, to, proto) in casts:
        bi = prog.info(bid)
        b = bi.body
        src = bi.trace(s.rv.ops[0])
        key = "cast:%s:%s->%s:%s" % (prog.short(bid), frm, to, ".".join(f[1] for f in sorted(proto)) or "param")
        flo, fhi = INT_RANGES.get(frm, (None, None))
        tlo, thi = INT_RANGES.get(to, (None, None))
        if flo is None or tlo is None:
            out.undecided(key, bi.loc(bb), "non-integer cast")
            continue
        if tlo <= flo and fhi <= thi:
            out.holds(key, bi.loc(bb), "widening cast, lossless")
            continue
        srckey = src.key()
        # the operand may be min / max / clamp of the raw value with constants (`raw.min(600) as u64`): bound the raw value
        # by the guards, then apply the expression
        expr = None
        if src.kind == "call" and not src.path:
            from props.c05 import _value_expr, _pieces
            base = {}

            def is_base(o, base=base):
                if o.kind in ("param", "upvar") or any(c[0].startswith("crate::pubsub_proto::") for c in o.cells()):
                    if "k" not in base:
                        base["k"] = o.key()
                    return base["k"] == o.key()
                return False
            expr = _value_expr(bi, s.rv.ops[0], is_base)
            if expr is not None and "k" in base and expr[0] in ("max", "min", "clamp"):
                srckey = base["k"]
            else:
                expr = None
        w = IntervalWalker(prog, bid, lambda o: o.key() == srckey, frm)
        # interval of the input at the cast: walk from the entry of the guard region to the cast's block
        lo, hi = region_interval_at(prog, bi, w, bb)
        if expr is not None and lo is not None:
            vals = []
            for (a, b2, pe) in _pieces(expr, lo, hi):
                if pe[0] == "const":
                    vals += [pe[1], pe[1]]
                elif pe[0] == "input":
                    vals += [a, b2]
                else:
                    vals = None
                    break
            if vals:
                lo, hi = min(vals), max(vals)
            else:
                lo, hi = None, None
                w.undecided_reason = "expression over the input not recognised"
        if lo is not None and not (tlo <= lo and hi <= thi) and b.kind == "Closure" and not b.coroutine and b.parent and proto:
            # `(raw > 0).then(|| raw as u64)`: the closure only runs when the condition held
            pid = prog.qual(b, b.parent)
            pi = prog.info(pid)
            if pi is not None:
                for pbb, pt in pi.calls(lambda c: c.path.split("::")[-1] in ("then", "then_some") and "bool" in c.path):
                    co = pi.trace(pt.args[1]) if len(pt.args) > 1 else None
                    if co is None or co.kind != "agg" or prog.qual(pi.body, pi.agg_at(co.data).j.get("def", "")) != bid:
                        continue
                    pw = IntervalWalker(prog, pid, lambda o: bool(set(o.cells()) & set(proto)) and o.cells()[-1] in proto, frm)
                    if pt.args[0].place is None or not pt.args[0].place.is_local():
                        continue
                    cond = pw._cond(pbb, pt.args[0].place.local)
                    if cond is None:
                        cd = pi.trace(pt.args[0])
                        if cd.kind == "local" or cd.kind == "expr":
                            pass
                        # the bool may be a moved copy of the comparison
                        ds = pi.defs.get(pt.args[0].place.local, [])
                        if len(ds) == 1 and ds[0][1] >= 0:
                            st0 = pi.stmt(*ds[0])
                            if st0.rv.k == "use" and st0.rv.ops[0].place is not None and st0.rv.ops[0].place.is_local():
                                cond = pw._cond(pbb, st0.rv.ops[0].place.local)
                    if cond is not None:
                        plo, phi = region_interval_at(prog, pi, pw, pbb)
                        if plo is not None:
                            l2, h2, _e = IntervalWalker._refine(plo, phi, frozenset(), cond[0], cond[1], True)
                            lo, hi = max(lo, l2), min(hi, h2)
        if lo is None:
            out.undecided(key, bi.loc(bb), "value range at the cast not determined (%s)" % w.undecided_reason)
        elif tlo <= lo and hi <= thi:
            out.holds(key, bi.loc(bb), "operand proven within [%d,%d] at the cast: lossless" % (lo, hi))
        else:
            # declared exception: the pull batch size (C15 documents the wrap and its consequence)
            if to == "u16" and any(f[1] == "max_messages" for f in proto):
                out.holds(key, bi.loc(bb), "listed lossy cast: max_messages as u16 truncates (65536 -> 0 -> one message); it can only lower the batch bound (C15 R15.2)", nontrivial=True)
            elif to == "i32" and frm == "u64" and (not proto or (src.kind == "call" and not src.path and bi.call_at(src.data).callee is not None
                                                                 and bi.call_at(src.data).callee.path == "std::time::Duration::as_secs")):
                out.holds(key, bi.loc(bb), "response-side cast of a stored duration (seconds of a Duration built from a clamped i32, R04.3)")
            elif range_guarded(prog, bi, bb, srckey):
                out.undecided(key, bi.loc(bb), "the cast runs only where a range membership test (`RANGE.contains(&v)`) of the value succeeded; the bounds of the range "
                              "constant are not evaluated")
            else:
                out.violation(key, bi.loc(bb), "request value in [%d,%d] is cast %s -> %s without a guard: out-of-range values wrap silently" % (lo, hi, frm, to))


def range_guarded(prog, bi, target_bb, srckey):
    """target_bb lies on the true arm of `<range>.contains(&value)` for the analysed value"""
    from mapstate import _bool_switches
    for cbb, t in bi.calls(lambda c: c.path.split("::")[-1] == "contains" and "ops::Range" in c.path):
        if len(t.args) < 2 or t.dest is None or not t.dest.is_local():
            continue
        if bi.trace(t.args[1]).key() != srckey:
            continue
        for sw, tr, fa in _bool_switches(bi, t.dest.local):
            if tr is not None and target_bb in bi.cfg.edge_dominated(sw, tr):
                return True
    return False


def region_interval_at(prog, bi, w, target_bb):
    """interval of the walker's input over all paths from the nearest dominating comparison region to target_bb"""
    # start: the outermost dominator of target that lies after the input's definition; walking from the entry of a
    # big handler explodes, so start at the first block that compares the input and dominates target (or target itself)
    cands = []
    for blk in bi.body.blocks:
        if blk.cleanup or blk.idx not in bi.cfg.reach:
            continue
        t = blk.term
        if t.k == "switch" and t.discr is not None and t.discr.place is not None and t.discr.place.is_local():
            if w._cond(blk.idx, t.discr.place.local) is not None or w._is_in(t.discr):
                if bi.cfg.dominates(blk.idx, target_bb):
                    cands.append(blk.idx)
    lo0, hi0 = w.range
    if not cands:
        return lo0, hi0
    start = cands[0]
    for c in cands:
        if bi.cfg.dominates(c, start):
            start = c
    only = {x for x in bi.cfg.reach if bi.cfg.can_reach(x, target_bb)}
    paths = w.paths(start=start, stop=target_bb, only=only)
    if paths is None:
        return None, None
    los = [p.lo for p in paths if p.end == target_bb]
    his = [p.hi for p in paths if p.end == target_bb]
    if not los:
        return None, None
    return min(los), max(his)


def table_decisions(prog, bi, flag_local, negated=False):
    """The flag is not branched on directly but put into a table (`[("name", flag), ..]`) that is searched with
    `iter().find(|(_, set)| *set)` / `any` / `position`: [(switch, target when some flag is set, target when none is)].
    `negated`: the table holds `!flag`."""
    from mapstate import _bool_switches, presence_switches
    from props.c05 import flows_into
    out = []
    src = flag_local
    if negated:
        # the local holding `!flag`
        for blk in bi.body.blocks:
            for st in blk.stmts:
                if st.k == "assign" and st.lhs.is_local() and st.rv.k == "un" and st.rv.j.get("op") == "Not" and st.rv.ops[0].place is not None \
                        and st.rv.ops[0].place.local == flag_local:
                    src = st.lhs.local
        if src == flag_local:
            return out
    for bb, t in bi.calls(lambda c: c.path in ("std::iter::Iterator::find", "std::iter::Iterator::any", "std::iter::Iterator::position")):
        if not t.args or t.args[0].place is None or t.dest is None or not t.dest.is_local():
            continue
        if not flows_into(bi, src, {t.args[0].place.local}):
            continue
        # the predicate only looks at the stored flag (no calls in the closure)
        co = bi.trace(t.args[1]) if len(t.args) > 1 else None
        if co is None or co.kind != "agg":
            continue
        cid = prog.qual(bi.body, bi.agg_at(co.data).j.get("def", ""))
        ci = prog.info(cid)
        if ci is None or any(True for _ in ci.calls()):
            continue
        if t.callee.path.endswith("::any"):
            out += [(sw, tr, fa) for sw, tr, fa in _bool_switches(bi, t.dest.local)]
        else:
            out += [(sw, pt, at) for sw, pt, at in presence_switches(bi, bb, "option") if at != "self"]
    return out


@rule("C17", "R17.4", "a later StreamingPull message that sets subscription / max_outstanding_* is rejected with INVALID_ARGUMENT; an unset field is not", floor=3)
def r17_4(prog, out):
    """`set` for a proto3 scalar means different from the default: every value >= 1 of the two flow-control settings and
    every non-empty subscription string must take the rejecting arm, 0 / "" must not."""
    from mapstate import _bool_switches
    from common import await_class
    req = "crate::pubsub_proto::StreamingPullRequest"
    numeric = ("max_outstanding_bytes", "max_outstanding_messages")
    found = set()
    for b in prog.facts.lib_bodies():
        if b.file.startswith("/") or not b.coroutine:
            continue
        bi = prog.info(b.id)

        def rejects(tgt):
            """every way on from tgt builds an INVALID_ARGUMENT status"""
            if tgt is None:
                return False
            ia = {bb for bb, t in bi.calls(lambda c: c.path == "tonic::Status::invalid_argument")}
            region = bi.cfg.reachable_from(tgt)
            return bool(ia & region) and bi.cfg.escapes(tgt, ia, after=False) is None

        for blk in b.blocks:
            if blk.cleanup or blk.idx not in bi.cfg.reach:
                continue
            for st in blk.stmts:
                if st.k != "assign" or not st.lhs.is_local() or st.rv.k != "bin" or st.rv.j["op"] not in ("Gt", "Ge", "Lt", "Le", "Eq", "Ne"):
                    continue
                a, c2 = st.rv.ops
                op = st.rv.j["op"]
                fld = None
                for x, y, flip in ((a, c2, False), (c2, a, True)):
                    if x.place is not None and y.const_int() is not None:
                        cs = prog.receiver_origin(bi, x.place).cells()
                        if cs and cs[-1][0] == req and cs[-1][1] in numeric:
                            fld, cst = cs[-1][1], y.const_int()
                            if flip:
                                op = {"Lt": "Gt", "Le": "Ge", "Gt": "Lt", "Ge": "Le", "Eq": "Eq", "Ne": "Ne"}[op]
                if fld is None:
                    continue
                ev = {"Eq": lambda v: v == cst, "Ne": lambda v: v != cst, "Gt": lambda v: v > cst, "Ge": lambda v: v >= cst,
                      "Lt": lambda v: v < cst, "Le": lambda v: v <= cst}[op]
                decisions = list(_bool_switches(bi, st.lhs.local))
                decisions += table_decisions(prog, bi, st.lhs.local)
                for sw, tr, fa in decisions:
                    tr_rej, fa_rej = rejects(tr), rejects(fa)
                    if tr_rej == fa_rej:
                        continue
                    found.add(fld)
                    rej = (lambda v: ev(v)) if tr_rej else (lambda v: not ev(v))
                    key = "control-field:%s" % fld
                    missed = [v for v in (1, 2, 1000, 2 ** 63 - 1) if not rej(v)]
                    if rej(0):
                        out.violation(key, bi.loc(sw), "a control message that leaves %s unset (0) is rejected" % fld)
                    elif missed:
                        out.violation(key, bi.loc(sw), "a later StreamingPull message that sets %s to %s is accepted instead of being rejected with INVALID_ARGUMENT" % (fld, missed[0]))
                    else:
                        out.holds(key, bi.loc(sw), "%s >= 1 -> INVALID_ARGUMENT, 0 accepted" % fld)
        for bb, t in bi.calls(lambda c: c.path.endswith("::is_empty")):
            if not t.args or t.dest is None or not t.dest.is_local():
                continue
            cs = prog.receiver_origin(bi, t.args[0]).cells()
            if not (cs and cs[-1] == (req, "subscription")):
                continue
            # only the per-message check (the first request's subscription is parsed, not tested for emptiness)
            subs = list(_bool_switches(bi, t.dest.local))
            # through a table of (name, is_set) searched with find / any: is_set = !is_empty(), found <=> some flag set
            subs += [(sw, fa2, tr2) for (sw, tr2, fa2) in table_decisions(prog, bi, t.dest.local, negated=True)]
            for sw, tr, fa in subs:
                if rejects(fa) == rejects(tr):
                    continue
                found.add("subscription")
                key = "control-field:subscription"
                if rejects(fa):
                    out.holds(key, bi.loc(sw), "a non-empty subscription in a later message -> INVALID_ARGUMENT, empty accepted")
                else:
                    out.violation(key, bi.loc(sw), "a later StreamingPull message is rejected when its subscription field is EMPTY (and accepted when it names a subscription)")
    for fld in numeric + ("subscription",):
        if fld not in found:
            out.violation("control-field:%s" % fld, "", "no check rejects a later StreamingPull message that sets %s" % fld)


@rule("C17", "R17.5", "unsupported push endpoints are rejected before anything is created", floor=1)
def r17_5(prog, out):
    h = prog.handler("create_subscription")
    if h is None:
        raise CheckBroken("create_subscription handler not found")
    m = model(prog)
    bi = prog.info(h.root)
    ev = m.events(h.root)
    vs = [bb for bb, lst in ev.items() for e in lst if e.kind == "V" and "parse_push_config" in e.label]
    if not vs:
        # through Option::map(parse_push_config): the fn item is passed as a value
        for blk in bi.body.blocks:
            t = blk.term
            if t.k == "call" and any(a.const is not None and "parse_push_config" in (a.const.get("fn") or "") for a in t.args):
                vs.append(blk.idx)
    if not vs:
        raise CheckBroken("push-config validation not found in create_subscription")
    effects = [a.poll_bb for a in bi.awaits if a.fut_ty and "create_subscription" in a.fut_ty]
    key = "push-endpoint-check"
    if effects and all(bi.cfg.dominates(v, e) for v in vs for e in effects):
        out.holds(key, bi.loc(vs[0]), "push endpoint validation dominates the creation of the subscription")
    else:
        out.violation(key, bi.loc(vs[0]), "the subscription can be created before its push endpoint is validated")
