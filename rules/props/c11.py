"""C11 — deletion keeps topics and subscriptions consistent with each other."""
from engine import rule, CheckBroken
from actorlib import roles
from slicing import Slicer
from common import short_ty, await_class, mpsc_send_request
from props.c12 import error_blocks, delete_flow, effect_body
from events import EventModel
import libmodel as L


def none_arm_blocks(bi, pred):
    """blocks dominated by the None arm of an Option-returning call matching pred"""
    out = set()
    # `if let Some(topic) = <Option<Arc<Topic>> value>` on a value obtained earlier (e.g. captured by a task)
    for blk in bi.body.blocks:
        if blk.cleanup or blk.term.k != "switch":
            continue
        for s in blk.stmts:
            if s.k == "assign" and s.rv.k == "discr" and blk.term.discr is not None and blk.term.discr.place is not None \
                    and s.lhs.is_local() and s.lhs.local == blk.term.discr.place.local:
                pty = bi.body.place_ty(s.rv.place) or ""
                if pty.startswith("std::option::Option<std::sync::Arc<crate::topics::topic::Topic"):
                    arms = dict(blk.term.arms)
                    none_bb = arms.get(0, blk.term.otherwise if 1 in arms else None)
                    if none_bb is not None:
                        out |= bi.cfg.edge_dominated(blk.idx, none_bb)
    for bb, t in bi.calls(pred):
        if t.dest is None or not t.dest.is_local() or t.target is None:
            continue
        nb = bi.body.blocks[t.target]
        if nb.term.k != "switch":
            continue
        for s in nb.stmts:
            if s.k == "assign" and s.rv.k == "discr" and s.rv.place.is_local() and s.rv.place.local == t.dest.local:
                arms = dict(nb.term.arms)
                none_bb = arms.get(0, nb.term.otherwise if 1 in arms else None)
                if none_bb is not None:
                    out |= bi.cfg.edge_dominated(t.target, none_bb)
    return out


@rule("C11", "R11.1", "subscription delete: the topic forgets the subscription before the manager does and before consumers are told", floor=2)
@rule("C01", "R11.1", "subscription delete: the topic forgets the subscription before the manager does and before consumers are told", floor=2)
def r11_1(prog, out):
    R = roles(prog)
    A = prog.anchors
    submap = A.cell("SubState", "subscriptions")
    sig = A.cell("SubscriptionObserver", "deleted_send")
    topic_ty = A.ty("Topic")
    # the detach: an awaited call on Topic that ends in the RemoveSubscription-like request (a topic request whose handler removes from TopicActor.subscriptions)
    detach_variant = None
    for vname in R.topic_actor.variants:
        for tid in R.variant_targets(R.topic_actor, vname):
            effs = prog.effects(tid)
            if any(e.touches(R.topic_subs) and e.kind in L.REMOVE_KINDS for e in effs) and not any(e.touches(R.topic_subs) and e.kind == "clear" for e in effs):
                detach_variant = vname
    if detach_variant is None:
        raise CheckBroken("no topic request removes a single subscription from TopicActor.subscriptions")
    cons = sorted({bid for bid, _, _, _ in prog.constructions(R.topic_actor.request, detach_variant)})
    if not cons:
        raise CheckBroken("detach request %s is never built" % detach_variant)
    detach_root = prog.facts.body(cons[0]).root or cons[0]
    detach_co = cons[0]
    # bodies that await the detach
    model = getattr(prog, "_event_model", None) or EventModel(prog)
    prog._event_model = model
    found = 0
    for b in prog.facts.lib_bodies():
        if not b.coroutine:
            continue
        bi = prog.info(b.id)
        det = [a for a in bi.awaits if prog.body_of_type(b, a.fut_ty) == detach_co]
        if not det:
            continue
        found += 1
        name = prog.short(b.id)
        det_ready = {a.ready_bb for a in det}
        allowed = none_arm_blocks(bi, lambda c: c.path == "std::sync::Weak::<T, A>::upgrade") | error_blocks(bi)
        # later steps: manager removal / deletion signal in this body, or the send of the actor's delete request
        later = {}
        for e in prog.effects(b.id):
            if e.touches(submap) and e.kind in L.REMOVE_KINDS:
                later.setdefault("manager-removal", set()).add(e.bb)
            if e.touches(sig) and e.kind in ("take", "oneshot_send"):
                later.setdefault("deletion-signal", set()).add(e.bb)
        for a in bi.awaits:
            if await_class(prog, bi, a) == "mpsc_send":
                sv = model.send_variant(bi, a)
                if sv and sv[0] == R.sub_actor.request and sv[1]:
                    tids = R.variant_targets(R.sub_actor, sv[1])
                    if any(e.touches(submap) and e.kind in L.REMOVE_KINDS for t in tids for e in prog.effects(t)):
                        later.setdefault("actor-delete-request", set()).add(a.poll_bb)
        if not later:
            out.violation("%s:detach-then-remove" % name, bi.loc(det[0].poll_bb), "the subscription is detached from its topic but never removed from the manager in this flow")
            continue
        for what, blocks in sorted(later.items()):
            key = "%s:detach-before-%s" % (name, what)
            bad = None
            for lb in blocks:
                p = bi.cfg.path(0, {lb}, avoid=det_ready | allowed)
                if p is not None:
                    bad = (lb, p)
            if bad:
                out.violation(key, bi.loc(bad[0]), "the %s can happen while the topic still lists the subscription (the topic-side removal has not completed): "
                              "a publish in between posts to a subscription that no longer exists, and ListTopicSubscriptions shows a deleted subscription" % what.replace("-", " "))
            else:
                out.holds(key, bi.loc(sorted(blocks)[0]), "the awaited topic-side removal precedes the %s on every path (topic gone: nothing to detach)" % what.replace("-", " "))
    if not found:
        out.violation("detach-awaited", prog.loc(detach_root), "nobody awaits the topic-side removal of a deleted subscription: DeleteSubscription can return while the topic still lists it")
    # the actor's delete handler clears backlog and outstanding on every successful path
    actor, vname, tid = delete_flow(prog)
    bid = effect_body(prog, tid)
    bi = prog.info(bid)
    errs = error_blocks(bi)
    flag = R.flag_true_blocks(bi, R.deleted)
    for label, cell in (("backlog", R.backlog), ("outstanding", R.t_messages)):
        clr = {e.bb for e in prog.effects(bid) if e.touches(cell) and e.kind == "clear"}
        key = "delete-clears-%s" % label
        if clr and bi.cfg.escapes(0, clr | errs | flag, after=False) is None:
            out.holds(key, bi.loc(sorted(clr)[0]), "cleared on every successful path")
        else:
            out.violation(key, prog.loc(bid), "a deleted subscription can keep its %s" % label)


@rule("C11", "R11.2", "topic delete does not cascade to its subscriptions", floor=1)
def r11_2(prog, out):
    R = roles(prog)
    A = prog.anchors
    tmap = A.cell("TopicState", "topics")
    submap = A.cell("SubState", "subscriptions")
    found = False
    for vname in R.topic_actor.variants:
        for tid in R.variant_targets(R.topic_actor, vname):
            effs = prog.effects(tid)
            tdel = A.cell("TopicActor", "deleted")
            if not any((e.touches(tmap) and e.kind in L.REMOVE_KINDS) or (e.kind == "write" and e.touches(tdel)) for e in effs):
                continue
            found = True
            key = "topic-delete:%s" % prog.short(tid)
            sends = [e for e in effs if e.kind == "mpsc_send" and e.extra and e.extra[0] == R.sub_actor.request]
            subeff = [e for e in effs if e.touches(submap) and e.kind in L.MUTATING_KINDS]
            cleared = [e for e in effs if e.touches(R.topic_subs) and e.kind == "clear"]
            if sends or subeff:
                e = (sends or subeff)[0]
                out.violation(key, prog.loc(*e.leaf()), "deleting a topic also acts on its subscriptions (%s): they must keep existing and serving what they hold" % e.kind)
            elif not cleared:
                out.violation(key, prog.loc(tid), "topic delete does not clear its subscription set")
            else:
                out.holds(key, prog.loc(tid), "clears its own subscription set, leaves the manager map entry, touches no subscription")
    if not found:
        out.undecided("topic-delete", "", "no topic request handler marks the topic deleted or removes it from the manager map")


@rule("C11", "R11.3", "creating a topic never (re-)attaches subscriptions", floor=1)
def r11_3(prog, out):
    R = roles(prog)
    A = prog.anchors
    h = prog.handler("create_topic")
    if h is None:
        raise CheckBroken("create_topic handler not found")
    submgr = A.ty("SubscriptionManager")
    bad = None
    for bid in prog.cone(h.root, follow=("call", "closure", "poll", "spawn-joinset", "spawn-detached-awaited")):
        bi = prog.info(bid)
        if bi is None:
            continue
        for bb, t in bi.calls(lambda c: (c.impl_self or "") == submgr or c.target.startswith(submgr + "::")):
            bad = (bid, bb, "uses the subscription manager")
        for a in bi.awaits:
            if await_class(prog, bi, a) == "mpsc_send" and mpsc_send_request(bi, a) in (R.topic_actor.request, R.sub_actor.request):
                bad = (bid, a.poll_bb, "sends requests to an actor")
    key = "create-topic-no-reattach"
    if bad:
        out.violation(key, prog.loc(bad[0], bad[1]), "CreateTopic %s: subscriptions of an earlier topic with the same name must stay detached" % bad[2])
    else:
        out.holds(key, prog.loc(h.root), "CreateTopic only inserts the new topic")
    # a freshly built topic actor starts with an empty subscription set
    si = prog.info(R.topic_actor.start)
    for blk in si.body.blocks:
        for s in blk.stmts:
            if s.k == "assign" and s.rv.k == "agg" and s.rv.j.get("adt") == R.topic_actor.ty:
                op = s.rv.ops[s.rv.j["fields"].index("subscriptions")]
                o = si.trace(op)
                k2 = "new-topic-empty"
                if o.kind == "call" and si.call_at(o.data).callee.path.split("::")[-1] in ("default", "new"):
                    out.holds(k2, si.loc(blk.idx), "TopicActor.subscriptions starts empty")
                else:
                    out.violation(k2, si.loc(blk.idx), "a new topic actor starts with a non-empty subscription set (%r)" % o)


@rule("C11", "R11.4", "a deleted topic can die: only the topic manager holds strong references; subscriptions hold Weak<Topic>", floor=3)
@rule("C10", "R11.4", "a deleted topic can die: only the topic manager holds strong references; subscriptions hold Weak<Topic>", floor=3)
def r11_4(prog, out):
    A = prog.anchors
    topic = A.ty("Topic")
    strong = "std::sync::Arc<%s" % topic
    allowed = {(A.ty("TopicState"), "topics"), ("crate::topics::paging::TopicsPage", "topics")}
    n = 0
    for path, adt in sorted(prog.facts.adts.items()):
        if path.startswith("crate::pubsub_proto"):
            continue
        for v in adt["variants"]:
            for f in v["fields"]:
                if strong in f["ty"]:
                    n += 1
                    key = "strong-ref:%s.%s" % (short_ty(path), f["name"])
                    if (path, f["name"]) in allowed:
                        out.holds(key, adt["span"], "the manager's map (and the transient listing page)")
                    else:
                        out.violation(key, adt["span"], "%s.%s keeps a strong Arc<Topic>: a deleted topic stays alive and its subscriptions never report it as deleted" % (short_ty(path), f["name"]))
    for k, f in (("Subscription", "topic"), ("SubscriptionActor", "topic")):
        fty = A.field_ty(k, f)
        key = "weak:%s.%s" % (k, f)
        if fty.startswith("std::sync::Weak<%s" % topic):
            out.holds(key, "", "Weak<Topic>")
        else:
            out.violation(key, "", "%s.%s is %s, expected Weak<Topic>" % (k, f, short_ty(fty)))
    # no task keeps a strong topic reference alive across its lifetime: the spawned actor loops do not capture Arc<Topic>
    for actor in prog.actors:
        si = prog.info(actor.start)
        for blk in si.body.blocks:
            for s in blk.stmts:
                if s.k == "assign" and s.rv.k == "agg" and s.rv.j.get("ak") == "coroutine" and prog.qual(si.body, s.rv.j["def"]) == actor.loop:
                    tys = [si.body.operand_ty(op) or "" for op in s.rv.ops]
                    key = "actor-captures:%s" % short_ty(actor.ty)
                    if any(t.startswith(strong) for t in tys):
                        out.violation(key, si.loc(blk.idx), "the actor task captures a strong Arc<Topic>")
                    else:
                        out.holds(key, si.loc(blk.idx), "the actor task captures no strong topic reference")


@rule("C11", "R11.5", "create pairs the manager insert with the topic attach on every successful path", floor=1)
@rule("C01", "R11.5", "create pairs the manager insert with the topic attach on every successful path", floor=1)
def r11_5(prog, out):
    R = roles(prog)
    A = prog.anchors
    submap = A.cell("SubState", "subscriptions")
    attach = R.attach_variant()
    acons = sorted({bid for bid, _, _, _ in prog.constructions(R.topic_actor.request, attach)})
    if not acons:
        raise CheckBroken("attach request never built")
    attach_co = acons[0]
    found = 0
    for b in prog.facts.lib_bodies():
        if not b.coroutine:
            continue
        ins = [e for e in prog.effects(b.id) if e.touches(submap) and e.kind in L.INSERT_KINDS and not e.spawned]
        if not ins:
            continue
        rb = prog.facts.body(b.root) if b.root else None
        if rb is None or rb.impl_self != A.ty("SubscriptionManager"):
            continue
        found += 1
        bi = prog.info(b.id)
        key = "insert=>attach:%s" % prog.short(b.id)
        # the attach: awaited directly, or inside a spawned task whose handle is awaited
        att = set()
        for a in bi.awaits:
            cid = prog.body_of_type(b, a.fut_ty)
            if cid == attach_co:
                att.add(a.ready_bb)
            if await_class(prog, bi, a) == "join_handle" or (a.fut_ty or "").startswith("tokio::task::JoinHandle") or (a.fut_ty or "").startswith("tokio::runtime::task::JoinHandle"):
                for sp in bi.spawns:
                    if sp.task and attach_co in prog.cone(sp.task, follow=("call", "closure", "poll")) and a.origin is not None and a.origin.kind == "call" and a.origin.data == sp.bb:
                        att.add(a.ready_bb)
        if not att:
            out.violation(key, bi.loc(ins[0].bb), "a subscription is inserted into the manager but never attached to its topic: it exists and never receives messages")
            continue
        errs = error_blocks(bi)
        esc = bi.cfg.escapes(ins[0].bb, att | errs)
        if esc is None:
            out.holds(key, bi.loc(ins[0].bb), "every successful path from the insert completes the attach before returning the subscription")
        else:
            out.violation(key, bi.loc(esc[-1]), "create can return Ok without the subscription being attached to its topic", ["bb%d" % x for x in esc][:10])
    if not found:
        raise CheckBroken("manager create flow not found")
