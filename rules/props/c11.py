"""C11 — deletion keeps topics and subscriptions consistent with each other."""
from engine import rule, CheckBroken
from actorlib import roles
from slicing import Slicer
from common import short_ty, await_class, mpsc_send_request
from props.c12 import error_blocks, delete_flow, effect_body
from events import EventModel
import libmodel as L


def none_arm_blocks(bi, pred):
    """blocks dominated by the None arm of an Option-returning call matching pred"""
    out = set()
    # `if let Some(topic) = <Option<Arc<Topic>> value>` on a value obtained earlier (e.g. captured by a task)
    for blk in bi.body.blocks:
        if blk.cleanup or blk.term.k != "switch":
            continue
        for s in blk.stmts:
            if s.k == "assign" and s.rv.k == "discr" and blk.term.discr is not None and blk.term.discr.place is not None \
                    and s.lhs.is_local() and s.lhs.local == blk.term.discr.place.local:
                pty = bi.body.place_ty(s.rv.place) or ""
                # Option<Arc<Topic>> or an Option of a tuple that carries the upgraded topic along with what the detach needs
                if pty.startswith("std::option::Option<std::sync::Arc<crate::topics::topic::Topic") or \
                        (pty.startswith("std::option::Option<(") and "std::sync::Arc<crate::topics::topic::Topic" in pty):
                    arms = dict(blk.term.arms)
                    none_bb = arms.get(0, blk.term.otherwise if 1 in arms else None)
                    if none_bb is not None:
                        out |= bi.cfg.edge_dominated(blk.idx, none_bb)
    for bb, t in bi.calls(pred):
        if t.dest is None or not t.dest.is_local() or t.target is None:
            continue
        nb = bi.body.blocks[t.target]
        if nb.term.k != "switch":
            continue
        for s in nb.stmts:
            if s.k == "assign" and s.rv.k == "discr" and s.rv.place.is_local() and s.rv.place.local == t.dest.local:
                arms = dict(nb.term.arms)
                none_bb = arms.get(0, nb.term.otherwise if 1 in arms else None)
                if none_bb is not None:
                    out |= bi.cfg.edge_dominated(t.target, none_bb)
    return out


@rule("C11", "R11.1", "subscription delete: the topic forgets the subscription before the manager does and before consumers are told", floor=2)
@rule("C01", "R11.1", "subscription delete: the topic forgets the subscription before the manager does and before consumers are told", floor=2)
def r11_1(prog, out):
    R = roles(prog)
    A = prog.anchors
    submap = A.cell("SubState", "subscriptions")
    sig = A.cell("SubscriptionObserver", "deleted_send")
    topic_ty = A.ty("Topic")
    # the detach: an awaited call on Topic that ends in the RemoveSubscription-like request (a topic request whose handler removes from TopicActor.subscriptions)
    detach_variant = None
    for vname in R.topic_actor.variants:
        for tid in R.variant_targets(R.topic_actor, vname):
            effs = prog.effects(tid)
            if any(e.touches(R.topic_subs) and e.kind in L.REMOVE_KINDS for e in effs) and not any(e.touches(R.topic_subs) and e.kind == "clear" for e in effs):
                detach_variant = vname
    if detach_variant is None:
        raise CheckBroken("no topic request removes a single subscription from TopicActor.subscriptions")
    cons = sorted({bid for bid, _, _, _ in prog.constructions(R.topic_actor.request, detach_variant)})
    if not cons:
        raise CheckBroken("detach request %s is never built" % detach_variant)
    detach_root = prog.facts.body(cons[0]).root or cons[0]
    detach_co = cons[0]
    # bodies that await the detach
    model = getattr(prog, "_event_model", None) or EventModel(prog)
    prog._event_model = model
    found = 0
    for b in prog.facts.lib_bodies():
        if not b.coroutine:
            continue
        bi = prog.info(b.id)
        det = [a for a in bi.awaits if prog.body_of_type(b, a.fut_ty) == detach_co]
        if not det and b.id in cons:
            # the handle method was spliced into this body: the detach is complete when the reply to the request built here has
            # been received
            built = [bb for (cb, bb, i, rv) in prog.constructions(R.topic_actor.request, detach_variant) if cb == b.id]
            det = [a for a in bi.awaits if await_class(prog, bi, a) == "oneshot_recv" and any(bi.cfg.dominates(x, a.poll_bb) for x in built)]
            rb = prog.facts.body(b.root) if b.root else b
            if rb is not None and rb.impl_self == topic_ty:
                det = []        # this IS the topic handle's method (still a unit; the flows that await it are judged)
        if not det:
            continue
        found += 1
        name = prog.short(b.id)
        det_ready = {a.ready_bb for a in det}
        allowed = none_arm_blocks(bi, lambda c: c.path == "std::sync::Weak::<T, A>::upgrade") | error_blocks(bi)
        # later steps: manager removal / deletion signal in this body, or the send of the actor's delete request
        later = {}
        for e in prog.effects(b.id):
            if e.touches(submap) and e.kind in L.REMOVE_KINDS:
                later.setdefault("manager-removal", set()).add(e.bb)
            if e.touches(sig) and e.kind in ("take", "oneshot_send"):
                later.setdefault("deletion-signal", set()).add(e.bb)
        for a in bi.awaits:
            if await_class(prog, bi, a) == "mpsc_send":
                sv = model.send_variant(bi, a)
                if sv and sv[0] == R.sub_actor.request and sv[1]:
                    tids = R.variant_targets(R.sub_actor, sv[1])
                    if any(e.touches(submap) and e.kind in L.REMOVE_KINDS for t in tids for e in prog.effects(t)):
                        later.setdefault("actor-delete-request", set()).add(a.poll_bb)
        if not later:
            out.violation("%s:detach-then-remove" % name, bi.loc(det[0].poll_bb), "the subscription is detached from its topic but never removed from the manager in this flow")
            continue
        for what, blocks in sorted(later.items()):
            key = "%s:detach-before-%s" % (name, what)
            bad = None
            for lb in blocks:
                p = bi.cfg.path(0, {lb}, avoid=det_ready | allowed)
                if p is not None:
                    bad = (lb, p)
            if bad:
                out.violation(key, bi.loc(bad[0]), "the %s can happen while the topic still lists the subscription (the topic-side removal has not completed): "
                              "a publish in between posts to a subscription that no longer exists, and ListTopicSubscriptions shows a deleted subscription" % what.replace("-", " "))
            else:
                out.holds(key, bi.loc(sorted(blocks)[0]), "the awaited topic-side removal precedes the %s on every path (topic gone: nothing to detach)" % what.replace("-", " "))
    if not found:
        out.violation("detach-awaited", prog.loc(detach_root), "nobody awaits the topic-side removal of a deleted subscription: DeleteSubscription can return while the topic still lists it")
    # the actor's delete handler clears backlog and outstanding on every successful path
    actor, vname, tid = delete_flow(prog)
    bid = effect_body(prog, tid)
    bi = prog.info(bid)
    errs = error_blocks(bi)
    flag = R.flag_true_blocks(bi, R.deleted)
    for label, cell in (("backlog", R.backlog), ("outstanding", R.t_messages)):
        clr = {e.bb for e in prog.effects(bid) if e.touches(cell) and e.kind == "clear"}
        key = "delete-clears-%s" % label
        if clr and bi.cfg.escapes(0, clr | errs | flag, after=False) is None:
            out.holds(key, bi.loc(sorted(clr)[0]), "cleared on every successful path")
        else:
            out.violation(key, prog.loc(bid), "a deleted subscription can keep its %s" % label)


@rule("C11", "R11.2", "topic delete does not cascade to its subscriptions", floor=1)
def r11_2(prog, out):
    R = roles(prog)
    A = prog.anchors
    tmap = A.cell("TopicState", "topics")
    submap = A.cell("SubState", "subscriptions")
    found = False
    for vname in R.topic_actor.variants:
        for tid in R.variant_targets(R.topic_actor, vname):
            effs = prog.effects(tid)
            tdel = A.cell("TopicActor", "deleted", optional=True)
            if not any((e.touches(tmap) and e.kind in L.REMOVE_KINDS) or (tdel is not None and e.kind == "write" and e.touches(tdel)) for e in effs):
                continue
            found = True
            key = "topic-delete:%s" % prog.short(tid)
            sends = [e for e in effs if e.kind == "mpsc_send" and e.extra and e.extra[0] == R.sub_actor.request]
            subeff = [e for e in effs if e.touches(submap) and e.kind in L.MUTATING_KINDS]
            cleared = [e for e in effs if e.touches(R.topic_subs) and e.kind == "clear"]
            if sends or subeff:
                e = (sends or subeff)[0]
                out.violation(key, prog.loc(*e.leaf()), "deleting a topic also acts on its subscriptions (%s): they must keep existing and serving what they hold" % e.kind)
            elif not cleared:
                out.violation(key, prog.loc(tid), "topic delete does not clear its subscription set")
            else:
                out.holds(key, prog.loc(tid), "clears its own subscription set, leaves the manager map entry, touches no subscription")
    if not found:
        out.undecided("topic-delete", "", "no topic request handler marks the topic deleted or removes it from the manager map")


@rule("C11", "R11.3", "creating a topic never (re-)attaches subscriptions", floor=1)
def r11_3(prog, out):
    R = roles(prog)
    A = prog.anchors
    h = prog.handler("create_topic")
    if h is None:
        raise CheckBroken("create_topic handler not found")
    submgr = A.ty("SubscriptionManager")
    bad = None
    for bid in prog.cone(h.root, follow=("call", "closure", "poll", "spawn-joinset", "spawn-detached-awaited")):
        bi = prog.info(bid)
        if bi is None:
            continue
        for bb, t in bi.calls(lambda c: (c.impl_self or "") == submgr or c.target.startswith(submgr + "::")):
            bad = (bid, bb, "uses the subscription manager")
        for a in bi.awaits:
            if await_class(prog, bi, a) == "mpsc_send" and mpsc_send_request(bi, a) in (R.topic_actor.request, R.sub_actor.request):
                bad = (bid, a.poll_bb, "sends requests to an actor")
    key = "create-topic-no-reattach"
    if bad:
        out.violation(key, prog.loc(bad[0], bad[1]), "CreateTopic %s: subscriptions of an earlier topic with the same name must stay detached" % bad[2])
    else:
        out.holds(key, prog.loc(h.root), "CreateTopic only inserts the new topic")
    # a freshly built topic actor starts with an empty subscription set
    si = prog.info(R.topic_actor.start)
    for blk in si.body.blocks:
        for s in blk.stmts:
            if s.k == "assign" and s.rv.k == "agg" and s.rv.j.get("adt") == R.topic_actor.ty:
                op = s.rv.ops[s.rv.j["fields"].index("subscriptions")]
                o = si.trace(op)
                k2 = "new-topic-empty"
                if o.kind == "call" and si.call_at(o.data).callee.path.split("::")[-1] in ("default", "new"):
                    out.holds(k2, si.loc(blk.idx), "TopicActor.subscriptions starts empty")
                else:
                    out.violation(k2, si.loc(blk.idx), "a new topic actor starts with a non-empty subscription set (%r)" % o)


def long_lived(prog, path):
    """a service object (implements a gRPC service trait), or a value that is shared (Arc / Mutex / static around it anywhere)"""
    for im in prog.facts.impls:
        if im["self"] == path and "_server::" in im["trait"]:
            return True
    needles = ("std::sync::Arc<%s" % path, "Mutex<%s" % path, "RwLock<%s" % path, "OnceLock<%s" % path, "OnceCell<%s" % path)
    for b in prog.facts.lib_bodies():
        for l in b.locals:
            ty = b.types[l["t"]]
            if any(n in ty for n in needles):
                return True
    return False


def reference_adts(prog):
    """types named by the anchors: the long-lived state of the server"""
    from anchors import TYPES
    return set(TYPES.values())


def companion_in_lockstep(prog, primary, companion):
    """every body that removes from `primary` (own effect) also removes from `companion` on every path through the removal,
    and nothing is inserted into the companion without an insert into the primary in the same body"""
    found = False
    for b in prog.facts.lib_bodies():
        bi = prog.info(b.id)
        effs = prog.effects(b.id)
        prem = [e for e in effs if prog.is_own(b.id, e) and e.touches(primary) and not e.touches(companion) and e.kind in L.REMOVE_KINDS | {"clear"}]
        crem = {e.bb for e in effs if e.touches(companion) and e.kind in L.REMOVE_KINDS | {"clear"}}
        for e in prem:
            found = True
            if not crem:
                return False
            # a path that finds nothing under the companion's key has nothing to remove there
            from mapstate import regions
            absent, _present = regions(prog, bi, companion, own_only=False, through_wrappers=True)
            # `let Some(x) = map.remove(k) else { return }`: only the arm where something was removed carries the obligation
            from mapstate import presence_switches
            some_arms = [pt for (_sw, pt, _at) in presence_switches(bi, e.bb, "option") if pt is not None]
            if some_arms:
                after_ok = all(bi.cfg.escapes(pt, crem | absent, after=False) is None for pt in some_arms)
            else:
                after_ok = bi.cfg.escapes(e.bb, crem | absent, after=True) is None
            before_ok = any(bi.cfg.dominates(c, e.bb) for c in crem)
            if not (after_ok or before_ok):
                return False
        cins = [e for e in effs if prog.is_own(b.id, e) and e.touches(companion) and e.kind in L.INSERT_KINDS]
        pins = [e for e in effs if e.touches(primary) and not e.touches(companion) and e.kind in L.INSERT_KINDS]
        if cins and not pins:
            return False
    return found


@rule("C11", "R11.4", "a deleted topic can die: only the topic manager holds strong references; subscriptions hold Weak<Topic>", floor=3)
@rule("C10", "R11.4", "a deleted topic can die: only the topic manager holds strong references; subscriptions hold Weak<Topic>", floor=3)
def r11_4(prog, out):
    A = prog.anchors
    topic = A.ty("Topic")
    strong = "std::sync::Arc<%s" % topic
    allowed = {(A.ty("TopicState"), "topics"), ("crate::topics::paging::TopicsPage", "topics")}
    n = 0
    for path, adt in sorted(prog.facts.adts.items()):
        if path.startswith("crate::pubsub_proto"):
            continue
        for v in adt["variants"]:
            for f in v["fields"]:
                if strong in f["ty"]:
                    n += 1
                    key = "strong-ref:%s.%s" % (short_ty(path), f["name"])
                    stored_in = [p2 for p2, a2 in prog.facts.adts.items() if p2 != path and not p2.startswith("crate::pubsub_proto")
                                 and any(path in f2["ty"] for v2 in a2["variants"] for f2 in v2["fields"])]
                    is_actor = any(a.ty == path for a in prog.actors)
                    if (path, f["name"]) in allowed:
                        out.holds(key, adt["span"], "the manager's map (and the transient listing page)")
                    elif path == A.ty("TopicState") and companion_in_lockstep(prog, (path, "topics"), (path, f["name"])):
                        out.holds(key, adt["span"], "a companion index of the manager's map: every removal from the map removes from the index in the same "
                                  "critical section, so it keeps nothing alive that the map does not")
                    elif not stored_in and not is_actor and path not in (A.ty("Subscription"), A.ty("SubscriptionManager"), A.ty("TopicManager")) \
                            and path not in reference_adts(prog) and not long_lived(prog, path):
                        # a value type that no other structure stores: it lives as long as the local / task that holds it, like the
                        # `Arc<Topic>` local it replaces
                        out.holds(key, adt["span"], "%s is never stored in another structure: the reference lives only as long as the step that builds it" % short_ty(path), nontrivial=False)
                    else:
                        out.violation(key, adt["span"], "%s.%s keeps a strong Arc<Topic>: a deleted topic stays alive and its subscriptions never report it as deleted" % (short_ty(path), f["name"]))
    for k, f in (("Subscription", "topic"), ("SubscriptionActor", "topic")):
        fty = A.field_ty(k, f)
        # a private newtype around the reference (struct AttachedTopic(Weak<Topic>)) is the reference
        for _ in range(3):
            adt2 = prog.facts.adt(fty) if fty.startswith("crate::") else None
            if adt2 is not None and len(adt2["variants"]) == 1 and len(adt2["variants"][0]["fields"]) == 1:
                fty = adt2["variants"][0]["fields"][0]["ty"]
            else:
                break
        key = "weak:%s.%s" % (k, f)
        if fty.startswith("std::sync::Weak<%s" % topic):
            out.holds(key, "", "Weak<Topic>")
        else:
            out.violation(key, "", "%s.%s is %s, expected Weak<Topic>" % (k, f, short_ty(fty)))
    # no request that can park for an unbounded time holds a strong reference while it is parked: in a consumer loop's body
    # no local of type (Option<)Arc<Topic> is alive when the loop is entered (a blocked Pull / an open StreamingPull would keep
    # a deleted topic alive, and its subscriptions would go on reporting it)
    from consumers import find_consumer_loops
    for cl in find_consumer_loops(prog):
        bi = prog.info(cl.body)
        body = bi.body
        key = "parked-holder:%s" % cl.label
        held = None
        for i in range(1, len(body.locals)):
            ty = body.local_ty(i) or ""
            if strong not in ty or ty.startswith("&"):
                continue
            defs = bi.defs.get(i, [])
            if not defs or not all(bi.cfg.dominates(d[0], cl.header) and d[0] != cl.header and d[0] not in cl.blocks for d in defs):
                continue
            dead = [blk.idx for blk in body.blocks if not blk.cleanup and any(st.k == "dead" and getattr(st, "local", None) == i for st in blk.stmts)]
            moved = [blk.idx for blk in body.blocks if not blk.cleanup and blk.term.k in ("call", "drop") and blk.idx not in cl.blocks and (
                (blk.term.k == "drop" and blk.term.j.get("place", {}).get("l") == i))]
            if any(bi.cfg.dominates(x, cl.header) for x in dead + moved):
                continue
            held = (i, defs[0][0])
            break
        if held is not None:
            out.violation(key, bi.loc(held[1]), "a strong Arc<Topic> (local _%d) is alive while this consumer waits for messages: a blocked Pull / open StreamingPull keeps a "
                          "deleted topic alive, so its subscriptions keep reporting the old topic instead of the deleted-topic sentinel" % held[0])
        else:
            out.holds(key, prog.loc(cl.body), "no strong topic handle is alive across the wait")
    # no task keeps a strong topic reference alive across its lifetime: the spawned actor loops do not capture Arc<Topic>
    for actor in prog.actors:
        si = prog.info(actor.start)
        for blk in si.body.blocks:
            for s in blk.stmts:
                if s.k == "assign" and s.rv.k == "agg" and s.rv.j.get("ak") == "coroutine" and prog.qual(si.body, s.rv.j["def"]) == actor.loop:
                    tys = [si.body.operand_ty(op) or "" for op in s.rv.ops]
                    key = "actor-captures:%s" % short_ty(actor.ty)
                    if any(t.startswith(strong) for t in tys):
                        out.violation(key, si.loc(blk.idx), "the actor task captures a strong Arc<Topic>")
                    else:
                        out.holds(key, si.loc(blk.idx), "the actor task captures no strong topic reference")


@rule("C11", "R11.5", "create pairs the manager insert with the topic attach on every successful path", floor=1)
@rule("C01", "R11.5", "create pairs the manager insert with the topic attach on every successful path", floor=1)
def r11_5(prog, out):
    R = roles(prog)
    A = prog.anchors
    submap = A.cell("SubState", "subscriptions")
    attach = R.attach_variant()
    acons = sorted({bid for bid, _, _, _ in prog.constructions(R.topic_actor.request, attach)})
    if not acons:
        raise CheckBroken("attach request never built")
    attach_co = acons[0]
    found = 0
    for b in prog.facts.lib_bodies():
        if not b.coroutine:
            continue
        ins = [e for e in prog.effects(b.id) if e.touches(submap) and e.kind in L.INSERT_KINDS and not e.spawned]
        if not ins:
            continue
        rb = prog.facts.body(b.root) if b.root else None
        if rb is None or rb.impl_self != A.ty("SubscriptionManager"):
            continue
        found += 1
        bi = prog.info(b.id)
        key = "insert=>attach:%s" % prog.short(b.id)
        # the attach: awaited directly, or inside a spawned task whose handle is awaited
        att = set()
        for a in bi.awaits:
            cid = prog.body_of_type(b, a.fut_ty)
            if cid == attach_co:
                att.add(a.ready_bb)
            if await_class(prog, bi, a) == "join_handle" or (a.fut_ty or "").startswith("tokio::task::JoinHandle") or (a.fut_ty or "").startswith("tokio::runtime::task::JoinHandle"):
                for sp in bi.spawns:
                    if sp.task and attach_co in prog.cone(sp.task, follow=("call", "closure", "poll")) and a.origin is not None and a.origin.kind == "call" and a.origin.data == sp.bb:
                        att.add(a.ready_bb)
        # ... or the JoinHandle is handed to a small future built here (`async move { handle.await.. }`) that is awaited here
        for a in bi.awaits:
            if a.origin is None or a.origin.kind != "agg":
                continue
            ag = bi.agg_at(a.origin.data)
            if ag is None or ag.j.get("ak") != "coroutine":
                continue
            for op in ag.ops:
                o = bi.trace(op)
                if o.kind == "call":
                    for sp in bi.spawns:
                        if sp.bb == o.data and sp.task and attach_co in prog.cone(sp.task, follow=("call", "closure", "poll")):
                            inner = prog.info(prog.qual(b, ag.j["def"]))
                            if inner is not None and any(await_class(prog, inner, x) == "join_handle" or "JoinHandle" in (x.fut_ty or "") for x in inner.awaits):
                                att.add(a.ready_bb)
        if not att:
            out.violation(key, bi.loc(ins[0].bb), "a subscription is inserted into the manager but never attached to its topic: it exists and never receives messages")
            continue
        errs = error_blocks(bi)
        esc = bi.cfg.escapes(ins[0].bb, att | errs)
        if esc is None:
            out.holds(key, bi.loc(ins[0].bb), "every successful path from the insert completes the attach before returning the subscription")
        else:
            out.violation(key, bi.loc(esc[-1]), "create can return Ok without the subscription being attached to its topic", ["bb%d" % x for x in esc][:10])
    if not found:
        raise CheckBroken("manager create flow not found")


def flag_regions(prog, bi, cell):
    """(false_blocks, true_blocks): blocks only reachable when the bool field `cell` was read as false / as true, whether
    the test is written `if self.deleted { return }` or `if !self.deleted { .. }`"""
    from mapstate import _bool_switches
    fa_blocks, tr_blocks = set(), set()
    if cell is None:
        return fa_blocks, tr_blocks
    for blk in bi.body.blocks:
        if blk.cleanup or blk.idx not in bi.cfg.reach:
            continue
        # a local that is a copy of the flag
        for st in blk.stmts:
            if st.k == "assign" and st.lhs.is_local() and st.rv.k == "use" and st.rv.ops[0].place is not None:
                cs = prog.receiver_origin(bi, st.rv.ops[0].place).cells()
                if cs and cs[-1] == cell:
                    for sw, tr, fa in _bool_switches(bi, st.lhs.local):
                        if fa is not None:
                            fa_blocks |= bi.cfg.edge_dominated(sw, fa)
                        if tr is not None:
                            tr_blocks |= bi.cfg.edge_dominated(sw, tr)
            elif st.k == "assign" and st.lhs.is_local() and st.rv.k == "un" and st.rv.j.get("op") == "Not" and st.rv.ops[0].place is not None \
                    and not st.rv.ops[0].place.is_local():
                cs = prog.receiver_origin(bi, st.rv.ops[0].place).cells()
                if cs and cs[-1] == cell:
                    for sw, tr, fa in _bool_switches(bi, st.lhs.local):     # the local holds !flag
                        if tr is not None:
                            fa_blocks |= bi.cfg.edge_dominated(sw, tr)
                        if fa is not None:
                            tr_blocks |= bi.cfg.edge_dominated(sw, fa)
        t = blk.term
        if t.k == "switch" and t.discr is not None and t.discr.place is not None and not t.discr.place.is_local():
            cs = prog.receiver_origin(bi, t.discr).cells()
            if cs and cs[-1] == cell:
                arms = dict(t.arms)
                if 0 in arms:
                    fa_blocks |= bi.cfg.edge_dominated(blk.idx, arms[0])
                tr_blocks |= bi.cfg.edge_dominated(blk.idx, t.otherwise)
        # the flag is an atomic (shared with a handle): `self.deleted.load(..)`
        if t.k == "call" and t.callee is not None and t.callee.path.startswith("std::sync::atomic::") and t.callee.path.endswith("::load") \
                and t.args and t.dest is not None and t.dest.is_local():
            cs = prog.receiver_origin(bi, t.args[0]).cells()
            if cs and cell in cs:
                for sw, tr, fa in _bool_switches(bi, t.dest.local):
                    if fa is not None:
                        fa_blocks |= bi.cfg.edge_dominated(sw, fa)
                    if tr is not None:
                        tr_blocks |= bi.cfg.edge_dominated(sw, tr)
    return fa_blocks, tr_blocks


def flag_false_blocks(prog, R, bi, cell):
    """blocks only reachable when the bool field `cell` was read as false (the not-yet-deleted arm)"""
    return flag_regions(prog, bi, cell)[0]


@rule("C11", "R11.6", "a removal by name on behalf of one incarnation is identity-checked or happens at most once per incarnation", floor=3)
@rule("C01", "R11.6", "a removal by name on behalf of one incarnation is identity-checked or happens at most once per incarnation", floor=3)
@rule("C10", "R11.6", "a removal by name on behalf of one incarnation is identity-checked or happens at most once per incarnation", floor=3)
def r11_6(prog, out):
    R = roles(prog)
    A = prog.anchors
    sl = Slicer(prog)
    # (1) manager-map removals issued by the actors' delete handlers: under the not-yet-deleted arm of the actor's own flag
    for actor, key_ty, state, label in ((R.topic_actor, "TopicActor", "TopicState", "topic"), (R.sub_actor, "SubscriptionActor", "SubState", "subscription")):
        cell = A.cell(state, "topics" if label == "topic" else "subscriptions")
        flag = A.cell(key_ty, "deleted", optional=True)
        n = 0
        for vname in actor.variants:
            for tid in R.variant_targets(actor, vname):
                rem = [e for e in prog.effects(tid) if e.touches(cell) and e.kind in L.REMOVE_KINDS]
                if not rem:
                    continue
                n += 1
                bi = prog.info(tid)
                key = "once-only:%s-manager-removal:%s" % (label, prog.short(tid))
                ok = flag_false_blocks(prog, R, bi, flag)
                if flag is None:
                    out.violation(key, bi.loc(rem[0].bb), "the %s actor removes its name from the manager without a once-only guard (no `deleted` flag): a second Delete that reaches "
                                  "the old actor removes a newer %s created under the same name" % (label, label))
                elif all(e.bb in ok for e in rem):
                    # .. and that first Delete really sets the flag, on every path that removes the entry
                    sets = [e for e in prog.effects(tid) if e.kind == "write" and not e.chain and e.cells and e.cells[-1] == flag]
                    good_sets = set()
                    for e in sets:
                        st = bi.stmt(*e.extra) if e.extra else None
                        if st is not None and st.rv.k == "use" and st.rv.ops[0].const_bool() is True:
                            good_sets.add(e.bb)
                    # the flag as an atomic shared with the handle: `self.deleted.store(true, ..)`
                    for e in prog.effects(tid):
                        if e.kind in ("atomic_store", "atomic_rmw") and not e.chain and e.cells and flag in e.cells:
                            tt = bi.body.blocks[e.bb].term
                            if tt.k == "call" and len(tt.args) >= 2 and tt.args[1].const_bool() is True:
                                good_sets.add(e.bb)
                    _fa, tr_blocks = flag_regions(prog, bi, flag)
                    esc = None
                    for e in rem:
                        # from the entry to the removal and on to the return, the flag is raised somewhere
                        if not any(bi.cfg.dominates(sb, e.bb) or bi.cfg.escapes(e.bb, {sb}) is None for sb in good_sets):
                            esc = e.bb
                    if not good_sets:
                        out.violation(key, bi.loc(rem[0].bb), "the `deleted` guard is tested but the handler never sets the flag: every Delete that reaches this actor "
                                      "removes the name from the manager again, including a newer %s created under the same name" % label)
                    elif esc is not None:
                        out.violation(key, bi.loc(esc), "a path removes the manager entry without raising the `deleted` flag: the next Delete repeats the removal")
                    else:
                        out.holds(key, bi.loc(rem[0].bb), "runs only on the first Delete of this incarnation (under `!self.deleted`), which raises the flag")
                else:
                    out.violation(key, bi.loc(rem[0].bb), "the manager entry is removed by name on a path that is not guarded by the actor's `deleted` flag: a stale duplicate "
                                  "Delete removes a newer %s of the same name" % label)
        if n == 0:
            out.undecided("once-only:%s-manager-removal" % label, "", "no handler of the %s actor removes the manager entry" % label)
        # .. and nobody else releases the name: the function(s) that remove from the manager map are only called from the
        # actor's handlers (a handle method that unregisters `up front` does so by name, for whatever incarnation holds it)
        removers = {b for b, e in prog.bodies_with_effect(cell, L.REMOVE_KINDS, direct=True)}
        handler_bodies = set()
        for vname in actor.variants:
            for tid in R.variant_targets(actor, vname):
                handler_bodies |= set(prog.cone(tid, follow=("call", "closure")))
        for cid, cb in prog.facts.bodies.items():
            if cb.crate != "lib" or cid in removers:
                continue
            ci = prog.info(cid)
            for cbb, ct in ci.calls(lambda c: prog.qual(cb, c.target) in removers):
                key2 = "name-released-by:%s:%s" % (label, prog.short(cid))
                if cid in handler_bodies:
                    out.holds(key2, ci.loc(cbb), "released by the %s actor's own handler" % label)
                else:
                    out.violation(key2, ci.loc(cbb), "the %s's name is removed from the manager here, outside the actor's once-only delete: it is removed by name, for "
                                  "whichever incarnation holds it, and out of order with the detach from the topic" % label)
    # (2) the topic-side detach: identity-checked, or only requested from under the subscription actor's once-only guard
    detach_variant = None
    for vname in R.topic_actor.variants:
        for tid in R.variant_targets(R.topic_actor, vname):
            effs = prog.effects(tid)
            if any(e.touches(R.topic_subs) and e.kind in L.REMOVE_KINDS for e in effs) and not any(e.touches(R.topic_subs) and e.kind == "clear" for e in effs):
                detach_variant = (vname, tid)
    if detach_variant is None:
        raise CheckBroken("detach handler not found")
    vname, tid = detach_variant
    bi = prog.info(tid)
    rem = [e for e in prog.own_effects(tid) if e.touches(R.topic_subs) and e.kind in L.REMOVE_KINDS]
    ident = (A.ty("Subscription"), "internal_id")
    checked = False
    for blk in bi.body.blocks:
        if blk.cleanup:
            continue
        for st in blk.stmts:
            if st.k == "assign" and st.rv.k == "bin" and st.rv.j["op"] in ("Eq", "Ne"):
                fs = set()
                for op in st.rv.ops:
                    fs |= sl.of(tid, op).fields
                if ident in fs and all(bi.cfg.dominates(blk.idx, e.bb) for e in rem):
                    sw = blk.term
                    checked = True
        t = blk.term
        if t.k == "call" and t.callee is not None and t.callee.path in ("std::cmp::PartialEq::eq", "std::cmp::PartialEq::ne", "std::sync::Arc::<T, A>::ptr_eq"):
            fs = set()
            for a in t.args:
                fs |= sl.of(tid, a).fields
            if (ident in fs or t.callee.path.endswith("ptr_eq")) and all(bi.cfg.dominates(blk.idx, e.bb) for e in rem):
                checked = True
    # the comparison may be wrapped (get(..).is_some_and(|s| s.internal_id == id), map(..) == Some(id)): a branch whose
    # condition derives from an identity comparison and whose arm is the only way to the removal
    if not checked and rem:
        for blk in bi.body.blocks:
            if blk.cleanup or blk.idx not in bi.cfg.reach:
                continue
            t = blk.term
            if t.k != "switch" or t.discr is None or t.discr.place is None:
                continue
            arms_to = [x for x in bi.cfg.succ[blk.idx] if all(e.bb in bi.cfg.edge_dominated(blk.idx, x) for e in rem)]
            if not arms_to:
                continue
            sd = sl.of(tid, t.discr)
            compares = bool({"Eq", "Ne"} & sd.ops) or any(c.split("::")[-1] in ("eq", "ne", "ptr_eq") for c in sd.calls)
            if ident in sd.fields and compares:
                checked = True
    # the decision may be recorded first (a classifier enum / a flag) and acted on later: follow constants along the paths --
    # every feasible path from the entry to the removal takes the `equal` arm of an identity comparison
    if not checked and rem:
        from consumers import const_walk
        eq_arm = set()
        for blk in bi.body.blocks:
            if blk.cleanup or blk.idx not in bi.cfg.reach or blk.term.k != "switch":
                continue
            for st in blk.stmts:
                if st.k == "assign" and st.rv.k == "bin" and st.rv.j["op"] in ("Eq", "Ne") and st.lhs.is_local() \
                        and blk.term.discr is not None and blk.term.discr.place is not None and blk.term.discr.place.is_local() \
                        and blk.term.discr.place.local == st.lhs.local:
                    fs = set()
                    for op in st.rv.ops:
                        fs |= sl.of(tid, op).fields
                    if ident not in fs:
                        continue
                    arms = dict(blk.term.arms)
                    tgt = blk.term.otherwise if st.rv.j["op"] == "Eq" else arms.get(0)
                    if tgt is not None and len(bi.cfg.pred[tgt]) == 1:
                        eq_arm.add(tgt)
        if eq_arm:
            rem_bbs = {e.bb for e in rem}
            labels = const_walk(bi, 0, lambda bb: "rem" if bb in rem_bbs else ("eq" if bb in eq_arm else None), max_steps=20000)
            if "rem" not in labels and "unknown" not in labels and "eq" in labels:
                checked = True
    key = "detach-identity:%s" % prog.short(tid)
    if checked:
        out.holds(key, bi.loc(rem[0].bb), "the entry is removed only if it is the requesting incarnation (identity comparison dominates the removal)")
        return
    # otherwise every requester must sit under the subscription actor's once-only guard
    cons = sorted({b for b, _, _, _ in prog.constructions(R.topic_actor.request, vname)})
    root = prog.facts.body(cons[0]).root or cons[0] if cons else None
    sflag = A.cell("SubscriptionActor", "deleted", optional=True)
    guarded = True
    site = None
    for cid, cb in prog.facts.bodies.items():
        if cb.crate != "lib" or root is None:
            continue
        ci = prog.info(cid)
        for cbb, t in ci.calls(lambda c: prog.qual(cb, c.target) == root):
            rb = prog.facts.body(cb.root) if cb.root else cb
            in_actor = (cb.impl_self or (rb.impl_self if rb else None)) == R.sub_actor.ty
            if not (in_actor and cbb in flag_false_blocks(prog, R, ci, sflag)):
                guarded = False
                site = ci.loc(cbb)
    if guarded and root is not None:
        out.holds(key, bi.loc(rem[0].bb), "removed by name, but only requested from under the subscription actor's `!self.deleted` guard (once per incarnation)")
    else:
        out.violation(key, site or bi.loc(rem[0].bb), "the topic detaches a subscription by name only, and the request can be issued from a handle of an incarnation that is "
                      "already deleted: a stale (e.g. racing second) DeleteSubscription detaches a newer subscription created under the same name, which then exists but receives nothing")


@rule("C11", "R11.7", "the topic's subscription listing is computed from the live attachment set on every request", floor=1)
@rule("C13", "R11.7", "the topic's subscription listing is computed from the live attachment set on every request", floor=1)
def r11_7(prog, out):
    """ListTopicSubscriptions must equal the set of live subscriptions at every quiescent moment: the page is cut from
    TopicActor.subscriptions itself, not from a copy that lives across requests (a snapshot refreshed `when the size changed`
    misses a delete followed by a create)."""
    R = roles(prog)
    A = prog.anchors
    sl = Slicer(prog)
    actor = R.topic_actor
    listers = []
    for vname in actor.variants:
        fields = [f["ty"] for v in prog.facts.adt(actor.request)["variants"] if v["name"] == vname for f in v["fields"]]
        if any(A.ty("Paging") in t for t in fields):
            listers += [(vname, t) for t in R.variant_targets(actor, vname)]
    if not listers:
        # the list handler may be written into the dispatcher
        listers = [(v, actor.dispatch) for v in actor.variants if any(A.ty("Paging") in f["ty"] for vv in prog.facts.adt(actor.request)["variants"] if vv["name"] == v for f in vv["fields"])]
    if not listers:
        raise CheckBroken("no topic request carries a Paging")
    page_ty = "crate::subscriptions::paging::SubscriptionsPage"
    for vname, tid in listers:
        bi = prog.info(tid)
        key = "live-listing:%s" % prog.short(tid)
        # what the page is built from
        src = None
        for (cb, bb, i, rv) in prog.constructions_in(tid):
            if rv.j.get("adt") == page_ty:
                src = (bb, rv.ops[0])
        for bb, t in bi.calls(lambda c: c.target.startswith(page_ty + "::")):
            if t.args:
                src = (bb, t.args[0])
        if src is None:
            out.undecided(key, prog.loc(tid), "construction of the page not found")
            continue
        s0 = sl.of(tid, src[1])
        own = {f for f in s0.fields if f[0] == actor.ty}
        other = sorted(f[1] for f in own if f != R.topic_subs)
        if R.topic_subs in own and not other:
            out.holds(key, bi.loc(src[0]), "the page is cut from TopicActor.subscriptions as it is when the request is handled")
        elif other:
            out.violation(key, bi.loc(src[0]), "the listing is served from TopicActor.%s, a copy of the attachment set kept across requests: after a delete followed by a "
                          "create (or any change the refresh condition does not notice) ListTopicSubscriptions differs from the live subscriptions" % other[0])
        else:
            out.violation(key, bi.loc(src[0]), "the listing is not derived from TopicActor.subscriptions")


@rule("C11", "R11.8", "an attach that was overtaken by the subscription's own detach request does not attach", floor=1)
@rule("C01", "R11.8", "an attach that was overtaken by the subscription's own detach request does not attach", floor=1)
def r11_8(prog, out):
    """CreateSubscription registers the name and then sends the attach request from a task; DeleteSubscription of that name can
    run in between and send its detach request first.  The topic then detaches nothing, attaches the subscription afterwards,
    and nothing ever removes it: a deleted subscription stays in the topic's list, and every later Publish to the topic fails
    on its closed mailbox.  The two requests travel through one FIFO mailbox, so it is enough that (1) the deletion marks the
    subscription *before* it sends the detach request and (2) the attach handler does not attach a marked subscription.
    HOLDS for exactly this shape; VIOLATION when the attach handler inserts whatever arrives and nothing else orders the two
    requests; UNDECIDED for other mechanisms (the deletion waits for the creation, lookups hide unattached subscriptions,
    tombstones in the topic)."""
    from mapstate import _bool_switches
    R = roles(prog)
    A = prog.anchors
    attach = R.attach_variant()
    key = "overtaken-attach"
    tids = R.variant_targets(R.topic_actor, attach)
    if not tids:
        raise CheckBroken("attach handler not found")
    tid = tids[0]
    bi = prog.info(tid)
    ins = [e for e in prog.effects(tid) if e.touches(R.topic_subs) and e.kind in L.INSERT_KINDS]
    if not ins:
        raise CheckBroken("the attach handler does not insert into the topic's subscription set")
    # (2) a flag of the subscription consulted by the attach handler: the insert only happens on its `false` arm
    flag = None
    for e in prog.effects(tid):
        if e.kind != "atomic_load" or not e.cells:
            continue
        t = bi.body.blocks[e.bb].term if not e.chain else None
        if t is None or t.k != "call" or t.dest is None or not t.dest.is_local():
            continue
        for sw, tr, fa in _bool_switches(bi, t.dest.local):
            if fa is not None and all(x.bb in bi.cfg.edge_dominated(sw, fa) for x in ins):
                flag = (e.cells[-1], e.bb)
    # the detach request: who builds it
    detach_variant = None
    for vname in R.topic_actor.variants:
        for t2 in R.variant_targets(R.topic_actor, vname):
            effs = prog.effects(t2)
            if any(e.touches(R.topic_subs) and e.kind in L.REMOVE_KINDS for e in effs) and not any(e.touches(R.topic_subs) and e.kind == "clear" for e in effs):
                detach_variant = vname
    cons = sorted({b for b, _, _, _ in prog.constructions(R.topic_actor.request, detach_variant)}) if detach_variant else []
    if not cons:
        raise CheckBroken("detach request never built")
    if flag is not None:
        cell, lbb = flag
        # (1) the flag is raised before the detach request can be sent
        ok = False
        where = None
        cond_topic = False
        for b in prog.facts.lib_bodies():
            ebi = prog.info(b.id)
            for e in prog.effects(b.id):
                if e.chain or e.kind not in ("atomic_store", "atomic_rmw") or not e.cells or e.cells[-1] != cell:
                    continue            # store(true) / swap(true) / fetch_or(true)
                st = ebi.body.blocks[e.bb].term
                if st.k != "call" or len(st.args) < 2 or st.args[1].const_bool() is not True:
                    continue
                where = (b.id, e.bb)
                # the detach is sent from this body, or from something it calls / builds / spawns after the store
                ALL = ("call", "closure", "poll", "spawn")
                sites = [bb2 for (cb2, bb2, _i, _rv) in prog.constructions(R.topic_actor.request, detach_variant) if cb2 == b.id]
                for ed in prog.edges(b.id):
                    if set(cons) & set(prog.cone(ed.dst, follow=ALL)):
                        sites.append(ed.bb)
                if sites and all(ebi.cfg.dominates(e.bb, x) for x in sites):
                    ok = True
                elif sites:
                    # raised only when the topic is still there (`if topic.is_some() { flag }`): without a topic no detach request
                    # is sent and no attach can arrive either
                    sl0 = Slicer(prog)
                    for blk in ebi.body.blocks:
                        if blk.cleanup or blk.term.k != "switch" or blk.term.discr is None or blk.term.discr.place is None:
                            continue
                        if ebi.cfg.dominates(blk.idx, e.bb) and any(c.split("::")[-1] in ("upgrade", "is_some", "is_none") for c in sl0.of(b.id, blk.term.discr).calls) \
                                and any("Weak" in c and c.endswith("::upgrade") for c in sl0.of(b.id, blk.term.discr).calls):
                            cond_topic = True
        if ok:
            out.holds(key, bi.loc(lbb), "the deletion marks the subscription before it sends the detach request, and the attach handler does not attach a marked subscription")
        elif cond_topic:
            out.undecided(key, prog.loc(*where), "the flag is raised only when the topic is still alive; whether every path that sends the detach request raises it first "
                          "depends on the same test being repeated (not decided)")
        elif where is None:
            out.violation(key, bi.loc(lbb), "the attach handler consults a flag of the subscription that no deletion ever raises")
        else:
            out.violation(key, prog.loc(*where), "the flag the attach handler consults is not raised before the detach request is sent: the detach can still overtake the attach")
        return
    # no flag: is there another mechanism?
    other = []
    guards = [blk.idx for blk in bi.body.blocks if not blk.cleanup and blk.term.k == "switch" and any(bi.cfg.dominates(blk.idx, x.bb) for x in ins)]
    rem_tids = R.variant_targets(R.topic_actor, detach_variant)
    if any(e.kind in L.INSERT_KINDS and not e.touches(R.topic_subs) for t2 in rem_tids for e in prog.effects(t2) if e.cells and e.root[0] in ("param", "upvar")):
        other.append("the detach handler records something (tombstones?)")
    for c in cons:
        # an await in front of the detach send in the deletion task (the deletion waits for something first)
        ci = prog.info(c)
        sends = [a for a in ci.awaits if await_class(prog, ci, a) == "mpsc_send"]
        for a in ci.awaits:
            if sends and a is not sends[0] and await_class(prog, ci, a) not in ("mpsc_send", "oneshot_recv") and ci.cfg.dominates(a.poll_bb, sends[0].poll_bb):
                other.append("the deletion awaits %s before detaching" % await_class(prog, ci, a))
    if len(guards) > 1:
        other.append("the attach handler tests more than the vacancy of the name")
    if other:
        out.undecided(key, prog.loc(tid), "no `deletion has begun` flag is consulted by the attach handler, but %s: not decided" % "; ".join(sorted(set(other))))
    else:
        out.violation(key, prog.loc(tid, ins[0].bb), "the attach handler attaches whatever arrives, and nothing orders a subscription's attach request (sent from a task after the "
                      "name was registered) before its own detach request: DeleteSubscription racing CreateSubscription leaves a deleted subscription attached to the topic "
                      "for ever, and every later Publish to the topic fails on its closed mailbox")


def deletion_latch(prog, R):
    """the flag of the subscription handle that the attach handler consults before it attaches (R11.8): (cell, attach handler id)"""
    from mapstate import _bool_switches
    attach = R.attach_variant()
    tids = R.variant_targets(R.topic_actor, attach)
    if not tids:
        return None, None
    tid = tids[0]
    bi = prog.info(tid)
    ins = [e for e in prog.effects(tid) if e.touches(R.topic_subs) and e.kind in L.INSERT_KINDS]
    for e in prog.effects(tid):
        if e.kind not in ("atomic_load", "atomic_rmw") or not e.cells:
            continue
        t = bi.body.blocks[e.bb].term if not e.chain else None
        if t is None or t.k != "call" or t.dest is None or not t.dest.is_local():
            continue
        if e.cells[-1][0] != prog.anchors.ty("Subscription"):
            continue            # the topic's own `deleted` flag is not the handle's latch
        for sw, tr, fa in _bool_switches(bi, t.dest.local):
            if fa is not None and ins and all(x.bb in bi.cfg.edge_dominated(sw, fa) for x in ins):
                return e.cells[-1], tid
    return None, tid


def _r11_9(prog, out, prop):
    """The handle's `deletion has begun` latch (raised by `Subscription::delete` before it sends the detach request, read by the
    topic's attach handler) invites reuse: skip a push round for a subscription that is on its way out, make delete idempotent,
    answer NOT_FOUND early, release the name only for a handle that asked for it.  Every such reader takes a decision that is
    right exactly when latch = `this handle's own deletion has begun and will run to completion`.  That meaning is lost when
    (a) something else raises the latch too (the topic's deletion flagging its subscriptions: they live on, their deletion has
    not begun), (b) the deletion raises it only on some paths, or (c) the reader's arm is also taken when the topic is merely
    gone.  Neither the extra reader nor the extra writer is wrong alone; together a live subscription is never pushed to again,
    DeleteSubscription waits for a signal nobody sends, returns OK without deleting, or leaves the name taken.
    One instance per deciding reader outside the attach handler; zero readers is the state of the reference tree."""
    from mapstate import _bool_switches
    R = roles(prog)
    cell, attach_tid = deletion_latch(prog, R)
    if cell is None:
        out.holds("latch-readers", "", "no deletion latch is consulted by the attach handler (R11.8 judges how an overtaken attach is kept out)", nontrivial=False)
        return
    actor, vname, _tid = delete_flow(prog)
    d_roots = set()
    for (b2, _bb, _i, _rv) in prog.constructions(actor.request, vname):
        x = prog.facts.body(b2)
        while x is not None and x.parent:
            x = prog.facts.body(prog.qual(x, x.parent))
        d_roots.add(x.id if x is not None else b2)

    def root_of(bid):
        x = prog.facts.body(bid)
        while x is not None and x.parent:
            x = prog.facts.body(prog.qual(x, x.parent))
        return x.id if x is not None else bid

    writers = []       # (body, bb)
    for b in prog.facts.lib_bodies():
        ebi = prog.info(b.id)
        for e in prog.own_effects(b.id):
            if not e.cells or e.cells[-1] != cell or e.kind not in ("atomic_store", "atomic_rmw"):
                continue
            st = ebi.body.blocks[e.bb].term
            if st.k == "call" and len(st.args) >= 2 and st.args[1].const_bool() is True:
                writers.append((b.id, e.bb))
    # a function that nobody calls raises nothing
    called = set()
    for b in prog.facts.lib_bodies():
        for ed in prog.edges(b.id):
            called.add(ed.dst)
    writers = [(w, wbb) for (w, wbb) in writers if root_of(w) in d_roots or w in called or root_of(w) in called]
    accessors = set()
    for b in prog.facts.lib_bodies():
        if b.local_ty(0) == "bool" and any(e.kind == "atomic_load" and e.cells and e.cells[-1] == cell for e in prog.own_effects(b.id)):
            accessors.add(b.id)
    readers = []       # (body, bb of the read, dest local)
    for b in prog.facts.lib_bodies():
        bi = prog.info(b.id)
        for e in prog.own_effects(b.id):
            if e.cells and e.cells[-1] == cell and e.kind in ("atomic_load", "atomic_rmw"):
                t = bi.body.blocks[e.bb].term
                if t.k == "call" and t.dest is not None and t.dest.is_local():
                    readers.append((b.id, e.bb, t.dest.local))
        for bb, t in bi.calls(lambda c: prog.qual(b, c.target) in accessors):
            if t.dest is not None and t.dest.is_local():
                readers.append((b.id, bb, t.dest.local))
    n = 0
    where = {"C14": lambda bid: bid.startswith("crate::push::"),
             "C07": lambda bid: root_of(bid) in d_roots,
             "C12": lambda bid: root_of(bid) in d_roots}
    for bid, bb, local in readers:
        if bid == attach_tid or root_of(bid) == root_of(attach_tid) or bid in accessors:
            continue
        bi = prog.info(bid)
        sws = _bool_switches(bi, local)
        if not sws:
            continue            # the value is reported, not decided on
        if prop in where and not where[prop](bid):
            continue
        n += 1
        key = "latch-reader:%s" % prog.short(bid)
        foreign = [(w, wbb) for w, wbb in writers if root_of(w) not in d_roots]
        partial = []
        for w, wbb in writers:
            if root_of(w) in d_roots:
                wi = prog.info(w)
                if wi.cfg.escapes(0, {wbb}, after=False) is not None:
                    partial.append((w, wbb))
        # (c) the latch-set arm is also reached when the latch is not set, because the topic is gone
        gone = None
        headers = set(bi.cfg.loops())
        sl = Slicer(prog)
        for sw, tr, fa in sws:
            if tr is None or fa is None:
                continue
            # `latch || topic gone`: a test of the topic's Weak on the latch-false side one of whose arms joins the latch-true arm
            # (short-circuit: the latch-true side reaches that arm without passing the test itself)
            region = bi.cfg.reachable_from(fa, avoid=headers | {sw})
            for g in sorted(region):
                gt = bi.body.blocks[g].term
                if gt.k != "switch" or gt.discr is None or gt.discr.place is None:
                    continue
                cs = sl.of(bid, gt.discr).calls
                if not any(c.split("::")[-1] in ("strong_count", "upgrade") and "Weak" in c for c in cs):
                    continue
                for g2 in bi.cfg.succ[g]:
                    if bi.cfg.path(tr, {g2}, avoid=headers | {sw, g}):
                        gone = bi.loc(g)
        if foreign:
            w, wbb = foreign[0]
            out.violation(key, bi.loc(bb), "%s decides on the handle's `deletion has begun` latch, but %s raises that latch too, without any deletion of the subscription "
                          "having begun: the subscription lives on and is treated as being deleted (not pushed to again / its delete waits for, or reports, a deletion "
                          "nobody performs)" % (prog.short(bid), prog.short(w)),
                          ["reader at %s" % bi.loc(bb), "foreign writer at %s" % prog.loc(w, wbb)])
        elif partial:
            w, wbb = partial[0]
            out.violation(key, bi.loc(bb), "%s decides on the handle's `deletion has begun` latch, but the deletion raises it only on some paths (%s): for the others the "
                          "reader concludes that no deletion was requested" % (prog.short(bid), prog.loc(w, wbb)))
        elif gone:
            out.violation(key, bi.loc(bb), "%s takes the arm meant for `the deletion of this subscription has begun` also when its topic is merely gone (%s): a subscription "
                          "whose topic was deleted still exists and must keep being served" % (prog.short(bid), gone))
        else:
            out.holds(key, bi.loc(bb), "decides on the latch; the latch is raised only by the handle's own deletion, on every path")
    out.holds("latch-readers", "", "%d decision(s) on the deletion latch outside the attach handler" % n, nontrivial=False)


@rule("C11", "R11.9", "whoever decides on the handle's `deletion has begun` latch can rely on it: only the handle's own deletion raises it, unconditionally", floor=1)
def r11_9_c11(prog, out):
    _r11_9(prog, out, "C11")


@rule("C10", "R11.9", "whoever decides on the handle's `deletion has begun` latch can rely on it: only the handle's own deletion raises it, unconditionally", floor=1)
def r11_9_c10(prog, out):
    _r11_9(prog, out, "C10")


@rule("C07", "R11.9", "whoever decides on the handle's `deletion has begun` latch can rely on it: only the handle's own deletion raises it, unconditionally", floor=1)
def r11_9_c07(prog, out):
    _r11_9(prog, out, "C07")


@rule("C12", "R11.9", "whoever decides on the handle's `deletion has begun` latch can rely on it: only the handle's own deletion raises it, unconditionally", floor=1)
def r11_9_c12(prog, out):
    _r11_9(prog, out, "C12")


@rule("C14", "R11.9", "whoever decides on the handle's `deletion has begun` latch can rely on it: only the handle's own deletion raises it, unconditionally", floor=1)
def r11_9_c14(prog, out):
    _r11_9(prog, out, "C14")


def validated_on_hit(prog, cell, primary):
    """every body that looks a handle up in `cell` goes on to read an atomic flag (of the handle) that the deletion handler of the
    resource raises on every path *before* it removes the name from the manager's map `primary`"""
    actor, vname, tid = delete_flow(prog)
    ti = prog.info(tid)
    rem = [e for e in prog.effects(tid) if e.touches(primary) and e.kind in L.REMOVE_KINDS]
    if not rem:
        return False
    raised = {}
    for e in prog.effects(tid):
        if e.kind in ("atomic_store", "atomic_rmw") and e.cells:
            raised.setdefault(e.cells[-1], set()).add(e.bb)
    early = {c for c, bbs in raised.items() if all(any(ti.cfg.dominates(sb, r.bb) and sb != r.bb for sb in bbs) for r in rem)}
    if not early:
        return False
    readers = 0
    for b in prog.facts.lib_bodies():
        bi = prog.info(b.id)
        gets = [e for e in prog.own_effects(b.id) if e.touches(cell) and e.lib.split("::")[-1] in ("get", "get_mut", "get_key_value")
                and ("HashMap::<" in e.lib or "BTreeMap::<" in e.lib)]
        if not gets:
            continue
        readers += 1
        for g in gets:
            checks = [e for e in prog.effects(b.id) if e.kind == "atomic_load" and e.cells and e.cells[-1] in early and bi.cfg.can_reach(g.bb, e.bb)]
            if not checks:
                return False
    return readers > 0


def _r11_10(prog, out):
    """A map from resource names to handles is a registry: a request that finds a handle in it is served by that incarnation.
    The managers' maps (and the topic's attachment set) are kept in step with creation and deletion by R10.x / R11.x.  Any
    other such map -- a cache of resolved handles in the API layer, a look-aside table -- is a second registry: unless every
    removal from the manager's map also removes from it, a request issued after DeleteSubscription + CreateSubscription of
    the same name is served by the deleted incarnation (its deliveries never come, its acks go nowhere), however the cache
    tries to tell a dead handle from a live one.  Instances: every map field of the crate from a name (or a string) to a
    handle, outside the managers and the topic actor."""
    import re
    A = prog.anchors
    handles = {A.ty("Subscription"): (A.ty("SubscriptionName"), A.cell("SubState", "subscriptions")),
               A.ty("Topic"): (A.ty("TopicName"), A.cell("TopicState", "topics"))}
    home = {A.cell("SubState", "subscriptions"), A.cell("TopicState", "topics"), A.cell("TopicActor", "subscriptions")}
    # a private wrapper type around one of those maps (`struct AttachedSubscriptions { by_name: HashMap<..> }`) is that map
    home_types = set()
    for (hadt, hf) in list(home):
        f0 = prog.facts.adt_field(hadt, hf)
        ty0 = (f0 or {}).get("ty", "")
        for _ in range(3):
            base = ty0.split("<")[0]
            a0 = prog.facts.adt(base) if base.startswith("crate::") else None
            if a0 is None:
                break
            home_types.add(base)
            fs = [f for v in a0["variants"] for f in v["fields"]]
            ty0 = fs[0]["ty"] if len(fs) == 1 else ""
    n = 0
    for path, adt in sorted(prog.facts.adts.items()):
        if path.startswith("crate::pubsub_proto"):
            continue
        for v in adt["variants"]:
            for f in v["fields"]:
                m = re.search(r"std::collections::(?:HashMap|BTreeMap)<(.*)$", f["ty"])
                if not m:
                    continue
                rest = m.group(1)
                depth, k, vstart = 0, None, 0
                for i, ch in enumerate(rest):
                    if ch in "<([":
                        depth += 1
                    elif ch in ">)]":
                        if depth == 0:
                            break
                        depth -= 1
                    elif ch == "," and depth == 0 and k is None:
                        k = rest[:i].strip()
                        vstart = i + 1
                if k is None:
                    continue
                v0 = rest[vstart:].strip()
                for _ in range(4):
                    m2 = re.match(r"^(?:std::sync::Arc|std::option::Option|std::boxed::Box)<(.*)$", v0)
                    if not m2:
                        break
                    v0 = m2.group(1)
                for h, (nt, primary) in handles.items():
                    if not re.match(r"^%s([>, ]|$)" % re.escape(h), v0):
                        continue
                    stringish = bool(re.search(r"(^|[<&, ])str([>, ]|$)|::String\b|^String\b", k))
                    if k != nt and not stringish:
                        continue
                    cell = (path, f["name"])
                    if cell in home or path in home_types:
                        continue
                    n += 1
                    key = "second-registry:%s.%s" % (short_ty(path), f["name"])
                    if companion_in_lockstep(prog, primary, cell):
                        out.holds(key, adt.get("span", ""), "kept in step with the manager's map: every removal there removes here")
                    elif validated_on_hit(prog, cell, primary):
                        out.holds(key, adt.get("span", ""), "not updated with the manager's map, but every hit is checked against a flag of the handle that the "
                                  "resource's deletion raises before it releases the name: a handle that still passes is the one the manager holds")
                    else:
                        out.violation(key, adt.get("span", ""), "%s.%s maps names to %s handles next to the manager's map and is not updated when the manager's entry is "
                                      "removed: after delete + re-create of a name, requests that resolve through it are served by the deleted incarnation (the new "
                                      "subscription's messages are never delivered, acknowledgements go to the old one)" % (short_ty(path), f["name"], short_ty(h)))
    out.holds("second-registries", "", "%d map(s) from names to handles outside the managers and the topic actor" % n, nontrivial=False)


@rule("C10", "R11.10", "a map from names to handles outside the managers is kept in step with the manager's map (no second registry)", floor=1)
def r11_10_c10(prog, out):
    _r11_10(prog, out)


@rule("C11", "R11.10", "a map from names to handles outside the managers is kept in step with the manager's map (no second registry)", floor=1)
def r11_10_c11(prog, out):
    _r11_10(prog, out)


@rule("C01", "R11.10", "a map from names to handles outside the managers is kept in step with the manager's map (no second registry)", floor=1)
def r11_10_c01(prog, out):
    _r11_10(prog, out)


@rule("C02", "R11.10", "a map from names to handles outside the managers is kept in step with the manager's map (no second registry)", floor=1)
def r11_10_c02(prog, out):
    _r11_10(prog, out)


@rule("C14", "R11.10", "a map from names to handles outside the managers is kept in step with the manager's map (no second registry)", floor=1)
def r11_10_c14(prog, out):
    _r11_10(prog, out)
