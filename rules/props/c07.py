"""C07 — every request terminates: no deadlock between topic and subscription actors."""
from engine import rule, CheckBroken
from common import await_class, mpsc_send_request, short_ty
import libmodel as L

TASK_FOLLOW = ("call", "closure", "poll", "spawn-joinset", "spawn-detached-awaited")


def actor_wait_edges(prog):
    """G7: X -> Y iff code running in X's task (joined children included) awaits capacity of Y's
    bounded mailbox.  Returns {(X, Y): [call path strings]}"""
    edges = {}
    actors = prog.actors
    by_req = {a.request: a for a in actors}
    for x in actors:
        for bid in prog.cone(x.loop, follow=TASK_FOLLOW):
            bi = prog.info(bid)
            if bi is None or not bi.body.coroutine:
                continue
            for a in bi.awaits:
                if await_class(prog, bi, a) != "mpsc_send":
                    continue
                req = mpsc_send_request(bi, a)
                y = by_req.get(req)
                if y is None:
                    continue
                paths = prog.call_paths(x.loop, lambda b: b == bid, follow=TASK_FOLLOW, limit=1)
                steps = []
                if paths:
                    for (pb, pbb, kind) in paths[0]:
                        steps.append("%s (%s) %s" % (prog.short(pb), prog.loc(pb, pbb), kind))
                steps.append("%s (%s) awaits Sender<%s>::send, capacity %s" % (prog.short(bid), bi.loc(a.poll_bb), short_ty(req), y.capacity))
                edges.setdefault((x.ty, y.ty), []).append(steps)
    return edges


@rule("C07", "R07.1", "actor wait-for graph is acyclic (G7)", floor=1)
def r07_1(prog, out):
    actors = prog.actors
    if len(actors) < 2:
        raise CheckBroken("expected the topic and the subscription actor, found %d actor(s)" % len(actors))
    edges = actor_wait_edges(prog)
    nodes = [a.ty for a in actors]
    adj = {n: set() for n in nodes}
    for (x, y) in edges:
        adj[x].add(y)
    # simple cycles by DFS (the graph has a handful of nodes)
    cycles = []

    def dfs(start, cur, path):
        for nxt in sorted(adj[cur]):
            if nxt == start:
                cycles.append(path + [cur])
            elif nxt not in path and nxt != cur and nodes.index(nxt) > nodes.index(start):
                dfs(start, nxt, path + [cur])

    for n in nodes:
        dfs(n, n, [])
    on_cycle = set()
    for cyc in cycles:
        names = [short_ty(c) for c in cyc]
        k = min(range(len(names)), key=lambda i: names[i])
        names = names[k:] + names[:k]
        cyc2 = cyc[k:] + cyc[:k]
        key = "cycle:" + "->".join(names + [names[0]])
        path = []
        for i, c in enumerate(cyc2):
            nxt = cyc2[(i + 1) % len(cyc2)]
            on_cycle.add((c, nxt))
            path.append("%s waits for %s:" % (short_ty(c), short_ty(nxt)))
            for step in edges[(c, nxt)][0]:
                path.append("    " + step)
        site = edges[(cyc2[0], cyc2[(1) % len(cyc2)])][0][-1]
        out.violation(key, site, "actors wait for each other: each side awaits capacity of the other's bounded mailbox "
                      "from inside its own message loop; once one mailbox on the cycle is full neither can make progress", path)
    for (x, y), paths in sorted(edges.items()):
        if (x, y) in on_cycle:
            continue
        out.holds("edge:%s->%s" % (short_ty(x), short_ty(y)), paths[0][-1], "wait edge not on a cycle (%d site(s))" % len(paths))
    if not edges:
        out.undecided("no-edges", "", "no actor awaits another actor's mailbox")


@rule("C07", "R07.2", "no lock guard is alive across a suspension point (G8a)", floor=5)
def r07_2(prog, out):
    n = 0
    for b in prog.facts.lib_bodies():
        bi = prog.info(b.id)
        guards = []
        for l, decl in enumerate(b.locals):
            ty = b.types[decl["t"]]
            if any(ty.startswith(g) for g in L.GUARD_TYPES):
                guards.append(l)
        if not guards:
            continue
        yields = set(bi.yields())
        for g in guards:
            for (dbb, di) in bi.defs.get(g, []):
                n += 1
                key = "%s:guard#%d" % (prog.short(b.id), guards.index(g))
                if di != -1:
                    # guard produced by a move from another guard local: covered by that local's range
                    continue
                live = prog.guard_live_blocks(b.id, dbb, g)
                bad = sorted(live & yields)
                if bad:
                    out.violation(key, bi.loc(dbb), "lock guard (%s) acquired here is still alive at the suspension point %s"
                                  % (short_ty(b.local_ty(g)), bi.loc(bad[0])),
                                  ["acquire %s" % bi.loc(dbb), "yield %s" % bi.loc(bad[0])])
                else:
                    out.holds(key, bi.loc(dbb), "guard released before any suspension point" if yields else "body never suspends",
                              nontrivial=bool(yields))


def lock_identity(bi, t):
    """the protected data type of a lock acquisition (RwLock<R, T>::write -> T)"""
    args = t.callee.args or []
    return args[-1] if args else "?"


def locks_in_cone(prog, body_id, seen=None):
    """lock identities acquired by body_id or anything it calls synchronously"""
    out = []
    for bid in prog.cone(body_id, follow=("call", "closure")):
        bi = prog.info(bid)
        if bi is None:
            continue
        for bb, t in bi.calls(lambda c: c.path in L.LOCK_ACQUIRE):
            out.append((lock_identity(bi, t), bid, bb))
    return out


def closure_locks(prog, bi, rv, depth=0):
    """locks acquired by the closure built by aggregate rv, or by a closure it captures"""
    clo = prog.qual(bi.body, rv.j["def"])
    out = list(locks_in_cone(prog, clo)) if prog.facts.body(clo) is not None else []
    if depth < 4:
        for op in rv.ops:
            o = bi.trace(op)
            if o.kind == "agg" and not o.path and bi.agg_at(o.data).j.get("ak") == "closure":
                out.extend(closure_locks(prog, bi, bi.agg_at(o.data), depth + 1))
    return out


def closure_arg_locks(prog, callee_body):
    """locks acquired by closures that callers hand to `callee_body` (a method that invokes a closure parameter)"""
    out = []
    root = callee_body.root or callee_body.id
    for cid, cb in prog.facts.bodies.items():
        if cb.crate != "lib":
            continue
        ci = prog.info(cid)
        for cbb, t in ci.calls(lambda c: prog.qual(cb, c.target) == root):
            for a in t.args:
                o = ci.trace(a)
                if o.kind == "agg" and ci.agg_at(o.data).j.get("ak") == "closure":
                    clo = prog.qual(cb, ci.agg_at(o.data).j["def"])
                    out.extend(locks_in_cone(prog, clo))
    return out


@rule("C07", "R07.6", "no mailbox permit is held while waiting for another actor (hold-and-wait on mailbox capacity)", floor=1)
def r07_6(prog, out):
    n = 0
    for b in prog.facts.lib_bodies():
        if not b.coroutine:
            continue
        bi = prog.info(b.id)
        permits = [l for l, d in enumerate(b.locals) if b.types[d["t"]].startswith("tokio::sync::mpsc::Permit<") or b.types[d["t"]].startswith("tokio::sync::mpsc::OwnedPermit<")]
        for a in bi.awaits:
            cls = await_class(prog, bi, a)
            if cls not in ("mpsc_send", "oneshot_recv", "local"):
                continue
            n += 1
        for pl in permits:
            for (dbb, di) in bi.defs.get(pl, []):
                live = prog.guard_live_blocks(b.id, dbb if di == -1 else dbb, pl) if di == -1 else set()
                if di != -1:
                    # permit extracted from the Result of the awaited reserve(): alive from here to its use / drop
                    start = dbb
                    live = set()
                    stack = [start]
                    uses = {u[0] for u in bi.uses_of_local(pl) if u[1] == -1}
                    while stack:
                        x = stack.pop()
                        if x in live:
                            continue
                        live.add(x)
                        if x in uses or (b.blocks[x].term.k == "drop" and b.blocks[x].term.place.local == pl):
                            continue
                        stack.extend(bi.cfg.succ[x])
                for a in bi.awaits:
                    if a.yield_bb in live and await_class(prog, bi, a) in ("mpsc_send", "oneshot_recv", "local"):
                        actorish = await_class(prog, bi, a) != "local" or any(
                            await_class(prog, prog.info(x), y) in ("mpsc_send", "oneshot_recv") for x in prog.cone(prog.body_of_type(b, a.fut_ty) or b.id, follow=("call", "closure", "poll"))
                            if prog.info(x) is not None for y in prog.info(x).awaits)
                        if actorish:
                            out.violation("%s:permit-held" % prog.short(b.id), bi.loc(a.poll_bb), "a reserved slot of an actor mailbox (%s) is held while this task waits for another "
                                          "actor: with the mailbox's other slots taken the same way, the actor that must answer may itself be waiting for capacity of that mailbox"
                                          % short_ty(b.local_ty(pl)))
    out.holds("permits", "", "%d waits on actors inspected; no mailbox permit is alive across any of them" % n, nontrivial=n > 0)


@rule("C07", "R07.3", "lock acquisition order is acyclic and never re-entrant (G8b)", floor=5)
def r07_3(prog, out):
    order = {}   # (L1, L2) -> witness
    for b in prog.facts.lib_bodies():
        bi = prog.info(b.id)
        for bb, mode, o, guard in prog.lock_sites(b.id):
            t = bi.call_at(bb)
            l1 = lock_identity(bi, t)
            live = prog.guard_live_blocks(b.id, bb, guard) if guard is not None else set()
            nested = []
            for x in sorted(live):
                tt = b.blocks[x].term
                if tt.k == "call" and (tt.callee is None or (tt.callee.path.startswith("std::ops::Fn") and not tt.callee.res_local)):
                    # a caller-supplied closure runs while the lock is held: whatever the callers pass in is nested under it
                    for (l2, ib, ibb) in closure_arg_locks(prog, b):
                        nested.append((l2, ib, ibb))
                    continue
                if tt.k != "call" or tt.callee is None:
                    continue
                # a closure *parameter* handed to a library adapter (iter().filter_map(f).collect()) also runs under the lock
                for a in tt.args:
                    o = bi.trace(a)
                    if o.kind == "param" and isinstance(o.data, int) and not o.path:
                        pty = b.local_ty(o.data)
                        if pty.startswith("impl ") or (pty.isidentifier() and pty[:1].isupper() and len(pty) <= 2) or "Fn(" in pty or "FnMut(" in pty or "FnOnce(" in pty:
                            for (l2, ib, ibb) in closure_arg_locks(prog, b):
                                nested.append((l2, ib, ibb))
                # a closure built in this body and handed to a call (iter().filter_map(|e| f(e)).collect()) runs under the lock,
                # and so does every closure it captures
                for a in tt.args:
                    o = bi.trace(a)
                    if o.kind == "agg" and not o.path and bi.agg_at(o.data).j.get("ak") == "closure":
                        nested.extend(closure_locks(prog, bi, bi.agg_at(o.data)))
                if tt.callee.path in L.LOCK_ACQUIRE:
                    nested.append((lock_identity(bi, tt), b.id, x))
                elif tt.callee.res_local or tt.callee.local:
                    dst = prog.qual(b, tt.callee.target)
                    if prog.facts.body(dst) is not None:
                        for (l2, ib, ibb) in locks_in_cone(prog, dst):
                            nested.append((l2, ib, ibb))
            key = "%s:lock(%s)" % (prog.short(b.id), short_ty(l1))
            reent = [n for n in nested if n[0] == l1]
            if reent:
                out.violation(key, bi.loc(bb), "lock on %s is acquired again (%s) while already held: parking_lot locks are not re-entrant"
                              % (short_ty(l1), prog.loc(reent[0][1], reent[0][2])))
            else:
                out.holds(key, bi.loc(bb), "holds %s; nested acquisitions: %s" % (short_ty(l1), sorted({short_ty(n[0]) for n in nested}) or "none"),
                          nontrivial=bool(nested))
            for (l2, ib, ibb) in nested:
                if l2 != l1:
                    order.setdefault((l1, l2), "%s holds %s and acquires %s at %s" % (bi.loc(bb), short_ty(l1), short_ty(l2), prog.loc(ib, ibb)))
    for (l1, l2), w in sorted(order.items()):
        key = "order:%s<%s" % (short_ty(l1), short_ty(l2))
        if (l2, l1) in order:
            out.violation(key, w.split(" ")[0], "lock order inversion: %s; and %s" % (w, order[(l2, l1)]), [w, order[(l2, l1)]])
        else:
            out.holds(key, w.split(" ")[0], w)


UNBOUNDED = {"messages_available", "notified", "deleted", "stream_next", "mpsc_recv"}


def is_const_sleep(prog, bi, a):
    """the awaited Sleep was built by tokio::time::sleep(Duration::<ctor>(constant))"""
    if a.origin is None or a.origin.kind != "call":
        return False
    t = bi.call_at(a.origin.data)
    if t.callee is None or t.callee.path != "tokio::time::sleep" or not t.args:
        return False
    o = bi.trace(t.args[0])
    if o.kind != "call":
        return False
    d = bi.call_at(o.data)
    if d.callee is None or not d.callee.path.startswith("std::time::Duration::from_"):
        return False
    return all(arg.is_const() or bi.trace(arg).kind in ("const", "expr") for arg in d.args)


def timer_branch(prog, bi, sel):
    """does this select have a branch that is a constant-duration timer (directly or a coroutine whose
    only wait is such a timer)?  Returns "restarts" if the timer future is (re)created inside a loop of this body."""
    for br in sel.branches:
        if br.fut_ty == "tokio::time::Sleep":
            if br.origin is not None and br.origin.kind == "call" and bi.cfg.in_loop(br.origin.data):
                return "restarts"
            return True
        cid = prog.body_of_type(bi.body, br.fut_ty)
        if cid:
            ci = prog.info(cid)
            if ci is not None and ci.awaits and all(
                    await_class(prog, ci, x) == "sleep" and is_const_sleep(prog, ci, x) for x in ci.awaits):
                return True
    return False


@rule("C07", "R07.4", "a blocking Pull waits only under its server-side timer", floor=1)
def r07_4(prog, out):
    h = prog.handler("pull")
    if h is None or h.root is None:
        raise CheckBroken("unary pull handler not found")
    found = [0]

    def walk(bid, guarded, trail, seen):
        bi = prog.info(bid)
        if bi is None or (bid, guarded) in seen:
            return
        seen.add((bid, guarded))
        for a in bi.awaits:
            cls = await_class(prog, bi, a)
            if cls == "select":
                tb = timer_branch(prog, bi, a.select)
                if tb == "restarts" and not guarded:
                    found[0] += 1
                    out.violation("%s:timer-restarts" % prog.short(bi.body.id), bi.loc(a.poll_bb), "the Pull's wait limit is a timer created inside the wait loop: it starts "
                                  "again on every wake-up, so a Pull that keeps being woken without getting a message never reaches its server-side limit")
                g = guarded or bool(tb)
                for br in a.select.branches:
                    cid = prog.body_of_type(bi.body, br.fut_ty)
                    if cid:
                        walk(cid, g, trail + ["select@%s" % bi.loc(a.poll_bb)], seen)
                    else:
                        leaf(bi, a, br.fut_ty, g, trail)
            elif cls == "local":
                cid = prog.body_of_type(bi.body, a.fut_ty)
                walk(cid, guarded, trail + ["%s" % bi.loc(a.poll_bb)], seen)
            else:
                leaf(bi, a, a.fut_ty, guarded, trail)

    def leaf(bi, a, ty, guarded, trail):
        from common import await_class as ac
        kind = None
        t = ty or ""
        if t.startswith("crate::subscriptions::futures::MessagesAvailable") or t.startswith("tokio::sync::futures::Notified"):
            kind = "message signal"
        elif t == "crate::subscriptions::futures::Deleted":
            kind = "deletion signal"
        elif t.startswith("tokio_stream::stream_ext::next::Next<"):
            kind = "stream item"
        if kind is None:
            return
        found[0] += 1
        key = "%s:wait(%s)" % (prog.short(bi.body.id), short_ty(t))
        if guarded:
            out.holds(key, bi.loc(a.poll_bb), "unbounded wait (%s) is raced against the constant pull timer" % kind)
        else:
            out.violation(key, bi.loc(a.poll_bb), "a blocking Pull waits for a %s with no server-side timer racing it: the call can wait forever" % kind,
                          trail + [bi.loc(a.poll_bb)])

    walk(h.root, False, [], set())
    if found[0] == 0:
        out.undecided("pull:no-unbounded-wait", prog.loc(h.root), "the pull handler never waits for a signal")


ALLOWED_IN_ACTOR = {"local", "mpsc_send", "oneshot_recv", "join_next", "select", "join_handle", "sleep"}


@rule("C07", "R07.5", "actor handlers only wait for other actors (so every wait is an edge of the wait-for graph)", floor=2)
def r07_5(prog, out):
    for actor in prog.actors:
        seen = set()
        bad = []
        # the loop itself may wait on its mailbox, the expiry poll and the deletion signal
        for bid in prog.cone(actor.dispatch, follow=TASK_FOLLOW):
            bi = prog.info(bid)
            if bi is None or not bi.body.coroutine:
                continue
            for a in bi.awaits:
                cls = await_class(prog, bi, a)
                if cls == "select":
                    for br in a.select.branches:
                        if br.fut_ty and not br.fut_ty.startswith("{coroutine:"):
                            c2 = br.fut_ty
                            if c2.startswith("crate::subscriptions::futures::MessagesAvailable") or c2.startswith("tokio::sync::futures::Notified") \
                                    or c2.startswith("tokio_stream::") or c2.startswith("reqwest::"):
                                bad.append((bid, a, c2))
                    continue
                if cls in ALLOWED_IN_ACTOR:
                    continue
                if cls in UNBOUNDED or cls in ("http", "stream_yield"):
                    bad.append((bid, a, cls))
        key = "actor:%s" % short_ty(actor.ty)
        if bad:
            bid, a, cls = bad[0]
            bi = prog.info(bid)
            out.violation(key + ":" + str(cls), bi.loc(a.poll_bb), "a handler of %s waits on %s inside the actor's message loop; "
                          "while it waits the mailbox is not served" % (short_ty(actor.ty), cls))
        else:
            out.holds(key, prog.loc(actor.dispatch), "handlers of %s await only local coroutines, mailbox sends and their replies" % short_ty(actor.ty))
