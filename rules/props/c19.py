"""C19 — flow-control waiters never miss free capacity."""
from engine import rule, CheckBroken
from actorlib import roles
from common import await_class, short_ty
import libmodel as L


def fc(prog):
    """the flow-control type and its cells.  The two counters are its AtomicU64 fields, the two limits its plain u64 fields --
    directly, or grouped in a struct-typed field (`limits: Limits { bytes, messages }`); `bytes` / `messages` in the name pairs
    a counter with its limit."""
    A = prog.anchors
    ty = A.ty("FlowControl")
    adt = prog.facts.adt(ty)
    cells = {}

    def scan(owner, adt2, depth):
        for f in adt2["variants"][0]["fields"]:
            fty, name = f["ty"], f["name"]
            kind = "bytes" if "byte" in name else ("messages" if "message" in name else None)
            if ("AtomicU64" in fty or "atomic::Atomic<u64>" in fty) and kind and owner == ty:
                cells.setdefault("outstanding_" + kind, (owner, name))
            elif fty == "u64" and kind:
                cells.setdefault("max_outstanding_" + kind, (owner, name))
            elif "Notify" in fty and owner == ty:
                cells.setdefault("notifier", (owner, name))
            elif fty.startswith("crate::") and depth < 2:
                sub = prog.facts.adt(fty)
                if sub is not None and len(sub["variants"]) == 1:
                    scan(fty, sub, depth + 1)

    if adt is not None and len(adt["variants"]) == 1:
        scan(ty, adt, 0)
    missing = [k for k in ("max_outstanding_bytes", "max_outstanding_messages", "outstanding_bytes", "outstanding_messages", "notifier") if k not in cells]
    if missing:
        raise CheckBroken("flow-control cells not found: %s" % missing)
    return ty, cells


def availability_checks(prog, ty):
    """fn(&FlowControl) -> bool that loads a counter"""
    out = []
    for b in prog.facts.lib_bodies():
        if b.impl_self == ty and b.kind == "AssocFn" and not b.coroutine and b.local_ty(0) == "bool" and b.arg_count == 1:
            if any(e.kind == "atomic_load" for e in prog.effects(b.id)):
                out.append(b.id)
    return out


def waiters(prog, ty, notifier):
    out = []
    for b in prog.facts.lib_bodies():
        if not b.coroutine:
            continue
        rb = prog.facts.body(b.root) if b.root else None
        if rb is None or rb.impl_self != ty:
            continue
        bi = prog.info(b.id)
        ws = []
        for a in bi.awaits:
            if await_class(prog, bi, a) == "notified" and a.origin is not None and a.origin.kind == "call":
                o = prog.receiver_origin(bi, bi.call_at(a.origin.data).args[0])
                if notifier in o.cells():
                    ws.append(a)
        if ws:
            out.append((b.id, ws))
    return out


def counter_comparisons(prog, bi, cells, pairs, out=None, cid=None):
    """{comparison local: (counter, relations (counter ? limit) that make the comparison true, block, wrong_limit)} for every
    `counter <op> limit` comparison of a flow-control counter with a limit in this body"""
    ALL = frozenset({"<", "=", ">"})
    b = bi.body
    cmps = {}        # comparison local -> (counter, relations (counter ? limit) when the comparison is true, block)
    for blk in b.blocks:
        if blk.cleanup:
            continue
        for i, s in enumerate(blk.stmts):
            if s.k != "assign" or s.rv.k != "bin" or s.rv.j["op"] not in REL or not s.lhs.is_local():
                continue
            sides = []
            for op in s.rv.ops:
                o = prog.receiver_origin(bi, op)
                role = None
                cs = set(o.cells())
                if o.kind == "call":
                    t = bi.call_at(o.data)
                    if t.callee.path.endswith("::load"):
                        cs |= set(prog.receiver_origin(bi, t.args[0]).cells())
                        oo = bi.trace(t.args[1]) if len(t.args) > 1 else None
                        if oo is not None and oo.kind == "agg" and bi.agg_at(oo.data).j.get("variant") == "Relaxed":
                            out is not None and out.undecided("%s:ordering" % prog.short(cid), bi.loc(o.data), "Relaxed load of a counter (visibility relies on Notify's own synchronisation)")
                if o.kind == "local":
                    for (db, di) in bi.defs.get(o.data, []):
                        if di >= 0:
                            for op2 in bi.stmt(db, di).rv.ops:
                                if op2.place is not None:
                                    cs |= set(prog.receiver_origin(bi, op2.place).cells())
                for name, cell in cells.items():
                    if cell in cs:
                        role = name
                sides.append(role)
            if None in sides or len(sides) != 2:
                continue
            counter = [x for x in sides if x in pairs]
            limit = [x for x in sides if x in pairs.values()]
            if len(counter) != 1 or len(limit) != 1:
                continue
            if pairs[counter[0]] != limit[0]:
                out is not None and out.violation("%s:%s" % (prog.short(cid), counter[0]), bi.loc(blk.idx), "%s is compared with %s: each counter must be checked against its own limit" % (counter[0], limit[0]))
                cmps[s.lhs.local] = (counter[0], ALL, blk.idx, True)
                continue
            rel_true = REL[s.rv.j["op"]] if sides[0] == counter[0] else {FLIP[r] for r in REL[s.rv.j["op"]]}
            cmps[s.lhs.local] = (counter[0], frozenset(rel_true), blk.idx, False)
    return cmps


def positive_regions(prog, bi, cells, pairs):
    """blocks only reachable after BOTH counters were found below their limits by comparisons written in this body (an
    availability check that was spliced in, or is spelled out)"""
    from mapstate import _bool_switches
    cmps = counter_comparisons(prog, bi, cells, pairs)
    ALL = {"<", "=", ">"}
    per_counter = {c: [] for c in pairs}
    for cl, (counter, rt, cbb, wrong) in cmps.items():
        if wrong:
            continue
        for sw, tr, fa in _bool_switches(bi, cl):
            if set(rt) == {"<"} and tr is not None:
                per_counter[counter].append(bi.cfg.edge_dominated(sw, tr))
            elif (ALL - set(rt)) == {"<"} and fa is not None:
                per_counter[counter].append(bi.cfg.edge_dominated(sw, fa))
    out = set()
    cs = list(pairs)
    for ra in per_counter[cs[0]]:
        for rb in per_counter[cs[1]]:
            out |= (ra & rb)
    sites = sorted({cbb for (counter, rt, cbb, wrong) in cmps.values()})
    return out, sites


PAIRS = {"outstanding_messages": "max_outstanding_messages", "outstanding_bytes": "max_outstanding_bytes"}


@rule("C19", "R19.1", "each wait iteration registers for notification, then checks, then awaits", floor=1)
def r19_1(prog, out):
    ty, cells = fc(prog)
    checks = set(availability_checks(prog, ty))
    ws = waiters(prog, ty, cells["notifier"])
    if not ws:
        raise CheckBroken("flow-control waiter not found")
    for bid, awaits in ws:
        bi = prog.info(bid)
        check_calls = [bb for bb, t in bi.calls(lambda c: prog.qual(bi.body, c.target) in checks)]
        # .. or the comparisons of the counters with their limits written (spliced) into the waiter itself
        _pos, inline_sites = positive_regions(prog, bi, cells, PAIRS)
        check_calls = check_calls + inline_sites
        for n, a in enumerate(awaits):
            key = "%s:wait#%d" % (prog.short(bid), n)
            reg = a.origin.data
            between = [c for c in check_calls if bi.cfg.dominates(reg, c) and bi.cfg.dominates(c, a.poll_bb)]
            loops = [h for h, blocks in bi.cfg.loops().items() if a.poll_bb in blocks and reg in blocks and h != a.entry_bb]
            if not between:
                before = [c for c in check_calls if bi.cfg.dominates(c, a.poll_bb)]
                out.violation(key, bi.loc(a.poll_bb), "the waiter %s: a release between the check and the registration is lost and the waiter parks although capacity is free"
                              % ("checks for space before it registers for the notification" if before else "awaits the notification without checking for space after registering"))
            elif not loops:
                out.violation(key, bi.loc(a.poll_bb), "register/check/await is not repeated in a loop: after a wake-up the limits are not re-checked with a fresh registration")
            else:
                out.holds(key, bi.loc(a.poll_bb), "notified() is created, then space is checked, then the notification is awaited, in every iteration")


@rule("C19", "R19.2", "the waiter returns only after a positive availability check", floor=1)
def r19_2(prog, out):
    ty, cells = fc(prog)
    checks = set(availability_checks(prog, ty))
    R = roles(prog)
    for bid, awaits in waiters(prog, ty, cells["notifier"]):
        bi = prog.info(bid)
        pos = R.call_result_arm_blocks(bi, lambda bb, t: prog.qual(bi.body, t.callee.target) in checks, True)
        pos = set(pos) | positive_regions(prog, bi, cells, PAIRS)[0]
        key = "%s:return-after-check" % prog.short(bid)
        esc = bi.cfg.escapes(0, pos, after=False)
        if esc is not None:
            # the outcome of the check may be carried in a value (an enum `Admitted | Full`, a bool) and branched on later
            from consumers import const_walk
            labels = const_walk(bi, 0, lambda x: "checked" if x in pos else None, max_steps=40000)
            if "return" not in labels and "unknown" not in labels and "checked" in labels:
                esc = None
        if esc is None:
            out.holds(key, prog.loc(bid), "every return lies under the `space available` arm of a check")
        else:
            out.violation(key, bi.loc(esc[-1]), "the waiter can resume without having observed both counters below their limits",
                          ["bb%d (%s)" % (x, bi.loc(x)) for x in esc][:10])


def fresh_check_guard(prog, bi, bid, esc, ups, nots, counters):
    """the way round the notify is decided by a reading of *both* counters taken after the last update (the waiters' own
    availability test), not by the values the updates returned"""
    from slicing import Slicer
    sl = Slicer(prog)
    nb = {e.bb for e in nots}
    up_bbs = {u.bb for u in ups}
    for x in esc:
        t = bi.body.blocks[x].term
        if t.k != "switch" or t.discr is None or t.discr.place is None:
            continue
        if not any(bi.cfg.can_reach(s2, n) for s2 in bi.cfg.succ[x] for n in nb):
            continue
        sd = sl.of(bid, t.discr)
        if any((bid, u) in sd.sites for u in up_bbs):
            return False            # decided from what fetch_add / fetch_sub returned: each caller sees its own half
        loads = [(sb, sbb) for (sb, sbb) in sd.sites if prog.info(sb) is not None and prog.info(sb).call_at(sbb) is not None
                 and prog.info(sb).call_at(sbb).callee is not None and prog.info(sb).call_at(sbb).callee.path.endswith("::load")]
        read = set()
        for c in counters:
            if c in sd.fields:
                read.add(c)
        # the reading may be taken by a predicate of the type (`self.has_available_space()`): its loads are effects of that call
        o = bi.trace(t.discr)
        call_bbs = {sbb for (sb, sbb) in sd.sites if sb == bid} | ({o.data} if o.kind == "call" else set())
        for e in prog.effects(bid):
            if e.kind == "atomic_load" and e.bb in call_bbs:
                for c in counters:
                    if e.touches(c):
                        read.add(c)
                        loads.append((bid, e.bb))
        if len(read) == len(counters) and loads and all(bi.cfg.dominates(u, x) for u in up_bbs):
            return True
    return False


@rule("C19", "R19.3", "every change of the counters notifies all waiters", floor=2)
def r19_3(prog, out):
    ty, cells = fc(prog)
    counters = (cells["outstanding_bytes"], cells["outstanding_messages"])
    n = 0
    for b in prog.facts.lib_bodies():
        if b.impl_self != ty or b.kind != "AssocFn":
            continue
        effs = prog.effects(b.id)
        ups = [e for e in effs if e.kind in ("atomic_rmw", "atomic_store") and any(e.touches(c) for c in counters) and not e.chain]
        if not ups:
            # a release written as `self.inc(bytes.wrapping_neg(), messages.wrapping_neg())`: the update and the notify are the callee's
            via = [e for e in effs if e.kind in ("atomic_rmw", "atomic_store") and any(e.touches(c) for c in counters) and e.chain]
            bi = prog.info(b.id)
            neg = [bb for bb, t in bi.calls(lambda c: c.path.split("::")[-1] in ("wrapping_neg", "neg", "wrapping_sub", "checked_neg"))]
            if via and neg:
                n += 1
                key = "updater:%s" % prog.short(b.id)
                callee = via[0].chain[-1][0]
                ci = prog.info(callee)
                cn = {e.bb for e in prog.own_effects(callee) if e.touches(cells["notifier"]) and e.kind == "notify_waiters"}
                if cn and ci.cfg.escapes(0, cn, after=False) is None and bi.cfg.escapes(0, {via[0].bb}, after=False) is None:
                    out.holds(key, prog.loc(b.id), "releases by adding the negated amounts through %s, which notifies all waiters on every path" % prog.short(callee))
                else:
                    out.violation(key, prog.loc(callee), "%s releases capacity through %s, which does not notify on every path: a release that %s judges by its own "
                                  "(possibly half-updated) view of the two counters wakes nobody, and a parked waiter stays parked although both counts are below "
                                  "their limits" % (prog.short(b.id), prog.short(callee), prog.short(callee)))
            continue
        n += 1
        bi = prog.info(b.id)
        nots = [e for e in effs if e.touches(cells["notifier"]) and e.kind in ("notify_one", "notify_waiters") and not e.chain]
        key = "updater:%s" % prog.short(b.id)
        if all(e.lib.split("::")[-1] in ("fetch_add", "fetch_max") for e in ups) and not any(e.kind == "notify_one" for e in nots):
            out.holds(key, prog.loc(b.id), "only takes up space (fetch_add): no waiter can become runnable through it" + ("; notifies anyway" if nots else ""))
            continue
        if not nots:
            out.violation(key, prog.loc(b.id), "%s changes the outstanding counters without notifying: waiters are never released" % prog.short(b.id))
            continue
        if any(e.kind == "notify_one" for e in nots):
            out.violation(key, bi.loc(nots[0].bb), "notify_one wakes a single waiter: other waiters stay parked although capacity is free for all of them")
            continue
        last_up = ups[-1].bb
        bad = None
        for u in ups:
            esc = bi.cfg.escapes(u.bb, {e.bb for e in nots})
            if esc is not None:
                bad = esc
        if bad and fresh_check_guard(prog, bi, b.id, bad, ups, nots, counters):
            out.undecided(key, bi.loc(bad[-1]), "after both updates the counters are read again and notify_waiters is skipped when that fresh reading shows no room: "
                          "whether some release always sees the room it made (so that no waiter stays parked) is a memory-ordering argument over interleaved "
                          "updates, not decided here")
        elif bad:
            out.violation(key, bi.loc(bad[-1]), "a path updates the counters and returns without notify_waiters")
        elif any(bi.cfg.can_reach(nn.bb, u.bb) and not bi.cfg.can_reach(u.bb, nn.bb) for nn in nots for u in ups):
            out.violation(key, bi.loc(nots[0].bb), "waiters are notified before the counters are updated")
        else:
            out.holds(key, prog.loc(b.id), "both counters updated, then notify_waiters, on every path")
    if n < 2:
        raise CheckBroken("expected inc and dec, found %d updater(s)" % n)


REL = {"Ge": {"=", ">"}, "Gt": {">"}, "Lt": {"<"}, "Le": {"<", "="}, "Eq": {"="}, "Ne": {"<", ">"}}
FLIP = {"<": ">", ">": "<", "=": "="}


@rule("C19", "R19.4", "`available` requires messages < max_messages and bytes < max_bytes, each counter against its own limit", floor=2)
def r19_4(prog, out):
    """Evaluates the availability check as a boolean function: every path on which it can answer `true` must have
    established counter < limit for both counters -- whatever mix of early returns, `&&` / `||` and returned comparisons
    the function is written with."""
    from mapstate import _bool_switches
    ty, cells = fc(prog)
    pairs = {"outstanding_messages": "max_outstanding_messages", "outstanding_bytes": "max_outstanding_bytes"}
    ALL = frozenset({"<", "=", ">"})
    for cid in availability_checks(prog, ty):
        bi = prog.info(cid)
        b = bi.body
        cmps = counter_comparisons(prog, bi, cells, pairs, out, cid)
        # switches deciding on a comparison, and bool locals that are (negated) copies of one
        decide = {}
        alias = {}       # local -> (comparison local, negated)
        for cl in cmps:
            alias[cl] = (cl, False)
            for sw, tr, fa in _bool_switches(bi, cl):
                decide[sw] = (cl, tr, fa)
        changed = True
        while changed:
            changed = False
            for blk in b.blocks:
                if blk.cleanup:
                    continue
                for s in blk.stmts:
                    if s.k == "assign" and s.lhs.is_local() and s.lhs.local not in alias and s.lhs.local != 0:
                        if s.rv.k == "use" and s.rv.ops[0].place is not None and s.rv.ops[0].place.is_local() and s.rv.ops[0].place.local in alias \
                                and len(bi.defs.get(s.lhs.local, [])) == 1:
                            alias[s.lhs.local] = alias[s.rv.ops[0].place.local]
                            changed = True
                        elif s.rv.k == "un" and s.rv.j.get("op") == "Not" and s.rv.ops[0].place is not None and s.rv.ops[0].place.local in alias \
                                and len(bi.defs.get(s.lhs.local, [])) == 1:
                            c0, ng = alias[s.rv.ops[0].place.local]
                            alias[s.lhs.local] = (c0, not ng)
                            changed = True
        # path enumeration
        bad = {}
        answered_true = 0
        # state: block, relations per counter, value of the return place, values of bool locals assigned on the path
        #   a value is ("const", bool) | ("cmp", comparison local, negated) | ("unknown",)
        stack = [(0, (("outstanding_messages", ALL), ("outstanding_bytes", ALL)), None, (0,), ())]
        steps = 0
        while stack and steps < 5000:
            steps += 1
            bb, rels, ret, trail, envt = stack.pop()
            rel = dict(rels)
            env = dict(envt)
            blk = b.blocks[bb]

            def value_of(op):
                if op.const_bool() is not None:
                    return ("const", op.const_bool())
                if op.place is not None and op.place.is_local():
                    l = op.place.local
                    if l in env:
                        return env[l]
                    if l in alias:
                        return ("cmp",) + alias[l]
                    if l in cmps:
                        return ("cmp", l, False)
                return ("unknown",)

            def negate(v):
                if v[0] == "const":
                    return ("const", not v[1])
                if v[0] == "cmp":
                    return ("cmp", v[1], not v[2])
                return v

            for s in blk.stmts:
                if s.k != "assign" or not s.lhs.is_local():
                    continue
                v = None
                if s.rv.k == "use":
                    v = value_of(s.rv.ops[0])
                elif s.rv.k == "un" and s.rv.j.get("op") == "Not":
                    v = negate(value_of(s.rv.ops[0]))
                elif s.rv.k == "bin" and s.lhs.local in cmps:
                    v = ("cmp", s.lhs.local, False)
                if s.lhs.local == 0:
                    ret = v if v is not None else ("unknown",)
                elif v is not None and b.local_ty(s.lhs.local) == "bool":
                    env[s.lhs.local] = v
            t = blk.term
            if t.k == "return":
                finals = []
                if ret is None or ret == ("unknown",):
                    finals.append(rel)
                elif ret[0] == "const":
                    if ret[1]:
                        finals.append(rel)
                else:
                    cl, ng = ret[1], ret[2]
                    counter, rt, cbb, _ = cmps[cl]
                    r2 = dict(rel)
                    r2[counter] = r2[counter] & (frozenset(ALL - rt) if ng else rt)
                    if r2[counter]:
                        finals.append(r2)
                for fr in finals:
                    answered_true += 1
                    for c in pairs:
                        if fr[c] - {"<"}:
                            bad.setdefault(c, (trail, fr[c]))
                continue
            succs = bi.cfg.succ[bb]
            envt2 = tuple(sorted(env.items()))
            if bb in decide:
                cl, tr, fa = decide[bb]
                counter, rt, cbb, _ = cmps[cl]
                for tgt, rr in ((tr, rt), (fa, frozenset(ALL - rt))):
                    if tgt is None or tgt in trail:
                        continue
                    r2 = dict(rel)
                    r2[counter] = r2[counter] & rr
                    if r2[counter]:
                        stack.append((tgt, tuple(sorted(r2.items())), ret, trail + (tgt,), envt2))
                continue
            if t.k == "switch" and t.discr is not None and t.discr.place is not None and t.discr.place.is_local() and t.discr.place.local in env:
                # a bool assigned on this path (the value of `a || b`)
                v = env[t.discr.place.local]
                arms = dict(t.arms)
                fa_t, tr_t = arms.get(0), t.otherwise
                for tgt, truth in ((tr_t, True), (fa_t, False)):
                    if tgt is None or tgt in trail:
                        continue
                    r2 = dict(rel)
                    if v[0] == "const":
                        if v[1] != truth:
                            continue
                    elif v[0] == "cmp":
                        counter, rt, cbb, _ = cmps[v[1]]
                        want_true = truth != v[2]
                        r2[counter] = r2[counter] & (rt if want_true else frozenset(ALL - rt))
                        if not r2[counter]:
                            continue
                    stack.append((tgt, tuple(sorted(r2.items())), ret, trail + (tgt,), envt2))
                continue
            for s2 in succs:
                if s2 in trail:
                    continue
                stack.append((s2, tuple(sorted(rel.items())), ret, trail + (s2,), envt2))
        for c in pairs:
            key = "%s:%s" % (prog.short(cid), c)
            mine = [v for v in cmps.values() if v[0] == c]
            if not mine:
                out.violation(key, prog.loc(cid), "the availability check never compares %s with its limit" % c)
            elif any(v[3] for v in mine):
                continue      # reported above (wrong limit)
            elif c in bad:
                trail, rr = bad[c]
                out.violation(key, bi.loc(mine[0][2]), "`available` can be answered although %s %s %s is possible (not below the limit)" % (c, "/".join(sorted(rr - {"<"})), pairs[c]),
                              ["bb%d (%s)" % (x, bi.loc(x)) for x in trail][:10])
            elif not answered_true:
                out.undecided(key, prog.loc(cid), "no path of the check answers `true`")
            else:
                out.holds(key, bi.loc(mine[0][2]), "true is only answered on paths that established %s < %s" % (c, pairs[c]))
    # update orderings
    for b in prog.facts.lib_bodies():
        if b.impl_self != ty:
            continue
        bi = prog.info(b.id)
        for bb, t in bi.calls(lambda c: c.path.startswith("std::sync::atomic::Atomic::<u64>::fetch_")):
            oo = bi.trace(t.args[2]) if len(t.args) > 2 else None
            if oo is not None and oo.kind == "agg" and bi.agg_at(oo.data).j.get("variant") == "Relaxed":
                out.undecided("%s:ordering" % prog.short(b.id), bi.loc(bb), "Relaxed update of a counter")
