"""C13 — listing and pagination enumerate exactly the project's resources."""
from engine import rule, CheckBroken
from intervals import IntervalWalker, merge_partition, compare_partitions, INT_RANGES
from slicing import Slicer
from common import short_ty
from props.c05 import diff_partition
import libmodel as L

USIZE_MAX = INT_RANGES["usize"][1]


def assigned_label(bi, path, local, is_input):
    """what the multiply-assigned `local` holds at the end of the path"""
    label = "?"
    for bb in path.blocks:
        for s in bi.body.blocks[bb].stmts:
            if s.k == "assign" and s.lhs.is_local() and s.lhs.local == local and s.rv.k == "use":
                op = s.rv.ops[0]
                if op.const_int() is not None:
                    label = "const %d" % op.const_int()
                elif op.place is not None and is_input(bi.trace(op)):
                    label = "input"
                else:
                    label = "?"
    return label


def _last_def(bi, blocks, pos, local):
    """the last definition of `local` on the path `blocks[:pos+1]` (statements of blocks[pos] included, its terminator
    not): ("stmt", i, stmt) | ("call", i, term) | None"""
    for i in range(pos, -1, -1):
        blk = bi.body.blocks[blocks[i]]
        if i < pos:
            t = blk.term
            if t.k == "call" and t.dest is not None and t.dest.is_local() and t.dest.local == local:
                return ("call", i, t)
        for s in reversed(blk.stmts):
            if s.k == "assign" and s.lhs.is_local() and s.lhs.local == local:
                return ("stmt", i, s)
    return None


def value_items(bi, path, local, is_input, pos=None, depth=0):
    """what `local` holds at the end of the path, as [(lo, hi, label)] over the path's interval: follows copies through
    intermediate locals and `Ord::min(value, const)` (which splits the interval at the constant)."""
    blocks = list(path.blocks)
    pos = len(blocks) - 1 if pos is None else pos
    unknown = [(path.lo, path.hi, "?")]
    if depth > 12:
        return unknown
    d = _last_def(bi, blocks, pos, local)
    if d is None:
        if is_input(bi.trace(local)) and not bi.defs.get(local):
            return [(path.lo, path.hi, "input")]
        return unknown

    def of_operand(op, at):
        if op.const_int() is not None:
            return [(path.lo, path.hi, "const %d" % op.const_int())]
        if op.place is None or not op.place.is_local():
            return unknown
        if not bi.defs.get(op.place.local) and is_input(bi.trace(op)):
            return [(path.lo, path.hi, "input")]
        return value_items(bi, path, op.place.local, is_input, at, depth + 1)

    kind, i, x = d
    if kind == "stmt":
        if x.rv.k != "use":
            return unknown
        return of_operand(x.rv.ops[0], i)
    name = x.callee.path.split("::")[-1] if x.callee is not None else ""
    if name == "min" and x.callee.path in ("std::cmp::Ord::min", "core::cmp::Ord::min", "std::cmp::min", "core::cmp::min") and len(x.args) == 2:
        a, b = x.args
        if a.const_int() is not None:
            a, b = b, a
        c = b.const_int()
        if c is None:
            return unknown
        out = []
        for lo, hi, lab in of_operand(a, i):
            if lab == "input":
                if hi <= c:
                    out.append((lo, hi, "input"))
                elif lo > c:
                    out.append((lo, hi, "const %d" % c))
                else:
                    out += [(lo, c, "input"), (c + 1, hi, "const %d" % c)]
            elif lab.startswith("const "):
                out.append((lo, hi, "const %d" % min(int(lab[6:]), c)))
            else:
                out.append((lo, hi, "?"))
        return out
    return unknown


STAGE_CALLS = ("std::iter::Iterator::skip", "std::iter::Iterator::take", "std::iter::Iterator::filter")


def _has_stage(prog, bid, memo={}):
    """does the synchronous cone of bid cut, filter or sort a sequence?"""
    key = (id(prog), bid)
    if key in memo:
        return memo[key]
    memo[key] = False
    res = False
    for cid in prog.cone(bid, follow=("call", "closure")):
        ci = prog.info(cid)
        if ci is None or (ci.body.coroutine and cid != bid):
            continue
        for bb, t in ci.calls():
            n = t.callee.path.split("::")[-1]
            if t.callee.path in STAGE_CALLS or (n.startswith("sort") and "slice" in t.callee.path):
                res = True
    memo[key] = res
    return res


def listing_bodies(prog):
    """bodies that paginate: they ask Paging for the next page of what they return (or use skip + take).  A stage of the
    pipeline may live in a helper (Paging::paginate(sorted), State::topics_in_project(..)): helpers that filter / sort / cut
    are spliced into the listing body first, so the pipeline is judged as a whole wherever its pieces are written."""
    out = []
    paging = prog.anchors.ty("Paging")

    def complete(fid, memo={}):
        """fid is a listing pipeline of its own: it cuts a page (skip and take, or asks Paging for the next page)"""
        k = (id(prog), fid)
        if k not in memo:
            memo[k] = False
            names, nextp = set(), False
            for cid in prog.cone(fid, follow=("call", "closure")):
                ci = prog.info(cid)
                if ci is None or (ci.body.coroutine and cid != fid):
                    continue
                for bb, t in ci.calls():
                    names.add(t.callee.path)
                    if (t.callee.local or t.callee.res_local) and t.callee.target.startswith(paging + "::next_page"):
                        nextp = True
            cuts = ("std::iter::Iterator::skip" in names and "std::iter::Iterator::take" in names) or \
                   (any(n.startswith(paging + "::") and n.split("::")[-1] in ("size",) for n in names) and
                    any(n.startswith(paging + "::") and n.split("::")[-1] in ("to_skip", "offset") for n in names))
            memo[k] = cuts and nextp
        return memo[k]

    def want(ti, bb, t):
        fid = prog.qual(ti.body, t.callee.target)
        fb = prog.facts.body(fid)
        # a stage of the pipeline lives in the callee -- but a callee that is a whole listing of its own (the topic actor's
        # list handler called from its dispatcher) stays a unit
        return _has_stage(prog, fid) and not (fb is not None and fb.impl_self != paging and complete(fid))

    for b in prog.facts.lib_bodies():
        if b.impl_self == paging or b.kind == "Closure" and not b.coroutine:
            continue
        bi0 = prog.info(b.id)
        if not any((t.callee.local or t.callee.res_local) and (t.callee.impl_self == paging or t.callee.target.startswith(paging + "::")
                                                              or want(bi0, bb, t))
                   for bb, t in bi0.calls()) and not any(t.callee.path in STAGE_CALLS for bb, t in bi0.calls()):
            continue
        vid = prog.inlined_variant(b.id, want)
        bi = prog.info(vid)
        names = {t.callee.path for bb, t in bi.calls()}
        nextp = any((t.callee.local or t.callee.res_local) and t.callee.target.startswith(paging + "::next_page") for bb, t in bi.calls())
        if nextp or ("std::iter::Iterator::skip" in names and "std::iter::Iterator::take" in names):
            out.append(vid)
    # a helper that was spliced into every listing body is not a listing of its own
    return out


@rule("C13", "R13.1", "page size: 0 -> 20, 1..1000 kept, > 1000 -> 1000; negative sizes and bad tokens rejected", floor=4)
def r13_1(prog, out):
    A = prog.anchors
    paging = A.ty("Paging")
    ctor = None
    for b in prog.facts.lib_bodies():
        if b.impl_self == paging and b.kind == "AssocFn" and b.arg_count == 2 and b.local_ty(1) == "usize" and b.local_ty(0) == paging:
            ctor = b.id
    if ctor is None:
        raise CheckBroken("Paging constructor fn(usize, Option<usize>) not found")
    bi = prog.info(ctor)
    is_input = lambda o: o.kind == "param" and o.data == 1 and not o.path
    w = IntervalWalker(prog, ctor, is_input, "usize")
    paths = w.paths()
    key = "size-partition:%s" % prog.short(ctor)
    # the local feeding Paging.size
    size_local = None
    for blk in bi.body.blocks:
        for s in blk.stmts:
            if s.k == "assign" and s.rv.k == "agg" and s.rv.j.get("adt") == paging:
                op = s.rv.ops[s.rv.j["fields"].index("size")]
                size_local = op.place.local if op.place is not None else None
                if op.place is None:
                    size_local = ("const", op.const_int())
    if paths is None or size_local is None:
        out.undecided(key, prog.loc(ctor), "size normalisation has no transfer function (%s)" % w.undecided_reason)
    else:
        items = []
        for p in paths:
            if isinstance(size_local, tuple):
                lab = "const %s" % size_local[1]
            elif is_input(bi.trace(size_local)) and not bi.defs.get(size_local):
                lab = "input"
            else:
                lab = assigned_label(bi, p, size_local, is_input)
                if lab == "?" and len(bi.defs.get(size_local, [])) == 1 and is_input(bi.trace(size_local)):
                    lab = "input"
                if lab == "?":
                    # the size passes through intermediate locals / `min(value, const)` (a normalising helper spliced in)
                    items += value_items(bi, p, size_local, is_input)
                    continue
            items.append((p.lo, p.hi, lab))
        got = merge_partition(items)
        expected = [(0, 0, "const 20"), (1, 1000, "input"), (1001, USIZE_MAX, "const 1000")]
        diffs = compare_partitions(got, expected, lambda a, b, v: (a if a != "input" else "const %d" % v) == (b if b != "input" else "const %d" % v))
        if not diffs:
            out.holds(key, prog.loc(ctor), "partition of the requested size is %s" % got)
        elif any(g[2] == "?" for g in got):
            out.undecided(key, prog.loc(ctor), "a path stores a size the analysis cannot classify: %s" % got)
        else:
            out.violation(key, prog.loc(ctor), "effective page size differs from the specification on %s" % "; ".join(diffs),
                          ["got      %s" % got, "expected %s" % expected])
    # the accessor's own cap must not bind (>= 1000)
    for b in prog.facts.lib_bodies():
        if b.impl_self == paging and b.kind == "AssocFn" and b.arg_count == 1 and b.local_ty(0) == "usize":
            ai = prog.info(b.id)
            reads_size = any(e.kind == "read" and e.touches(A.cell("Paging", "size")) for e in prog.effects(b.id))
            if not reads_size:
                continue
            key = "accessor-cap:%s" % prog.short(b.id)
            caps = [(bb, t) for bb, t in ai.calls(lambda c: c.path.split("::")[-1] in ("min", "clamp"))]
            other = [(bb, t) for bb, t in ai.calls(lambda c: c.path.split("::")[-1] in ("max", "saturating_add", "saturating_sub", "wrapping_add"))]
            arith = [s for blk in b.blocks for s in blk.stmts if s.k == "assign" and s.rv.k == "bin" and s.rv.j["op"] in ("Add", "AddWithOverflow", "Sub", "SubWithOverflow", "Mul", "MulWithOverflow", "Div")]
            if other or arith:
                out.violation(key, prog.loc(b.id), "the page-size accessor changes the stored size (%s)" % (other[0][1].callee.path.split("::")[-1] if other else arith[0].rv.j["op"]))
            elif caps:
                c = caps[0][1].args[-1].const_int()
                if c is not None and c >= 1000:
                    out.holds(key, ai.loc(caps[0][0]), "extra cap %d >= 1000 never binds" % c)
                else:
                    out.violation(key, ai.loc(caps[0][0]), "the accessor caps the page size at %s, below the documented maximum of 1000: pages are shorter than requested" % c)
            else:
                out.holds(key, prog.loc(b.id), "accessor returns the stored size")
    # request parsing: negative sizes / undecodable tokens
    # the paging parser: whoever builds a Paging from the request's page_size (a function of its own, or the list handlers)
    pp = sorted({b.id for b in prog.facts.lib_bodies() if b.impl_self != paging and not b.file.startswith("/") and b.id != ctor
                 and any(prog.qual(b, t.callee.target) == ctor for bb, t in prog.info(b.id).calls())
                 and any("i32" == (b.local_ty(i) or "") or "pubsub_proto" in (b.local_ty(i) or "") for i in range(len(b.locals)))})
    if not pp:
        raise CheckBroken("no body builds a Paging from a request")
    for pid in pp:
        pi = prog.info(pid)
        conv = [(bb, t) for bb, t in pi.calls(lambda c: c.path == "std::convert::TryInto::try_into" or c.path == "std::convert::TryFrom::try_from")]
        key = "negative-size:%s" % prog.short(pid)
        casts = [s for blk in pi.body.blocks for s in blk.stmts if s.k == "assign" and s.rv.k == "cast" and s.rv.j["ck"] == "IntToInt" and pi.body.ty(s.rv.j["from"]) == "i32"]
        ok_conv = [c for c in conv if c[1].callee.args and c[1].callee.args[0] == "i32" and "usize" in c[1].callee.args[1:2]]
        has_inv = any(True for bid in prog.cone(pid, follow=("call", "closure")) for bb, t in prog.info(bid).calls(lambda c: c.path == "tonic::Status::invalid_argument"))
        if casts:
            out.violation(key, pi.loc(0), "page_size is converted with `as`: a negative size wraps to a huge page size instead of being rejected")
        elif ok_conv and has_inv:
            out.holds(key, pi.loc(ok_conv[0][0]), "i32 -> usize through TryFrom; the error becomes INVALID_ARGUMENT")
        else:
            out.undecided(key, prog.loc(pid), "size conversion not recognised")
    # the token parser: whoever turns the request's token string into a PageToken (a function of its own, or inside the
    # paging parser)
    ptok = A.ty("PageToken")
    decoders = {b.id for b in prog.facts.lib_bodies() if b.impl_self == ptok and b.kind == "AssocFn" and not b.impl_trait and b.arg_count == 1
                and (b.local_ty(1) or "").startswith("&") and "str" in (b.local_ty(1) or "") and ptok in (b.local_ty(0) or "")}
    tp = sorted({b.id for b in prog.facts.lib_bodies() if b.impl_self != ptok and any(prog.qual(b, t.callee.target) in decoders for bb, t in prog.info(b.id).calls())})
    for tid in tp:
        ti = prog.info(tid)
        key = "token:%s" % prog.short(tid)
        dec = [bb for bb, t in ti.calls(lambda c: c.target.startswith(A.ty("PageToken") + "::"))]
        inv = any(True for bid in prog.cone(tid, follow=("call", "closure")) for bb, t in prog.info(bid).calls(lambda c: c.path == "tonic::Status::invalid_argument"))
        emp = [bb for bb, t in ti.calls(lambda c: c.path.endswith("::is_empty"))]
        if dec and inv and emp:
            out.holds(key, prog.loc(tid), "empty token -> no offset; undecodable token -> INVALID_ARGUMENT")
        elif not inv:
            out.violation(key, prog.loc(tid), "an undecodable page token is not rejected with INVALID_ARGUMENT")
        else:
            out.undecided(key, prog.loc(tid), "token parser shape not recognised")


STAGES = ("filter", "sort", "skip", "take", "next_page")


def pipeline(prog, bid):
    """ordered stages of a listing body with the facts needed to compare siblings"""
    A = prog.anchors
    bi = prog.info(bid)
    sl = Slicer(prog)
    st = {}
    for bb, t in bi.calls():
        n = t.callee.path.split("::")[-1]
        if t.callee.path == "std::iter::Iterator::filter":
            st["filter"] = bb
        elif n.startswith("sort") and "slice" in t.callee.path:
            st["sort"] = (bb, n)
        elif t.callee.path == "std::iter::Iterator::skip":
            st["skip"] = bb
        elif t.callee.path == "std::iter::Iterator::take":
            st["take"] = bb
        elif t.callee.path.endswith("Iterator::rev") or n in ("reverse", "dedup", "step_by"):
            st["reorder"] = (bb, n)
        elif (t.callee.local or t.callee.res_local) and t.callee.target.startswith(A.ty("Paging") + "::next_page"):
            st["next_page"] = bb
    return bi, st, sl


def local_chain_to_offset(bi, operand):
    """names of the calls on the receiver chain from `operand` back to a read of `<page>.offset`, inside this body only"""
    names = set()
    seen = set()
    stack = [operand]
    while stack:
        op = stack.pop()
        if op is None or op.place is None:
            continue
        pl = op.place
        if any(isinstance(p, dict) and p.get("n") == "offset" and p.get("o", "").endswith("Page") for p in pl.proj):
            continue
        if pl.local in seen:
            continue
        seen.add(pl.local)
        for (db, di) in bi.defs.get(pl.local, []):
            if di >= 0:
                st = bi.stmt(db, di)
                for o in st.rv.ops:
                    stack.append(o)
                if st.rv.place is not None:
                    from mir import Operand
                    stack.append(Operand({"c": {"l": st.rv.place.local, "p": st.rv.place.proj}}))
            else:
                t = bi.body.blocks[db].term
                if t.k == "call" and t.callee is not None:
                    names.add(t.callee.path.split("::")[-1])
                    if t.args:
                        stack.append(t.args[0])
    return names


def token_alternatives(prog, bi, operand, depth=0, seen=None):
    """block of an assignment on the def chain of `operand` that does not depend on a page's `offset` (None if all do)"""
    from slicing import Slicer
    sl = Slicer(prog)
    seen = seen if seen is not None else set()
    if operand.place is None or depth > 6:
        return None
    l = operand.place.local
    if l in seen:
        return None
    seen.add(l)
    defs = bi.defs.get(l, [])
    if len(defs) >= 2:
        # blocks only reached when the page's offset is None (`match page.offset { None => String::new(), Some(o) => .. }`):
        # there the empty token is exactly "the page was empty"
        none_region = set()
        for blk in bi.body.blocks:
            t = blk.term
            if blk.cleanup or t.k != "switch" or blk.idx not in bi.cfg.reach:
                continue
            for st in blk.stmts:
                if st.k == "assign" and st.rv.k == "discr" and t.discr is not None and t.discr.place is not None and st.lhs.is_local() \
                        and st.lhs.local == t.discr.place.local and "Option<usize>" in (bi.body.place_ty(st.rv.place) or ""):
                    if any(f[1] == "offset" for f in sl.of(bi.body.id, st.rv.place).fields):
                        arms = dict(t.arms)
                        none_t = arms.get(0, t.otherwise if 1 in arms else None)
                        if none_t is not None:
                            none_region |= bi.cfg.edge_dominated(blk.idx, none_t)
        defs = [(db, di) for (db, di) in defs if db not in none_region]
        for (db, di) in defs:
            if di >= 0:
                st = bi.stmt(db, di)
                s = Slicer(prog)
                sub = None
                if st.rv.ops:
                    sub = sl.of(bi.body.id, st.rv.ops[0])
                elif st.rv.place is not None:
                    sub = sl.of(bi.body.id, st.rv.place)
                if sub is None or not any(f[1] == "offset" for f in sub.fields):
                    return db
            else:
                t = bi.body.blocks[db].term
                sub = Slicer(prog).of(bi.body.id, t.args[0]) if t.k == "call" and t.args else None
                if sub is None or not any(f[1] == "offset" for f in sub.fields):
                    return db
        return None
    for (db, di) in defs:
        if di >= 0:
            st = bi.stmt(db, di)
            for op in st.rv.ops:
                r = token_alternatives(prog, bi, op, depth + 1, seen)
                if r is not None:
                    return r
        else:
            t = bi.body.blocks[db].term
            if t.k == "call":
                for a in t.args[:1]:
                    r = token_alternatives(prog, bi, a, depth + 1, seen)
                    if r is not None:
                        return r
    return None


def _recv_key(bi, x):
    o = bi.trace(x, transparent=None)
    return (o.kind, o.data if not isinstance(o.data, list) else tuple(o.data), o.fields())


def sym(prog, bi, x, depth=0):
    """shape of a usize expression in a listing body, over the symbols off (the paging offset, 0 when absent), size (the
    effective page size) and len(v): ("off",) ("size",) ("len", v) ("min", {a, b}) ("sadd", {a, b}) ("sub", a, b) ("?", ..)"""
    if depth > 12:
        return ("?", "deep")
    paging = prog.anchors.ty("Paging")
    o = bi.trace(x)
    if o.kind == "call" and not o.path:
        t = bi.call_at(o.data)
        if t.callee is None:
            return ("?", "indirect")
        pth, n = t.callee.path, t.callee.path.split("::")[-1]
        tgt = t.callee.target or ""
        if tgt == paging + "::to_skip":
            return ("off",)
        if tgt == paging + "::size":
            return ("size",)
        if n == "min" and len(t.args) == 2 and ("Ord" in pth or pth.startswith("std::cmp::min")):
            return ("min", frozenset(sym(prog, bi, a, depth + 1) for a in t.args))
        if n == "saturating_add" and len(t.args) == 2:
            return ("sadd", frozenset(sym(prog, bi, a, depth + 1) for a in t.args))
        if n == "len" and (pth.startswith("std::vec::Vec") or pth.startswith("core::slice")):
            return ("len", _recv_key(bi, t.args[0]))
        if n == "len" and "ExactSizeIterator" in pth:
            r = bi.trace(t.args[0])
            if r.kind == "agg" and not r.path and (bi.agg_at(r.data).j.get("adt") or "").endswith("ops::Range"):
                rv = bi.agg_at(r.data)
                return ("sub", sym(prog, bi, rv.ops[1], depth + 1), sym(prog, bi, rv.ops[0], depth + 1))     # Range::len = end - start (0 when empty)
        return ("?", pth)
    return ("?", repr(o))


def window_cuts(prog, bi):
    """places where the listing is cut by an index window instead of skip/take:
         v[start..end]                                  (Index::index with a Range)
         v.drain(..start); v.truncate(end - start)
       with  start = min(off, len(v)),  end = min(start (+sat) size, len(v)).
    That window is in bounds for every off / size and selects exactly the elements skip(off).take(size) yields.
    Returns [(kind, site_bb, receiver operand, ok: bool, {blocks that are bounds-safe})]"""
    res = []

    def canon(v):
        start = ("min", frozenset({("off",), ("len", v)}))
        end = ("min", frozenset({("sadd", frozenset({start, ("size",)})), ("len", v)}))
        return start, end

    truncs = [(bb, t) for bb, t in bi.calls(lambda c: c.path == "std::vec::Vec::<T, A>::truncate")]
    for bb, t in bi.calls(lambda c: c.path in ("std::ops::Index::index", "std::vec::Vec::<T, A>::drain")):
        if bb not in bi.cfg.reach or bi.body.blocks[bb].cleanup or len(t.args) != 2:
            continue
        r = bi.trace(t.args[1])
        if r.kind != "agg" or r.path:
            continue
        rv = bi.agg_at(r.data)
        adt = rv.j.get("adt") or ""
        v = _recv_key(bi, t.args[0])
        start, end = canon(v)
        if t.callee.path.endswith("Index::index") and adt.endswith("ops::Range"):
            ok = sym(prog, bi, rv.ops[0]) == start and sym(prog, bi, rv.ops[1]) == end
            res.append(("index", bb, t.args[0], ok, {bb} if ok else set()))
        elif t.callee.path.endswith("::drain") and adt.endswith("ops::RangeTo"):
            if sym(prog, bi, rv.ops[0]) != start:
                res.append(("drain", bb, t.args[0], False, set()))
                continue
            # .. followed by truncate(end - start) on the same vector
            tr = [(tb, tt) for tb, tt in truncs if bi.cfg.dominates(bb, tb) and _recv_key(bi, tt.args[0]) == v]
            ok = len(tr) == 1 and sym(prog, bi, tr[0][1].args[1]) == ("sub", end, start)
            res.append(("drain", tr[0][0] if ok else bb, t.args[0], ok, {bb}))
    return res


def index_sites(bi):
    return [blk.idx for blk in bi.body.blocks if not blk.cleanup and blk.idx in bi.cfg.reach and (
        (blk.term.k == "assert" and blk.term.j.get("msg") == "BoundsCheck") or
        (blk.term.k == "call" and blk.term.callee is not None and blk.term.callee.path.startswith("std::ops::Index")))]


def index_guarded(bi, bb):
    """`&v[start..]` with start = min(x, v.len()): in bounds for every x"""
    t = bi.body.blocks[bb].term
    if t.k != "call" or len(t.args) != 2:
        return False
    o = bi.trace(t.args[1])
    if o.kind != "agg" or o.path:
        return False
    rv = bi.agg_at(o.data)
    if not (rv.j.get("adt") or "").endswith("RangeFrom") or not rv.ops:
        return False
    so = bi.trace(rv.ops[0])
    if so.kind != "call" or so.path:
        return False
    mt = bi.call_at(so.data)
    if mt.callee is None or mt.callee.path.split("::")[-1] != "min" or len(mt.args) != 2:
        return False
    recv = bi.trace(t.args[0], transparent=None)
    for a in mt.args:
        ao = bi.trace(a)
        if ao.kind == "call" and not ao.path and bi.call_at(ao.data).callee is not None and bi.call_at(ao.data).callee.path.endswith("::len"):
            lo = bi.trace(bi.call_at(ao.data).args[0])
            if lo.key() == recv.key() or (lo.kind == recv.kind and lo.data == recv.data):
                return True
    return False


def ordered_by_creation_id(prog, bid, sl):
    """every insert into a BTreeMap of the crate's state that holds resource handles uses the resource's internal id (the
    manager's counter) as key"""
    A = prog.anchors
    idf = {A.cell("Topic", "internal_id"), A.cell("Subscription", "internal_id"), A.cell("TopicState", "next_id"), A.cell("SubState", "next_id")}
    n = 0
    for b in prog.facts.lib_bodies():
        bi = prog.info(b.id)
        for bb, t in bi.calls(lambda c: c.path == "std::collections::BTreeMap::<K, V, A>::insert"):
            vty = b.operand_ty(t.args[2]) if len(t.args) > 2 else ""
            if not any(h in (vty or "") for h in (A.ty("Topic"), A.ty("Subscription"))):
                continue
            n += 1
            ks = sl.of_resolved(b.id, t.args[1])
            if not (idf & set(ks.fields)):
                return False, "a key inserted at %s is not recognisably the creation id" % bi.loc(bb)
            if ks.ops & {"Sub", "SubWithOverflow", "Mul", "MulWithOverflow", "Div", "Rem", "BitXor", "Not"}:
                return False, "the key at %s is computed (%s)" % (bi.loc(bb), sorted(ks.ops))
    if n == 0:
        return False, "no insert into an ordered collection of resources found"
    return True, ""


def scope_by_loop(prog, bi, sl, bid, st):
    """the candidates may be gathered by hand (`for t in map.values() { if t.name.is_in_project(p) { found.push(t.clone()) } }`):
    every push of a map element that feeds the pipeline sits on the true arm of an is_in_project() test"""
    from mapstate import _bool_switches
    A = prog.anchors
    maps = {A.cell("TopicState", "topics"), A.cell("SubState", "subscriptions")}
    src = sl.of(bid, bi.call_at(st["skip"]).args[0])
    if not any(c.endswith("::push") for c in src.calls):
        return False
    ok_blocks = set()
    for bb, t in bi.calls(lambda c: c.target.endswith("::is_in_project")):
        if t.dest is None or not t.dest.is_local():
            continue
        for sw, tr, fa in _bool_switches(bi, t.dest.local):
            if tr is not None:
                ok_blocks |= bi.cfg.edge_dominated(sw, tr)
    pushes = []
    for bb, t in bi.calls(lambda c: c.path == "std::vec::Vec::<T, A>::push"):
        if not bi.cfg.can_reach(bb, st["skip"]):
            continue
        if maps & sl.of(bid, t.args[1]).fields:
            pushes.append(bb)
    return bool(pushes) and all(bb in ok_blocks for bb in pushes)


def short_page_blocks(prog, bi, sl, bid, edges_out=None):
    """blocks only reached when the page is shorter than the paging's size (`len < size()`, `!(len >= size())`, ..)"""
    from mapstate import _bool_switches
    A = prog.anchors
    out = set()
    for blk in bi.body.blocks:
        if blk.cleanup or blk.idx not in bi.cfg.reach:
            continue
        for st in blk.stmts:
            if st.k == "assign" and st.lhs.is_local() and st.rv.k == "bin" and st.rv.j["op"] in ("Lt", "Le", "Gt", "Ge"):
                a, b2 = st.rv.ops
                sa, sb = sl.of(bid, a), sl.of(bid, b2)
                is_len = lambda x: any(c.split("::")[-1] == "len" for c in x.calls)
                is_size = lambda x: A.cell("Paging", "size") in x.fields or any(c.endswith("Paging::size") for c in x.calls)
                op = st.rv.j["op"]
                if is_len(sa) and is_size(sb) and not is_size(sa):
                    pass
                elif is_len(sb) and is_size(sa) and not is_size(sb):
                    op = {"Lt": "Gt", "Le": "Ge", "Gt": "Lt", "Ge": "Le"}[op]
                else:
                    continue
                # op is now `len <op> size`; true for a short page (len < size) ?
                short_when = {"Lt": True, "Le": None, "Gt": None, "Ge": False}[op]
                if short_when is None:
                    continue
                for sw, tr, fa in _bool_switches(bi, st.lhs.local):
                    tgt = tr if short_when else fa
                    if tgt is not None:
                        out |= bi.cfg.edge_dominated(sw, tgt)
                        if edges_out is not None:
                            edges_out.append((sw, tgt))
    return out


def full_page_gate(prog, root):
    """a closure / branch of the list handler compares the number of returned resources with the paging's size"""
    sl = Slicer(prog)
    A = prog.anchors
    for bid in prog.cone(root, follow=("closure",)):
        bi = prog.info(bid)
        if bi is None:
            continue
        for blk in bi.body.blocks:
            if blk.cleanup:
                continue
            for st in blk.stmts:
                if st.k == "assign" and st.rv.k == "bin" and st.rv.j["op"] in ("Lt", "Le", "Gt", "Ge", "Eq", "Ne"):
                    ss = [sl.of_resolved(bid, o) for o in st.rv.ops]
                    lens = [any(c.split("::")[-1] == "len" for c in x.calls) for x in ss]
                    sizes = [A.cell("Paging", "size") in x.fields or any(c.endswith("Paging::size") for c in x.calls) for x in ss]
                    if (lens[0] and sizes[1]) or (lens[1] and sizes[0]):
                        return True
    return False


def takes_exactly_size(prog):
    """every listing pipeline cuts its page with take(paging.size()) -- the size itself, not something derived from it"""
    n = 0
    for bid in listing_bodies(prog):
        bi, st, sl = pipeline(prog, bid)
        if "take" not in st:
            return False
        t = bi.call_at(st["take"])
        o = bi.trace(t.args[1])
        if not (o.kind == "call" and bi.call_at(o.data).callee is not None and bi.call_at(o.data).callee.target.endswith("Paging::size")):
            return False
        n += 1
    return n >= 3


@rule("C13", "R13.2", "the three listing pipelines are siblings: scope filter, sort, skip(offset), take(size), next page", floor=3)
def r13_2(prog, out):
    A = prog.anchors
    bodies = listing_bodies(prog)
    if len(bodies) < 3:
        raise CheckBroken("expected 3 listing pipelines, found %d" % len(bodies))
    paging = A.ty("Paging")
    for bid in bodies:
        bi, st, sl = pipeline(prog, bid)
        name = prog.short(bid)
        b = bi.body
        missing = [s for s in ("sort", "skip", "take", "next_page") if s not in st]
        if missing and set(missing) <= {"skip", "take"}:
            # the page may be cut by a hand-written loop (`for x in it { if page.len() == size { break } page.push(x) }`): that
            # it equals skip(offset).take(size) is a fact about the loop's iterations, which these rules do not decide
            loops = bi.cfg.loops()
            pushes = [bb for bb, t in bi.calls(lambda c: c.path == "std::vec::Vec::<T, A>::push") if any(bb in blocks for blocks in loops.values())]
            reads_paging = any(e.touches(A.cell("Paging", "size")) or e.touches(A.cell("Paging", "offset")) for e in prog.effects(bid))
            unguarded = [x for x in index_sites(bi) if not index_guarded(bi, x)]
            if pushes and reads_paging and not unguarded:
                out.undecided("%s:stages" % name, bi.loc(pushes[0]), "the page is filled by a hand-written loop instead of skip(offset).take(size): "
                              "equivalence with the sibling pipelines is not decided statically")
                continue
        if missing == ["sort"]:
            # no sort stage: the page may be read from a collection that is ordered by construction (a BTreeMap keyed by the
            # creation id, kept next to the by-name map)
            src = sl.of(bid, bi.call_at(st["skip"]).args[0])
            ordered = sorted(c for c in src.calls if ("BTreeMap" in c or "BTreeSet" in c) and c.split("::")[-1] in ("values", "iter", "into_values", "into_iter", "range", "keys"))
            if ordered:
                keys_ok, why = ordered_by_creation_id(prog, bid, sl)
                if keys_ok:
                    out.holds("%s:sorted-before-paging" % name, bi.loc(st["skip"]), "the page is read from a BTreeMap whose keys are the resources' creation ids: ordered by construction")
                # a per-project / ordered index instead of filter + sort: the pipeline is no longer a sibling of the others; its
                # scope (which bucket is read) and the agreement of index and by-name map are not decided by these rules
                out.undecided("%s:stages" % name, bi.loc(st["skip"]), "the page is read from an ordered index instead of filter + sort%s: scope and completeness of the index "
                              "are not decided statically (skip / take arguments and bounds still are)" % ("" if keys_ok else "; " + why))
                take_t, skip_t = bi.call_at(st["take"]), bi.call_at(st["skip"])
                for nm, tt, cellf in (("skip-arg", skip_t, "offset"), ("take-arg", take_t, "size")):
                    sa = sl.of(bid, tt.args[1])
                    if A.cell("Paging", cellf) in sa.fields and not (sa.ops & {"Add", "AddWithOverflow", "Sub", "SubWithOverflow", "Mul", "MulWithOverflow"}):
                        out.holds("%s:%s" % (name, nm), bi.loc(st["skip"]), "%s comes from the paging unchanged" % nm)
                    else:
                        out.violation("%s:%s" % (name, nm), bi.loc(st["skip"]), "%s is not the paging %s unchanged" % (nm, cellf))
                continue
        if missing and set(missing) <= {"skip", "take"}:
            cuts = window_cuts(prog, bi)
            if cuts and all(c[3] for c in cuts) and len(cuts) == 1:
                kind, site, recv, _ok, _safe = cuts[0]
                out.holds("%s:stages" % name, bi.loc(site), "the page is the index window [min(off, len), min(start + size, len)) of the sorted list: "
                          "the elements skip(off).take(size) yields, in bounds for every offset")
                if "reorder" in st:
                    out.violation("%s:order" % name, bi.loc(st["reorder"][0]), "the listing is passed through %s: pages are no longer in creation order" % st["reorder"][1])
                key = "%s:sorted-before-paging" % name
                if bi.cfg.dominates(st["sort"][0], site) and st["sort"][1] in ("sort", "sort_unstable"):
                    out.holds(key, bi.loc(st["sort"][0]), "sorted by the resource's Ord (creation id) before the window is cut")
                elif bi.cfg.dominates(st["sort"][0], site):
                    out.undecided(key, bi.loc(st["sort"][0]), "custom comparator %s" % st["sort"][1])
                else:
                    out.violation(key, bi.loc(site), "the page is cut before the resources are sorted: pages overlap or miss resources")
                key = "%s:scope" % name
                src = sl.of(bid, recv)
                if A.cell("TopicActor", "subscriptions") in src.fields:
                    out.holds(key, prog.loc(bid), "lists the topic's own subscription set")
                elif "filter" in st and bi.cfg.dominates(st["filter"], site):
                    fcl = bi.trace(bi.call_at(st["filter"]).args[1])
                    okf = fcl.kind == "agg" and any(t.callee.target.endswith("::is_in_project")
                                                    for bb, t in prog.info(prog.qual(b, bi.agg_at(fcl.data).j["def"])).calls())
                    if okf and any(c.endswith("Iterator::filter") for c in src.calls):
                        out.holds(key, bi.loc(st["filter"]), "filtered by project before paging")
                    else:
                        out.violation(key, bi.loc(st["filter"]), "the listing filter does not compare the project (or does not feed the page)")
                else:
                    out.violation(key, prog.loc(bid), "the listing is not restricted to the requested project: resources of other projects are returned")
                key = "%s:next-page" % name
                if bi.cfg.dominates(site, st["next_page"]):
                    out.holds(key, bi.loc(st["next_page"]), "next offset derived from the page that was cut")
                else:
                    out.violation(key, bi.loc(st["next_page"]), "next page computed before the page is cut")
                continue
            if cuts:
                out.undecided("%s:stages" % name, bi.loc(cuts[0][1]), "the page is cut by index arithmetic that is not the window [min(off, len), min(start + size, len)): "
                              "equivalence with skip(offset).take(size) is not decided (bounds are judged by R13.6)")
                continue
        if missing:
            idx = [blk.idx for blk in b.blocks if not blk.cleanup and ((blk.term.k == "assert" and blk.term.j.get("msg") == "BoundsCheck")
                                                                     or (blk.term.k == "call" and blk.term.callee is not None and blk.term.callee.path.startswith("std::ops::Index")))]
            out.violation("%s:stages" % name, bi.loc(idx[0]) if idx else prog.loc(bid), "listing pipeline lacks the stage(s) %s that its siblings have%s" % (
                missing, ": the page is cut by indexing, which panics (or overflows) for offsets beyond the list instead of yielding an empty page" if idx else ""))
            continue
        if "reorder" in st:
            out.violation("%s:order" % name, bi.loc(st["reorder"][0]), "the listing is passed through %s: pages are no longer in creation order" % st["reorder"][1])
        # take after skip, skip after sort
        take_t, skip_t = bi.call_at(st["take"]), bi.call_at(st["skip"])
        o = bi.trace(take_t.args[0])
        key = "%s:skip-then-take" % name
        if o.kind == "call" and o.data == st["skip"]:
            out.holds(key, bi.loc(st["take"]), "take(size) is applied to skip(offset)")
        elif bi.trace(skip_t.args[0]).kind == "call" and bi.trace(skip_t.args[0]).data == st["take"]:
            out.violation(key, bi.loc(st["skip"]), "skip is applied after take: every page after the first is empty or truncated")
        else:
            out.undecided(key, bi.loc(st["take"]), "skip/take chain not recognised")
        key = "%s:sorted-before-paging" % name
        if bi.cfg.dominates(st["sort"][0], st["skip"]):
            # default Ord, no custom comparator
            if st["sort"][1] in ("sort", "sort_unstable"):
                out.holds(key, bi.loc(st["sort"][0]), "sorted by the resource's Ord (creation id) before skip/take")
            else:
                out.undecided(key, bi.loc(st["sort"][0]), "custom comparator %s" % st["sort"][1])
        else:
            out.violation(key, bi.loc(st["skip"]), "the page is cut before the resources are sorted: pages overlap or miss resources")
        # arguments
        # within the pipeline: from the Paging it was given (how that Paging was built from the request is R13.1 / R13.3)
        def paging_slice(op):
            s0 = sl.of(bid, op)
            only_paging = s0.roots and all(r[0] == "param" and paging in (prog.facts.body(r[1]).local_ty(r[2]) or "") for r in s0.roots
                                           if r[0] == "param" and prog.facts.body(r[1]) is not None) and all(r[0] == "param" for r in s0.roots)
            return s0 if only_paging else sl.of_resolved(bid, op)
        s_skip = paging_slice(skip_t.args[1])
        s_take = paging_slice(take_t.args[1])
        key = "%s:skip-arg" % name
        if A.cell("Paging", "offset") in s_skip.fields and not (s_skip.ops & {"Add", "AddWithOverflow", "Sub", "SubWithOverflow", "Mul", "MulWithOverflow"}):
            out.holds(key, bi.loc(st["skip"]), "skips exactly the paging offset")
        else:
            out.violation(key, bi.loc(st["skip"]), "skip() is not given the paging offset unchanged (%s; ops %s)" % (sorted(f[1] for f in s_skip.fields), sorted(s_skip.ops)))
        key = "%s:take-arg" % name
        if A.cell("Paging", "size") in s_take.fields and not (s_take.ops & {"Add", "AddWithOverflow", "Sub", "SubWithOverflow", "Mul", "MulWithOverflow"}):
            out.holds(key, bi.loc(st["take"]), "takes exactly the effective page size")
        else:
            out.violation(key, bi.loc(st["take"]), "take() is not given the effective page size (%s; ops %s)" % (sorted(f[1] for f in s_take.fields), sorted(s_take.ops)))
        # scope: manager listings filter by project; the topic's own list needs no filter
        key = "%s:scope" % name
        src_fields = sl.of(bid, skip_t.args[0]).fields
        own_list = A.cell("TopicActor", "subscriptions") in src_fields
        if own_list:
            out.holds(key, prog.loc(bid), "lists the topic's own subscription set")
        elif "filter" in st:
            # the filter closure compares the project
            fcl = bi.trace(bi.call_at(st["filter"]).args[1])
            ok = False
            if fcl.kind == "agg":
                cid = prog.qual(b, bi.agg_at(fcl.data).j["def"])
                ok = any(t.callee.target.endswith("::is_in_project") for bb, t in prog.info(cid).calls())
            if ok and bi.cfg.dominates(st["filter"], st["skip"]):
                out.holds(key, bi.loc(st["filter"]), "filtered by project before paging")
            else:
                out.violation(key, bi.loc(st["filter"]), "the listing filter does not compare the project (or runs after paging)")
        elif scope_by_loop(prog, bi, sl, bid, st):
            out.holds(key, prog.loc(bid), "the candidates are gathered by a loop that keeps an element only when is_in_project() holds")
        else:
            out.violation(key, prog.loc(bid), "the listing is not restricted to the requested project: resources of other projects are returned")
        # the next offset is computed from this page
        key = "%s:next-page" % name
        np_t = bi.call_at(st["next_page"])
        if bi.cfg.dominates(st["take"], st["next_page"]):
            out.holds(key, bi.loc(st["next_page"]), "next offset derived from the page that was cut")
        else:
            out.violation(key, bi.loc(st["next_page"]), "next page computed before the page is cut")
    # handlers encode page.offset and return "" when None
    n = 0
    for h in prog.handlers:
        if not h.name.startswith("list_") or h.root is None:
            continue
        hi = prog.info(h.root)
        enc = [bb for bb, t in [(bb, t) for bid in prog.cone(h.root, follow=("closure",)) for bb, t in prog.info(bid).calls(lambda c: c.target == A.ty("PageToken") + "::encode")]]
        if not any(t.callee.path.endswith("Status::unimplemented") for bb, t in hi.calls()):
            n += 1
            key = "token-encoded:%s" % h.name
            if not enc:
                out.violation(key, prog.loc(h.root), "%s never returns a next page token" % h.name)
                continue
            # the token field of the response: every assignment feeding it derives from page.offset
            tok = None
            for (rb, rbb, ri, rrv) in prog.constructions_in(h.root):
                if "next_page_token" in rrv.j.get("fields", []):
                    tok = (rbb, rrv.ops[rrv.j["fields"].index("next_page_token")])
            if tok is None:
                out.undecided(key, prog.loc(h.root), "response construction not found")
                continue
            names = local_chain_to_offset(hi, tok[1])
            gate = sorted(names & {"filter", "and_then", "take_if", "xor", "then", "then_some", "zip", "and", "or_else", "take", "filter_map"})
            if gate and full_page_gate(prog, h.root) and takes_exactly_size(prog):
                out.holds(key, hi.loc(tok[0]), "the token is withheld when the page is shorter than the requested size, and every listing cuts its page with "
                          "take(size) unchanged: a short page is the last page")
                continue
            if gate:
                out.violation(key, hi.loc(tok[0]), "between the page's offset and the next page token sits %s(): the token is withheld on a condition other than `the page "
                              "is empty`, so a walk can stop before every resource was listed (e.g. a page capped below the requested size looks like the last page)" % gate[0])
                continue
            bad = token_alternatives(prog, hi, tok[1])
            if bad:
                out.violation(key, hi.loc(bad), "the next page token is dropped on a condition other than `the page is empty` (an assignment that does not derive from "
                              "page.offset feeds it): a walk can stop before every resource was listed")
            else:
                out.holds(key, prog.loc(h.root), "next_page_token = PageToken(offset).encode() or empty, with no further condition")
    if n < 3:
        raise CheckBroken("expected 3 implemented list handlers, found %d" % n)


@rule("C13", "R13.3", "listing order is creation order: Ord compares exactly the internal id, which comes from an increasing counter", floor=4)
def r13_3(prog, out):
    A = prog.anchors
    sl = Slicer(prog)
    from props.c09 import increment_kind, cells_of
    for key_ty, state, label in (("Topic", "TopicState", "topic"), ("Subscription", "SubState", "subscription")):
        ty = A.ty(key_ty)
        cmpb = "<%s as std::cmp::Ord>::cmp" % ty
        b = prog.facts.body(cmpb)
        if b is None:
            raise CheckBroken("Ord impl of %s not found" % key_ty)
        s = sl.of(cmpb, 0)
        key = "ord:%s" % key_ty
        own = {f for f in s.fields if f[0] == ty}
        if own == {(ty, "internal_id")}:
            out.holds(key, prog.loc(cmpb), "cmp compares exactly internal_id")
        else:
            out.violation(key, prog.loc(cmpb), "ordering of %s is not by creation id alone (fields %s)" % (key_ty, sorted(f[1] for f in own)))
        # reversed comparison?
        bi = prog.info(cmpb)
        for bb, t in bi.calls(lambda c: c.path == "std::cmp::Ord::cmp"):
            o0, o1 = bi.trace(t.args[0]), bi.trace(t.args[1])
            if o0.kind == "param" and o1.kind == "param" and o0.data > o1.data:
                out.violation(key + ":direction", bi.loc(bb), "cmp compares other with self: listing is in reverse creation order")
        for bb, t in bi.calls(lambda c: c.path.endswith("Ordering::reverse")):
            out.violation(key + ":direction", bi.loc(bb), "cmp result is reversed")
        # counter
        nid = A.cell(state, "next_id", optional=True)
        ws = [(bid, e) for bid in prog.facts.bodies for e in prog.effects(bid) if e.kind == "write" and not e.chain and e.touches(nid)] if nid else []
        if nid is not None and not ws:
            out.violation("id-counter:%s:never-advanced" % label, "", "%s.next_id is never written: every %s gets the same internal id, so the listing "
                          "order among them is arbitrary (not creation order)" % (state, label))
        for bid, e in ws:
            bi2 = prog.info(bid)
            k = increment_kind(bi2, e)
            key2 = "id-counter:%s:%s" % (label, prog.short(bid))
            if k == "inc":
                out.holds(key2, bi2.loc(e.bb), "internal ids come from a counter that only increases")
            elif k == "bad":
                out.violation(key2, bi2.loc(e.bb), "the %s id counter is not strictly increased: creation order is not reflected by the ids" % label)
            else:
                out.undecided(key2, bi2.loc(e.bb), "counter update shape not recognised")
        for bid, bb2 in [(bid, bb2) for bid, b2 in prog.facts.bodies.items() for bb2, t in prog.info(bid).calls(lambda c: c.target == ty + "::new")]:
            bi2 = prog.info(bid)
            t = bi2.call_at(bb2)
            idx = [i for i, a in enumerate(t.args) if bi2.body.operand_ty(a) == "u32"]
            key2 = "id-source:%s:%s" % (label, prog.short(bid))
            if idx and nid is not None and nid in cells_of(prog, bi2, prog.receiver_origin(bi2, t.args[idx[0]])):
                out.holds(key2, bi2.loc(bb2), "%s::new receives the manager's counter value" % key_ty)
            elif idx and bi2.trace(t.args[idx[0]]).kind == "param" and (bi2.body.kind == "closure" or bi2.body.parent or nid is None):
                out.undecided(key2, bi2.loc(bb2), "the internal id is handed to the constructing closure / function by its caller (a generic container that calls back): "
                              "where it comes from is not followed through the callback")
            else:
                s2 = sl.of(bid, t.args[idx[0]]) if idx else None
                how = sorted(c.split("::")[-1] for c in s2.calls)[:4] if s2 else []
                out.violation(key2, bi2.loc(bb2), "the internal id of a new %s does not come from a counter that only increases (%s): after deletions ids repeat or go "
                              "backwards, so listing order is no longer creation order" % (label, how or "no counter field"))


def emptiness_regions(prog, bi, edges_out=None):
    """(empty, nonempty): blocks only reached when a slice / Vec of this body was found empty / non-empty, however the test
    is written: is_empty(), len() == 0, len() != 0, len() > 0, len() >= 1, `match len() { 0 => .., _ => .. }`"""
    from mapstate import _bool_switches
    body = bi.body
    empty, nonempty = set(), set()

    def is_len(op):
        o = bi.trace(op)
        return o.kind == "call" and not o.path and bi.call_at(o.data).callee is not None and bi.call_at(o.data).callee.path.endswith("::len")

    def mark(sw, tgt, what):
        if tgt is not None:
            (empty if what else nonempty).update(bi.cfg.edge_dominated(sw, tgt))
            if what and edges_out is not None:
                edges_out.append((sw, tgt))

    for bb, t in bi.calls(lambda c: c.path.endswith("::is_empty")):
        if t.dest is not None and t.dest.is_local():
            for sw, tr, fa in _bool_switches(bi, t.dest.local):
                mark(sw, tr, True)
                mark(sw, fa, False)
    for blk in body.blocks:
        if blk.cleanup or blk.idx not in bi.cfg.reach:
            continue
        for st in blk.stmts:
            if st.k == "assign" and st.lhs.is_local() and st.rv.k == "bin" and st.rv.j["op"] in ("Eq", "Ne", "Gt", "Ge", "Lt", "Le"):
                a, b2 = st.rv.ops
                op = st.rv.j["op"]
                if is_len(a) and b2.const_int() is not None:
                    c = b2.const_int()
                elif is_len(b2) and a.const_int() is not None:
                    c = a.const_int()
                    op = {"Lt": "Gt", "Le": "Ge", "Gt": "Lt", "Ge": "Le", "Eq": "Eq", "Ne": "Ne"}[op]
                else:
                    continue
                ev = {"Eq": lambda n: n == c, "Ne": lambda n: n != c, "Gt": lambda n: n > c, "Ge": lambda n: n >= c, "Lt": lambda n: n < c, "Le": lambda n: n <= c}[op]
                at0 = ev(0)
                rest = {ev(1), ev(2), ev(10 ** 9), ev(max(c, 1)), ev(max(c, 1) + 1), ev(max(c - 1, 1))}
                if len(rest) != 1 or rest == {at0}:
                    continue            # does not separate empty from non-empty
                for sw, tr, fa in _bool_switches(bi, st.lhs.local):
                    mark(sw, tr if at0 else fa, True)
                    mark(sw, fa if at0 else tr, False)
        t = blk.term
        if t.k == "switch" and t.discr is not None and t.discr.place is not None and is_len(t.discr):
            arms = dict(t.arms)
            if 0 in arms and len(arms) == 1:
                mark(blk.idx, arms[0], True)
                mark(blk.idx, t.otherwise, False)
    return empty, nonempty


@rule("C13", "R13.4", "next offset = offset + page length on a non-empty page, none on an empty page", floor=1)
def r13_4(prog, out):
    A = prog.anchors
    paging = A.ty("Paging")
    sl = Slicer(prog)
    cands = [b.id for b in prog.facts.lib_bodies() if b.impl_self == paging and b.kind == "AssocFn" and any(
        t.callee.path.endswith("<impl [T]>::is_empty") or t.callee.path.endswith("<impl [T]>::len") for bb, t in prog.info(b.id).calls())]
    if not cands:
        raise CheckBroken("next-page body not found")
    off = A.cell("Paging", "offset")
    for bid in cands:
        bi = prog.info(bid)
        b = bi.body
        empty_blocks, nonempty_blocks = emptiness_regions(prog, bi)
        somes, nones = [], []
        for blk in b.blocks:
            if blk.cleanup or blk.idx not in bi.cfg.reach:
                continue
            for i, s in enumerate(blk.stmts):
                if s.k == "assign" and s.rv.k == "agg" and s.rv.j.get("adt") == "std::option::Option":
                    (somes if s.rv.j["variant"] == "Some" else nones).append((blk.idx, i, s))
        key = "next-offset:%s" % prog.short(bid)
        if not somes or not nones:
            out.violation(key, prog.loc(bid), "the next-page computation does not distinguish an empty page (Some/None arms missing)")
            continue
        ok = True
        for (bb, i, s) in somes:
            if bb not in nonempty_blocks:
                ok = False
                out.violation(key + ":some-arm", bi.loc(bb), "a next offset is produced for an empty page: following the token never terminates")
            # value = (offset to skip) + (page length): a sum of exactly a read of Paging.offset (defaulting to 0) and len(page)
            sv = sl.of(bid, s.rv.ops[0])
            pf = {f for f in sv.fields if f[0] == paging}
            lens = [c for c in sv.calls if c.endswith("::len")]
            arith = {o for o in sv.ops if not o.startswith("cast:")}
            consts = set()
            for c in sv.consts:
                try:
                    consts.add(int(c))
                except (TypeError, ValueError):
                    pass
            what = []
            if pf != {off}:
                what.append("Paging fields %s" % sorted(f[1] for f in pf))
            if not lens:
                what.append("no page length")
            sat = any(c.split("::")[-1] == "saturating_add" for c in sv.calls)      # offset.saturating_add(len): the same sum, capped
            if not ((arith and arith <= {"Add", "AddWithOverflow"}) or (sat and not arith)):
                what.append("operators %s" % sorted(arith))
            if consts - {0}:
                what.append("constants %s" % sorted(consts - {0}))
            other_calls = {c.split("::")[-1] for c in sv.calls} & ({"max", "min", "saturating_add", "saturating_sub", "wrapping_add", "checked_add", "pow", "count", "capacity"}
                                                                      - ({"saturating_add"} if sat and not arith else set()))
            if other_calls:
                what.append("calls %s" % sorted(other_calls))
            if what:
                ok = False
                out.violation(key + ":value", bi.loc(bb), "next offset is computed from (%s) instead of offset + page length: resources are skipped or repeated" % "; ".join(what))
        short_edges = []
        if any(bb not in empty_blocks for (bb, _i, _s) in nones):
            short_page_blocks(prog, bi, sl, bid, short_edges)
        empty_edges = []
        emptiness_regions(prog, bi, empty_edges)
        short_ok = bool(short_edges) and takes_exactly_size(prog)
        # blocks that can be entered without the page being empty or shorter than the size asked of take()
        otherwise = bi.cfg.reach_avoiding_edges(0, empty_edges + short_edges) if short_ok else None
        for (bb, i, s) in nones:
            if bb not in empty_blocks and otherwise is not None and bb not in otherwise:
                continue        # a page shorter than take(size) asked for is the last one
            if bb not in empty_blocks:
                ok = False
                out.violation(key + ":none-arm", bi.loc(bb), "no next offset is produced although the page is non-empty: the walk stops early")
        if ok:
            out.holds(key, prog.loc(bid), "Some(offset + len) exactly on the non-empty arm, None on the empty arm")


@rule("C13", "R13.5", "page-token encode and decode agree (same base64 engine, same byte order)", floor=1)
def r13_5(prog, out):
    A = prog.anchors
    pt = A.ty("PageToken")
    enc = dec = None
    for b in prog.facts.lib_bodies():
        if b.impl_self != pt or b.kind != "AssocFn":
            continue
        names = {t.callee.path.split("::")[-1] for bb, t in prog.info(b.id).calls()}
        if "encode" in names:
            enc = b.id
        if "decode" in names:
            dec = b.id
    if enc is None or dec is None:
        raise CheckBroken("page token encode/decode not found")

    def facts_of(bid):
        bi = prog.info(bid)
        order, engine = None, None
        for bb, t in bi.calls():
            n = t.callee.path.split("::")[-1]
            for k in ("ne", "le", "be"):
                if n in ("to_%s_bytes" % k, "from_%s_bytes" % k):
                    order = k
            if n in ("encode", "decode") and t.args:
                o = bi.trace(t.args[0])
                engine = str(o.data) if o.kind == "const" else repr(o)
        return order, engine

    # fixed width: what is base64-encoded is the whole byte array of the offset.  A shortened form (`&bytes[..significant]`,
    # leading / trailing zero bytes dropped) is only right if shortening and padding agree for every value -- byte values, not
    # structure; the token `""` also means `no more pages`.
    ebi = prog.info(enc)
    sle = Slicer(prog)
    for bb, t in ebi.calls(lambda c: c.path.split("::")[-1] == "encode"):
        if len(t.args) < 2:
            continue
        names = {c.split("::")[-1] for c in sle.of(enc, t.args[1]).calls}
        cut = sorted(names & {"index", "position", "rposition", "take", "take_while", "skip", "skip_while", "split", "trim_ascii", "trim_ascii_start", "trim_ascii_end",
                              "strip_prefix", "strip_suffix", "split_at", "split_first", "split_last", "leading_zeros", "trailing_zeros", "truncate", "drain", "get"})
        if cut:
            out.violation("codec:fixed-width", ebi.loc(bb), "the token is the base64 of a *shortened* byte string (%s): offsets whose bytes contain the cut-off pattern "
                          "encode to a token that decodes to another offset, or to the empty token that ends the listing" % cut)
        else:
            out.holds("codec:fixed-width", ebi.loc(bb), "the whole fixed-width byte array is encoded")
    eo, ee = facts_of(enc)
    do, de = facts_of(dec)
    key = "codec"
    if eo is None or do is None:
        out.undecided(key, prog.loc(enc), "byte-order calls not recognised")
    elif eo != do:
        out.violation(key, prog.loc(dec), "tokens are written with to_%s_bytes but read with from_%s_bytes: issued tokens decode to a different offset" % (eo, do))
    elif ee != de:
        out.violation(key, prog.loc(dec), "tokens are encoded with %s but decoded with %s" % (ee, de))
    else:
        out.holds(key, prog.loc(enc), "both sides use %s byte order and the %s engine" % (eo, short_ty(ee or "?")))


@rule("C13", "R13.6", "hostile offsets cannot panic the listing pipelines", floor=3)
@rule("C17", "R13.6", "hostile offsets cannot panic the listing pipelines", floor=3)
def r13_6(prog, out):
    for bid in listing_bodies(prog):
        bad = []
        for cid in prog.cone(bid, follow=("call", "closure")):
            ci = prog.info(cid)
            if ci is None:
                continue
            for blk in ci.body.blocks:
                if blk.cleanup or blk.idx not in ci.cfg.reach:
                    continue
                t = blk.term
                if t.k == "call" and t.callee is not None and t.callee.path in L.MAY_PANIC and not (t.exp and any("debug_assert" in e for e in t.exp)):
                    bad.append((cid, blk.idx, t.callee.path.split("::")[-1]))
                if t.k == "assert" and t.j.get("msg") == "BoundsCheck":
                    bad.append((cid, blk.idx, "indexing"))
            bad = [x for x in bad if not (x[0] == cid and x[2] == "index" and index_guarded(ci, x[1]))]
            safe = set()
            for c in window_cuts(prog, ci) if cid == bid else []:
                safe |= c[4]
            bad = [x for x in bad if not (x[0] == cid and x[1] in safe)]
        # arithmetic on the (client supplied) offset inside the pipeline itself
        bi0 = prog.info(bid)
        from slicing import Slicer
        sl0 = Slicer(prog)
        for blk in bi0.body.blocks:
            if blk.cleanup:
                continue
            for st in blk.stmts:
                if st.k == "assign" and st.rv.k == "bin" and st.rv.j["op"] in ("Add", "AddWithOverflow", "Mul", "MulWithOverflow", "Sub", "SubWithOverflow") and not st.exp:
                    fs = set()
                    for op in st.rv.ops:
                        fs |= sl0.of(bid, op).fields
                    if prog.anchors.cell("Paging", "offset") in fs:
                        bad.append((bid, blk.idx, "arithmetic (%s) on the client-supplied offset" % st.rv.j["op"]))
        key = "no-panic:%s" % prog.short(bid)
        if bad:
            cid, bb, n = bad[0]
            out.violation(key, prog.loc(cid, bb), "%s in the listing pipeline can panic for an offset beyond the list" % n)
        else:
            out.holds(key, prog.loc(bid), "only iterator adapters (skip/take saturate on out-of-range offsets)")


UNORDERED = {"buffer_unordered", "try_buffer_unordered", "for_each_concurrent", "try_for_each_concurrent", "select_all", "select_next_some",
             "join_next", "rev", "reverse", "sort", "sort_by", "sort_by_key", "sort_unstable", "sort_unstable_by", "sort_unstable_by_key", "swap", "swap_remove",
             "rotate_left", "rotate_right", "shuffle", "dedup", "retain", "into_values", "into_keys", "drain_filter", "par_iter", "into_par_iter"}
UNORDERED_TYPES = ("FuturesUnordered", "JoinSet", "HashMap", "HashSet", "BTreeMap", "BTreeSet", "BinaryHeap")


@rule("C13", "R13.7", "a listing handler returns the page's resources in the page's order", floor=3)
def r13_7(prog, out):
    """The page comes out of the manager / topic actor sorted by creation.  Whatever the handler does per resource (asking
    each subscription for its info, mapping to wire messages) has to keep that order: joins that complete in arrival order
    (`buffer_unordered`, `FuturesUnordered`, a JoinSet), re-sorting, or a detour through an unordered collection do not."""
    sl = Slicer(prog)
    n = 0
    for h in prog.handlers:
        if not h.name.startswith("list_") or h.root is None:
            continue
        hi = prog.info(h.root)
        if any(t.callee.path.endswith("Status::unimplemented") for bb, t in hi.calls()):
            continue
        cone = set(prog.cone(h.root, follow=("closure",))) | {h.root}
        for (rb, rbb, ri, rrv) in prog.constructions_in(h.root):
            names = rrv.j.get("fields", [])
            if "next_page_token" not in names:
                continue
            for f, op in zip(names, rrv.ops):
                ty = prog.info(rb).body.operand_ty(op) or ""
                if not ty.startswith("std::vec::Vec<"):
                    continue
                n += 1
                key = "order:%s.%s" % (h.name, f)
                # from the page the manager / actor returned (its own order is R13.2's subject) to the response
                s = Slicer(prog, stop_at=lambda ty: "crate::" in ty and "Page" in ty.split("<")[0].split("::")[-1]).of(rb, op)
                bad = sorted({c.split("::")[-1].split("<")[0] for c in s.calls} & UNORDERED)
                badty = sorted({w for c in s.calls for w in UNORDERED_TYPES if ("::%s::" % w in c or "::%s<" % w in c) and not c.startswith("crate::")
                                and c.split("::")[-1] in ("iter", "iter_mut", "into_iter", "values", "values_mut", "keys", "drain", "into_values", "into_keys",
                                                          "into_sorted_vec", "into_vec", "join_next", "next", "poll_next", "from_iter", "collect")})
                if bad or badty:
                    out.violation(key, prog.loc(rb, rbb), "the resources of the page pass through %s before they are returned: the response is no longer in creation order "
                                  "(it depends on completion / hash order), so pages are not stable" % (bad or badty))
                else:
                    out.holds(key, prog.loc(rb, rbb), "page -> response through order-preserving steps only")
    if n == 0:
        raise CheckBroken("no listing response found")
