"""C05 — ModifyAckDeadline replaces the deadline; zero means nack."""
from engine import rule, CheckBroken
from intervals import IntervalWalker, merge_partition, compare_partitions, INT_RANGES
from slicing import Slicer
from common import short_ty
import libmodel as L

I32_MIN, I32_MAX = INT_RANGES["i32"]


def find_seconds_parser(prog):
    """fn(i32) -> Result<Option<Duration>, Status>"""
    out = []
    for b in prog.facts.lib_bodies():
        if b.kind == "Fn" and b.arg_count == 1 and b.local_ty(1) == "i32":
            ret = b.local_ty(0)
            if ret.startswith("std::result::Result<std::option::Option<std::time::Duration>"):
                out.append(b.id)
    return out


def flows_into(bi, src_local, dst_locals):
    """does the value in src_local reach one of dst_locals through assignments / value-preserving calls of this body?"""
    body = bi.body
    tainted = {src_local}
    changed = True
    while changed:
        changed = False
        for blk in body.blocks:
            if blk.cleanup:
                continue
            for st in blk.stmts:
                if st.k != "assign" or st.lhs.local in tainted:
                    continue
                pl = getattr(st.rv, "place", None)
                if any(o.place is not None and o.place.local in tainted for o in st.rv.ops) or (pl is not None and pl.local in tainted):
                    tainted.add(st.lhs.local)
                    changed = True
            t = blk.term
            if t.k == "call" and t.dest is not None and t.dest.local not in tainted and any(a.place is not None and a.place.local in tainted for a in t.args):
                tainted.add(t.dest.local)
                changed = True
    return bool(tainted & set(dst_locals))


def classify_duration_path(prog, bi, path, is_input, sink=None):
    """label of one path of a seconds->duration guard.  `sink`: locals holding the value the guard computes (the argument
    handed on at the end of the path); values built on the path that never reach it (another field's Option, another
    Duration) are not part of the guard."""
    body = bi.body
    labels = []
    for bb in path.blocks:
        blk = body.blocks[bb]
        for s in blk.stmts:
            if s.k == "assign" and s.rv.k == "agg" and s.rv.j.get("ak") == "adt":
                if s.rv.j["adt"] == "std::option::Option" and s.rv.j["variant"] == "None":
                    if sink is None or flows_into(bi, s.lhs.local, sink):
                        labels.append("None")
        t = blk.term
        if t.k == "call" and t.callee is not None and sink is not None and t.callee.path.startswith("std::time::Duration::from_") \
                and t.dest is not None and not flows_into(bi, t.dest.local, sink):
            continue
        if t.k == "call" and t.callee is not None:
            p = t.callee.path
            if p in L.STATUS_CTORS:
                labels.append("Err:" + L.STATUS_CTORS[p])
            elif p.startswith("std::time::Duration::from_"):
                unit = p.split("::")[-1]
                a = t.args[0]
                if a.const_int() is not None:
                    labels.append("Some(%s %d)" % (unit, a.const_int()))
                else:
                    o = bi.trace(a)
                    if o.kind == "cast":
                        s = bi.stmt(*o.data)
                        inner = bi.trace(s.rv.ops[0])
                        frm, to = body.ty(s.rv.j["from"]), body.ty(s.rv.j["to"])
                        if is_input(inner):
                            flo, fhi = INT_RANGES.get(to, (None, None))
                            lossless = flo is not None and path.lo >= flo and path.hi <= fhi
                            labels.append("Some(%s input%s)" % (unit, "" if lossless else " LOSSY %s->%s" % (frm, to)))
                            continue
                    if is_input(o):
                        labels.append("Some(%s input)" % unit)
                    else:
                        labels.append("Some(%s ?)" % unit)
    return "+".join(labels) if labels else "?"


def _value_expr(bi, operand, is_input, depth=0):
    """shape of an integer expression over the input: ("input",) | ("const", c) | ("max"|"min", expr, c) | ("clamp", expr, a, b)
    | ("cast", expr, from, to) | None"""
    if depth > 8:
        return None
    if operand.const_int() is not None:
        return ("const", operand.const_int())
    o = bi.trace(operand)
    if is_input(o):
        return ("input",)
    if o.kind == "const" and isinstance(o.data, str):
        return None
    if o.kind == "cast" and not o.path:
        st = bi.stmt(*o.data)
        inner = _value_expr(bi, st.rv.ops[0], is_input, depth + 1)
        if inner is None:
            return None
        return ("cast", inner, bi.body.ty(st.rv.j["from"]), bi.body.ty(st.rv.j["to"]))
    if o.kind == "call" and not o.path:
        t = bi.call_at(o.data)
        n = t.callee.path.split("::")[-1] if t.callee is not None else ""
        if n in ("max", "min") and len(t.args) == 2 and "Ord" in t.callee.path:
            for x, y in ((t.args[0], t.args[1]), (t.args[1], t.args[0])):
                c = _const_of(bi, y)
                e = _value_expr(bi, x, is_input, depth + 1)
                if c is not None and e is not None:
                    return (n, e, c)
        if n == "clamp" and len(t.args) == 3:
            e = _value_expr(bi, t.args[0], is_input, depth + 1)
            a, b = _const_of(bi, t.args[1]), _const_of(bi, t.args[2])
            if e is not None and a is not None and b is not None:
                return ("clamp", e, a, b)
    return None


def _const_of(bi, operand):
    if operand.const_int() is not None:
        return operand.const_int()
    o = bi.trace(operand)
    if o.kind == "const" and not o.path:
        try:
            return int(o.data)
        except (TypeError, ValueError):
            c = bi.facts.consts.get(o.data) if isinstance(o.data, str) else None
            if c is not None and "int" in c:
                return int(c["int"])
    return None


def _pieces(expr, lo, hi):
    """[(lo, hi, ("const", c) | ("input",) | ("lossy", from, to))] of expr over input in [lo, hi]"""
    if lo > hi:
        return []
    k = expr[0]
    if k in ("const", "input"):
        return [(lo, hi, expr)]
    if k == "cast":
        out = []
        tlo, thi = INT_RANGES.get(expr[3], (None, None))
        for (a, b, e) in _pieces(expr[1], lo, hi):
            if e[0] == "input" and tlo is not None and not (tlo <= a and b <= thi):
                out.append((a, b, ("lossy", expr[2], expr[3])))
            else:
                out.append((a, b, e))
        return out
    if k in ("max", "min", "clamp"):
        out = []
        for (a, b, e) in _pieces(expr[1], lo, hi):
            if e[0] != "input":
                if e[0] == "const":
                    v = e[1]
                    if k == "max":
                        v = max(v, expr[2])
                    elif k == "min":
                        v = min(v, expr[2])
                    else:
                        v = min(max(v, expr[2]), expr[3])
                    out.append((a, b, ("const", v)))
                else:
                    out.append((a, b, e))
                continue
            if k == "max":
                c = expr[2]
                out += [(a, min(b, c), ("const", c)), (max(a, c + 1), b, ("input",))]
            elif k == "min":
                c = expr[2]
                out += [(a, min(b, c - 1), ("input",)), (max(a, c), b, ("const", c))]
            else:
                c1, c2 = expr[2], expr[3]
                out += [(a, min(b, c1), ("const", c1)), (max(a, c1 + 1), min(b, c2 - 1), ("input",)), (max(a, c2), b, ("const", c2))]
        return [(a, b, e) for (a, b, e) in out if a <= b]
    return [(lo, hi, ("?",))]


def duration_items(prog, bi, path, is_input, sink=None):
    """[(lo, hi, label)] of one path of a seconds -> duration guard.  Like classify_duration_path, but the argument of
    Duration::from_*() may be built with max / min / clamp (`raw.max(10)`, `raw.min(600)`): the path's interval is
    split where the expression switches between the input and the constant."""
    body = bi.body
    for bb in path.blocks:
        t = body.blocks[bb].term
        if t.k == "call" and t.callee is not None and t.callee.path.startswith("std::time::Duration::from_") and t.args and t.args[0].const_int() is None:
            if sink is not None and t.dest is not None and not flows_into(bi, t.dest.local, sink):
                continue
            e = _value_expr(bi, t.args[0], is_input)
            if e is None or e == ("input",) or (e[0] == "cast" and e[1] == ("input",)):
                break     # the plain forms are classify_duration_path's
            unit = t.callee.path.split("::")[-1]
            base = classify_duration_path(prog, bi, path, is_input, sink)
            other = [x for x in base.split("+") if not x.startswith("Some(%s" % unit)]
            items = []
            for (a, b, pe) in _pieces(e, path.lo, path.hi):
                if pe[0] == "const":
                    lab = "Some(%s %d)" % (unit, pe[1])
                elif pe[0] == "input":
                    lab = "Some(%s input)" % unit
                elif pe[0] == "lossy":
                    lab = "Some(%s input LOSSY %s->%s)" % (unit, pe[1], pe[2])
                else:
                    lab = "Some(%s ?)" % unit
                items.append((a, b, "+".join(other + [lab])))
            return items
    return [(path.lo, path.hi, classify_duration_path(prog, bi, path, is_input, sink))]


@rule("C05", "R05.1", "seconds -> action partition: <0 rejected, 0 nack, 1..599 that many seconds, >=600 capped at 600", floor=1)
def r05_1(prog, out):
    parsers = find_seconds_parser(prog)
    if not parsers:
        raise CheckBroken("no fn(i32) -> Result<Option<Duration>, Status> found (deadline seconds parser)")
    expected = [(I32_MIN, -1, "Err:INVALID_ARGUMENT"), (0, 0, "None"), (1, 599, "Some(from_secs input)"), (600, I32_MAX, "Some(from_secs 600)")]
    uncapped = [(I32_MIN, -1, "Err:INVALID_ARGUMENT"), (0, 0, "None"), (1, I32_MAX, "Some(from_secs input)")]
    status = {}
    for pid in parsers:
        bi = prog.info(pid)

        def is_input(o, bi=bi):
            if o.kind == "param" and o.data == 1 and not o.path:
                return True
            # the payload of `uN::try_from(input)`'s Ok is the input
            if o.kind == "call" and o.path and o.path[0] == ("v", "Ok"):
                c = bi.call_at(o.data)
                if c.callee is not None and c.callee.path.split("::")[-1] in ("try_from", "try_into") and c.args:
                    return is_input(bi.trace(c.args[0]))
            return False
        w = IntervalWalker(prog, pid, is_input, "i32")
        paths = w.paths()
        key = "partition:%s" % prog.short(pid)
        if paths is None:
            out.undecided(key, prog.loc(pid), "guard shape has no transfer function (%s)" % w.undecided_reason)
            continue
        items = []
        for p in paths:
            items.extend(duration_items(prog, bi, p, is_input))
        got = merge_partition(items)
        diffs = compare_partitions(got, expected, secs_point_equiv)
        if not diffs:
            status[pid] = "capped"
            out.holds(key, prog.loc(pid), "partition of i32 is %s" % got)
        elif not compare_partitions(got, uncapped, secs_point_equiv):
            # the conversion itself is right, the 600 s cap is not applied here: every place that turns the result into a
            # deadline has to apply it (judged below, per site)
            status[pid] = "uncapped"
            out.holds(key, prog.loc(pid), "partition of i32 is %s; the cap at 600 s is left to the callers (see cap:*)" % got)
        else:
            if any("?" in g[2] for g in got):
                out.undecided(key, prog.loc(pid), "a path produces a value the analysis cannot classify: %s" % got)
            else:
                out.violation(key, prog.loc(pid), "seconds are mapped differently from the specification on %s" % "; ".join(diffs),
                              ["got      %s" % got, "expected %s" % expected])


    # per site: the duration added to the clock for a DeadlineModification is at most 600 s
    A = prog.anchors
    sl = Slicer(prog)
    dm_new = A.ty("DeadlineModification") + "::new"
    for bid, b in prog.facts.bodies.items():
        bi = prog.info(bid)
        for bb, t in bi.calls(lambda c: c.target == dm_new):
            s = sl.of_resolved(bid, t.args[1])
            used = [p for p in parsers if p in s.calls]
            if not used or not any(status.get(p) == "uncapped" for p in used):
                continue
            key = "cap:%s" % prog.short(bid)
            consts = set()
            for c in s.consts:
                consts.add(c)
                if isinstance(c, str) and c in prog.facts.consts and prog.facts.consts[c].get("ty") == "std::time::Duration":
                    # a named constant of a non-scalar type (`const MAX: Duration = Duration::from_secs(600)`): rustc does not
                    # hand out its value as a scalar, the initialiser is read from the item (whole seconds only)
                    consts |= duration_const_secs(prog, prog.facts.consts[c])
            lim = {c.split("::")[-1] for c in s.calls} & {"min", "clamp"}
            if lim and any(str(c) == "600" for c in consts):
                out.holds(key, bi.loc(bb), "the seconds parser used here does not cap; the duration passes through %s(.., 600 s) before it is added to the clock" % sorted(lim)[0])
            elif lim:
                out.undecided(key, bi.loc(bb), "the duration passes through %s() with a bound that is not the constant 600 (%s)" % (sorted(lim)[0], sorted(map(str, consts))[:4]))
            else:
                out.violation(key, bi.loc(bb), "the seconds parser used on this route (%s) does not cap at 600 s and nothing between it and the deadline does: "
                              "ModifyAckDeadline with N > 600 moves the deadline N seconds away" % prog.short(used[0]))


def duration_const_secs(prog, k, whole_seconds_only=True):
    """{seconds} of `const X: Duration = Duration::from_secs(<int literal or product of literals>)`; empty when it is anything else"""
    import os, re
    m = re.match(r"^(.*?):(\d+):\d+-(\d+):\d+$", k.get("span", ""))
    if not m:
        return set()
    try:
        lines = open(os.path.join(prog.facts.repo, m.group(1))).read().split("\n")[int(m.group(2)) - 1:int(m.group(3))]
    except OSError:
        return set()
    text = " ".join(lines)
    mm = re.search(r"=\s*(?:std::time::|core::time::)?Duration::from_(secs|millis|micros)\(\s*([0-9_]+(?:\s*\*\s*[0-9_]+)*)\s*\)\s*;", text)
    if not mm:
        return set()
    v = 1
    for f in mm.group(2).split("*"):
        v *= int(f.strip().replace("_", ""))
    if mm.group(1) == "secs":
        return {v}
    if not whole_seconds_only:
        return {v / (1000.0 if mm.group(1) == "millis" else 1000000.0)}
    return set()


def secs_point_equiv(a, b, v):
    """`from_secs(input)` at the single point v is `from_secs(v)`"""
    norm = lambda l: l.replace(" input)", " %d)" % v)
    return norm(a) == norm(b)


def diff_partition(got, expected):
    """human readable differences between two partitions of the same range"""
    points = sorted({x for lo, hi, _ in got + expected for x in (lo, hi + 1)})
    diffs = []

    def label_at(part, v):
        ls = [l for lo, hi, l in part if lo <= v <= hi]
        return "|".join(sorted(set(ls))) if ls else "(unreachable)"

    for a, b in zip(points, points[1:]):
        lg, le = label_at(got, a), label_at(expected, a)
        if lg != le:
            diffs.append("[%d,%d]: code does %s, property says %s" % (a, b - 1, lg, le))
    return diffs or ["(same classes, different multiplicity)"]


def modify_entry_points(prog):
    """bodies that call Subscription::modify_ack_deadlines with request-derived data (not the push nack)"""
    A = prog.anchors
    target = A.ty("Subscription") + "::modify_ack_deadlines"
    out = []
    for bid, b in prog.facts.bodies.items():
        bi = prog.info(bid)
        for bb, t in bi.calls(lambda c: c.target == target):
            out.append((bid, bb, t))
    return out


@rule("C17", "R05.2", "the whole modification list is parsed (all-or-nothing) before it is applied", floor=2)
@rule("C05", "R05.2", "the whole modification list is parsed (all-or-nothing) before it is applied", floor=2)
def r05_2(prog, out):
    sl = Slicer(prog)
    eps = modify_entry_points(prog)
    parser = [b.id for b in prog.facts.lib_bodies() if b.kind == "Fn" and b.local_ty(0).startswith(
        "std::result::Result<std::vec::Vec<%s" % prog.anchors.ty("DeadlineModification"))]
    if not parser:
        raise CheckBroken("batch parser returning Result<Vec<DeadlineModification>, _> not found")
    n = 0
    for bid, bb, t in eps:
        bi = prog.info(bid)
        s = sl.of(bid, t.args[1])
        if not any(p in s.calls for p in parser) and any(r[0] in ("param", "upvar") for r in s.roots):
            s = sl.of_resolved(bid, t.args[1])      # the list arrives as a field of a value built by the caller
        key = "apply:%s" % prog.short(bid)
        elem = set(find_seconds_parser(prog))
        via_queue = False
        if not any(p in s.calls for p in parser):
            from slicing import through_channels
            s2 = through_channels(prog, sl, bid, s)     # parsed by a reader, queued, applied by a worker task
            if s2 is not None:
                s = s2
                via_queue = True
        per_element = bool(elem & s.calls) and "crate::api::parser::parse_ack_id" in s.calls
        if any(p in s.calls for p in parser) or per_element:
            n += 1
            # the call is only reached on the parser's success edge: the parser call dominates it
            pcalls = [pbb for pbb, pt in bi.calls(lambda c: prog.qual(bi.body, c.target) in parser)]
            # (when the parser runs in an enclosing body, e.g. before a spawned task, the value itself is the witness)
            from common import skipped_only_when_empty
            sk = skipped_only_when_empty(prog, bi, bb, t.args[1])
            if sk is not None and via_queue:
                out.undecided(key + ":applied", bi.loc(sk[0]), "deadline modifications are applied by a worker fed through a queue: " + sk[1])
            elif sk is not None:
                out.violation(key + ":applied", bi.loc(sk[0]), "deadline modifications: " + sk[1])
            if not pcalls or all(bi.cfg.dominates(p, bb) for p in pcalls):
                out.holds(key, bi.loc(bb), "modifications applied are exactly the batch parser's Ok value")
            else:
                out.violation(key, bi.loc(bb), "modify_ack_deadlines can be reached without passing the batch parser")
        elif "crate::subscriptions::deadline_modification::DeadlineModification::nack" in s.calls and not any(
                f[0].startswith("crate::pubsub_proto") for f in s.fields):
            out.holds(key, bi.loc(bb), "internal nack of a delivery the server handed out itself (no request data)", nontrivial=False)
        else:
            out.violation(key, bi.loc(bb), "modifications applied here do not come from the batch parser (%s)" % sorted(c.split('::')[-1] for c in s.calls)[:5])
    if n < 2:
        raise CheckBroken("expected the unary and the streaming modify entry points, found %d" % n)
    for pid in parser:
        bi = prog.info(pid)
        # all-or-nothing: collected into Result<Vec<_>, _>
        colls = [(bb, t) for bb, t in bi.calls(lambda c: c.path == "std::iter::Iterator::collect")]
        key = "all-or-nothing:%s" % prog.short(pid)
        if colls and all(any(a.startswith("std::result::Result<std::vec::Vec<") for a in t.callee.args) for bb, t in colls):
            out.holds(key, prog.loc(pid), "elements are collected into Result<Vec<_>, Status>: the first bad element fails the whole batch")
        else:
            out.undecided(key, prog.loc(pid), "batch parser does not use collect::<Result<Vec<_>, _>>()")
        effs = [e for e in prog.effects(pid) if (e.kind in L.MUTATING_KINDS and e.cells and e.root[0] in ("param", "upvar")) or e.kind in ("mpsc_send", "mpsc_try_send")]
        key = "pure:%s" % prog.short(pid)
        if effs:
            out.violation(key, prog.loc(pid, effs[0].bb), "the batch parser has a side effect (%s): a rejected request is no longer without effect" % effs[0])
        else:
            out.holds(key, prog.loc(pid), "batch parser has no state effects")


@rule("C05", "R05.3", "the new deadline is (time of the call) + N", floor=3)
@rule("C03", "R05.3", "the new deadline is (time of the call) + N", floor=3)
def r05_3(prog, out):
    A = prog.anchors
    sl = Slicer(prog)
    dm_new = A.ty("DeadlineModification") + "::new"
    found = 0
    for bid, b in prog.facts.bodies.items():
        bi = prog.info(bid)
        for bb, t in bi.calls(lambda c: c.target == dm_new):
            found += 1
            s = sl.of(bid, t.args[1])
            key = "deadline:%s" % prog.short(bid)
            adds = [c for c in s.calls if c.startswith("<tokio::time::Instant as std::ops::Add")]
            subs = [c for c in s.calls if "std::ops::Sub" in c or "checked_sub" in c]
            memo = sorted(c.split("::")[-1] for c in s.calls if c.split("::")[-1] in ("get_or_insert_with", "get_or_insert", "get_or_init", "or_insert_with", "or_insert"))
            if memo:
                out.violation(key, bi.loc(bb), "the deadline of a modification is taken from a value cached across the elements of the request (%s): later entries get the "
                              "deadline computed for an earlier entry's seconds" % memo[0])
                continue
            if subs:
                out.violation(key, bi.loc(bb), "the new deadline is computed with a subtraction (%s)" % subs[0])
            elif adds and A.ty("AckDeadline") + "::new" in s.calls:
                out.holds(key, bi.loc(bb), "deadline = AckDeadline::new(now + seconds)")
            else:
                out.undecided(key, bi.loc(bb), "deadline expression not recognised (%s)" % sorted(c.split('::')[-1] for c in s.calls)[:6])
    if not found:
        raise CheckBroken("DeadlineModification::new is never called")
    # `now` handed to the batch parser is Instant::now() of the same handler
    parser = [b.id for b in prog.facts.lib_bodies() if b.kind == "Fn" and b.local_ty(0).startswith(
        "std::result::Result<std::vec::Vec<%s" % A.ty("DeadlineModification"))]
    n = 0
    for bid, b in prog.facts.bodies.items():
        bi = prog.info(bid)
        for bb, t in bi.calls(lambda c: prog.qual(b, c.target) in parser):
            n += 1
            key = "now:%s" % prog.short(bid)
            inst = [a for a in t.args if b.operand_ty(a) == "tokio::time::Instant"]
            if not inst:
                out.undecided(key, bi.loc(bb), "no Instant argument")
                continue
            o = bi.trace(inst[0])
            if o.kind == "call" and bi.call_at(o.data).callee.path == "tokio::time::Instant::now":
                # "the time of the call": taken for this request, i.e. inside every loop the parse sits in (a stream body
                # handles one control message per iteration; a clock read before the loop is the time the stream was opened)
                if set(bi.cfg.in_loop(bb)) <= set(bi.cfg.in_loop(o.data)):
                    out.holds(key, bi.loc(bb), "reference time is Instant::now() taken in the handler, for this request")
                else:
                    out.violation(key, bi.loc(o.data), "the reference time is read once, outside the loop that handles the requests: every new deadline is "
                                  "(time the stream was opened) + N instead of (time of the call) + N")
            else:
                s = sl.of(bid, inst[0])
                if o.kind in ("upvar", "param", "env") and bi.cfg.in_loop(bb):
                    out.violation(key, bi.loc(bb), "the reference time is a value captured / passed in before the loop that handles the requests started: every new "
                                  "deadline is (time the stream was opened) + N instead of (time of the call) + N")
                elif "tokio::time::Instant::now" in s.calls and not (s.calls - {"tokio::time::Instant::now"}):
                    out.holds(key, bi.loc(bb), "reference time is Instant::now()")
                else:
                    out.violation(key, bi.loc(bb), "reference time of the new deadline is not the time of the call (%r; %s)" % (o, sorted(c.split('::')[-1] for c in s.calls)[:4]))
    if n < 1:
        raise CheckBroken("expected a caller of the batch parser, found %d" % n)


@rule("C05", "R05.5", "every ack id handed to the batch parser has its own seconds value (zip cannot truncate)", floor=2)
def r05_5_c05(prog, out):
    r05_5(prog, out, "C05")


@rule("C17", "R05.5", "every ack id handed to the batch parser has its own seconds value (zip cannot truncate)", floor=2)
def r05_5_c17(prog, out):
    r05_5(prog, out, "C17")


@rule("C03", "R05.5", "every ack id handed to the batch parser has its own seconds value (zip cannot truncate)", floor=2)
def r05_5_c03(prog, out):
    # an extension that is answered OK and silently not applied (truncated tail) ends the lease earlier than the holder was told;
    # a made-up 0 = nack releases it outright
    r05_5(prog, out, "C03")


def r05_5(prog, out, prop="C05"):
    A = prog.anchors
    sl = Slicer(prog)
    parser = [b.id for b in prog.facts.lib_bodies() if b.kind == "Fn" and b.local_ty(0).startswith(
        "std::result::Result<std::vec::Vec<%s" % A.ty("DeadlineModification"))]
    if not parser:
        raise CheckBroken("batch parser not found")
    pb = prog.facts.body(parser[0])
    # which parameters are the two lists
    lists = [i for i in range(1, pb.arg_count + 1) if pb.local_ty(i).startswith("&[")]
    if len(lists) == 1:
        # the seconds may come as any iterator (`impl IntoIterator<Item = i32>`): the parameter that is neither the id slice nor the clock
        rest = [i for i in range(1, pb.arg_count + 1) if i not in lists and "Instant" not in (pb.local_ty(i) or "")]
        if len(rest) == 1:
            lists = [lists[0], rest[0]]
    if len(lists) != 2:
        out.undecided("parser-signature", prog.loc(parser[0]), "batch parser does not take an id list and a seconds list")
        return
    zips = any(t.callee.path == "std::iter::Iterator::zip" for bb, t in prog.info(parser[0]).calls())
    # the seconds side is repeated (`zip(secs.iter().cycle())`): a shorter list is stretched over the ids instead of cutting them
    cycles = False
    for zbb0, zt0 in prog.info(parser[0]).calls(lambda c: c.path == "std::iter::Iterator::zip"):
        for a in zt0.args[:2]:
            sa = sl.of(parser[0], a)
            if any(c.split("::")[-1] == "cycle" for c in sa.calls) and any(r[0] == "param" and r[2] == lists[1] for r in sa.roots):
                cycles = True
    # the parser walks the ids and looks the seconds up by position with a fallback (`secs.get(i).copied().unwrap_or_default()`):
    # an id without a value of its own gets a made-up one
    invents = None
    for cid in prog.cone(parser[0], follow=("call", "closure")):
        ci = prog.info(cid)
        if ci is None:
            continue
        for fbb, ft in ci.calls(lambda c: c.path.split("::")[-1] in ("unwrap_or_default", "unwrap_or", "unwrap_or_else") and "Option" in c.path):
            sf = sl.of(cid, ft.args[0])
            if not any(c.split("::")[-1] in ("get", "nth", "next") for c in sf.calls):
                continue
            # one level up: captured variables of a closure of the parser
            roots = set(sf.roots)
            for r in list(roots):
                if r[0] == "upvar" and r[1] != parser[0]:
                    ex = sl._resolve_root(r)
                    if ex is not None:
                        roots |= ex.roots
            if any(r[0] == "param" and r[1] == parser[0] and r[2] == lists[1] for r in roots):
                invents = ci.loc(fbb)
    # inside the parser: the i-th id is paired with the i-th seconds value -- nothing drops or skips elements of one side
    # before the zip (a `filter` / `dedup` on the ids shifts every later pair)
    CUT = {"filter", "filter_map", "skip", "skip_while", "take", "take_while", "step_by", "dedup", "dedup_by_key", "retain", "rev", "chain", "flat_map",
           "flatten", "map_while", "peekable_skip", "sort", "sort_unstable", "sort_by_key", "unique", "chunks", "windows"}
    pi0 = prog.info(parser[0])
    for zbb, zt in pi0.calls(lambda c: c.path == "std::iter::Iterator::zip"):
        bad = set()
        for a in zt.args[:2]:
            bad |= {c.split("::")[-1] for c in sl.of(parser[0], a).calls} & CUT
        key = "pairing:%s" % prog.short(parser[0])
        if bad:
            out.violation(key, pi0.loc(zbb), "one side of the id / seconds zip passes through %s first: elements are dropped or moved on that side only, so every later "
                          "ack id is paired with another id's seconds (a nack lands on a message that was being extended)" % sorted(bad))
        else:
            out.holds(key, pi0.loc(zbb), "ids and seconds are zipped position by position")
    n = 0
    for bid, b in prog.facts.bodies.items():
        if b.crate != "lib":
            continue
        bi = prog.info(bid)
        for bb, t in bi.calls(lambda c: prog.qual(b, c.target) in parser):
            n += 1
            key = "equal-lengths:%s" % prog.short(bid)
            a_ids, a_secs = t.args[lists[0] - 1], t.args[lists[1] - 1]
            s_ids, s_secs = sl.of(bid, a_ids), sl.of(bid, a_secs)
            # (a) built from the id list element by element: ids.iter().map(|_| x).collect()
            derived = any(c == "std::iter::Iterator::map" for c in s_secs.calls) and any(c.endswith("Iterator::collect") for c in s_secs.calls) \
                and (s_ids.fields & s_secs.fields) and not any(c.split("::")[-1] in ("take", "skip", "step_by", "filter", "from_ref", "first", "last") for c in s_secs.calls)
            # (a') one seconds value for every id: an endless `iter::repeat(x)` (zip stops at the ids), or `vec![x; ids.len()]`
            names_secs = {c.split("::")[-1] for c in s_secs.calls}
            if "repeat" in names_secs and not (names_secs & {"take", "skip", "step_by", "filter", "chain"}):
                derived = True
            if ("from_elem" in names_secs or "repeat_n" in names_secs or "resize" in names_secs) and (s_ids.fields & s_secs.fields) \
                    and any(c.endswith("::len") for c in s_secs.calls):
                derived = True
            # (b) a dominating length comparison between the two lists that rejects on mismatch
            guarded = False
            for blk in b.blocks:
                if blk.cleanup or not bi.cfg.dominates(blk.idx, bb):
                    continue
                for st in blk.stmts:
                    if st.k == "assign" and st.rv.k == "bin" and st.rv.j["op"] in ("Ne", "Eq"):
                        fl = set()
                        for op in st.rv.ops:
                            o = bi.trace(op)
                            if o.kind == "call" and bi.call_at(o.data).callee.path.endswith("::len"):
                                fl |= sl.of(bid, bi.call_at(o.data).args[0]).fields
                        if (s_ids.fields & fl) and (s_secs.fields & fl) and len(fl) >= 2:
                            guarded = True
            if not guarded and not derived and b.parent:
                # the call sits in a closure / task: a comparison in an enclosing body that dominates the closure's creation
                s_ids, s_secs = sl.of_resolved(bid, a_ids), sl.of_resolved(bid, a_secs)
                child, x = bid, b
                while x is not None and x.parent and not guarded:
                    pid = prog.qual(x, x.parent)
                    pi = prog.info(pid)
                    if pi is None:
                        break
                    site = None
                    for blk in pi.body.blocks:
                        for st in blk.stmts:
                            if st.k == "assign" and st.rv.k == "agg" and st.rv.j.get("ak") in ("closure", "coroutine") and prog.qual(pi.body, st.rv.j["def"]) == child:
                                site = blk.idx
                    if site is not None:
                        for blk in pi.body.blocks:
                            if blk.cleanup or not pi.cfg.dominates(blk.idx, site):
                                continue
                            for st in blk.stmts:
                                if st.k == "assign" and st.rv.k == "bin" and st.rv.j["op"] in ("Ne", "Eq"):
                                    fl = set()
                                    for op in st.rv.ops:
                                        o = pi.trace(op)
                                        if o.kind == "call" and pi.call_at(o.data).callee.path.endswith("::len"):
                                            fl |= sl.of(pid, pi.call_at(o.data).args[0]).fields
                                    if (s_ids.fields & fl) and (s_secs.fields & fl) and len(fl) >= 2:
                                        guarded = True
                    child, x = pid, pi.body
            if not guarded and not derived:
                # the comparison may live in a helper called before the parser (check_lists(&request)?)
                for cbb, ct in bi.calls(lambda c: (c.local or c.res_local) and not c.path.endswith("Future::poll")):
                    if not bi.cfg.dominates(cbb, bb) or prog.qual(b, ct.callee.target) in parser:
                        continue
                    for hid in prog.cone(prog.qual(b, ct.callee.target), follow=("call", "closure")):
                        hb = prog.facts.body(hid)
                        if hb is None or hb.coroutine:
                            continue
                        hi2 = prog.info(hid)
                        for blk in hb.blocks:
                            if blk.cleanup:
                                continue
                            for st in blk.stmts:
                                if st.k == "assign" and st.rv.k == "bin" and st.rv.j["op"] in ("Ne", "Eq"):
                                    fl = set()
                                    for op in st.rv.ops:
                                        o = hi2.trace(op)
                                        if o.kind == "call" and hi2.call_at(o.data).callee.path.endswith("::len"):
                                            fl |= sl.of(hid, hi2.call_at(o.data).args[0]).fields
                                    if (s_ids.fields & fl) and (s_secs.fields & fl) and len(fl) >= 2:
                                        guarded = True
            if not guarded and not derived and zips and not cycles and not invents:
                # the comparison may follow the parse: the number of pairs the parser produced (zip stops at the shorter list) is
                # compared with the length of *each* list before anything is applied
                covered = set()
                for blk in b.blocks:
                    if blk.cleanup or not bi.cfg.can_reach(bb, blk.idx) or blk.idx == bb:
                        continue
                    for st in blk.stmts:
                        if st.k == "assign" and st.rv.k == "bin" and st.rv.j["op"] in ("Ne", "Eq", "Lt", "Gt", "Le", "Ge"):
                            sides = []
                            for op in st.rv.ops:
                                o = bi.trace(op)
                                if o.kind == "call" and bi.call_at(o.data).callee is not None and bi.call_at(o.data).callee.path.endswith("::len"):
                                    sides.append(sl.of(bid, bi.call_at(o.data).args[0]))
                            if len(sides) == 2:
                                res = [x for x in sides if (bid, bb) in x.sites]
                                oth = [x for x in sides if (bid, bb) not in x.sites]
                                if len(res) == 1 and len(oth) == 1:
                                    if s_ids.fields & oth[0].fields and not (s_secs.fields - s_ids.fields) & oth[0].fields:
                                        covered.add("ids")
                                    if (s_secs.fields - s_ids.fields) & oth[0].fields:
                                        covered.add("secs")
                if covered == {"ids", "secs"}:
                    guarded = True
            # a literal one-element list handed to a parser that repeats the seconds: the same value for every id
            o_secs = bi.trace(a_secs)
            fixed = None
            if o_secs.kind == "agg" and not o_secs.path:
                ag = bi.agg_at(o_secs.data)
                if ag.j.get("ak") == "array":
                    fixed = len(ag.ops)
            if derived:
                out.holds(key, bi.loc(bb), "the seconds list is built with one element per ack id")
            elif guarded:
                out.holds(key, bi.loc(bb), "a length comparison of the two lists rejects a mismatch before parsing")
            elif cycles and fixed:
                out.holds(key, bi.loc(bb), "a literal list of %d value(s) is repeated over the ack ids by the parser" % fixed)
            elif cycles:
                out.violation(key, bi.loc(bb), "the batch parser repeats a shorter seconds list over the ack ids (cycle) and nothing rejects lists of different length "
                              "before it is called: an inconsistent request is accepted and applied (and an empty seconds list silently drops every ack id)")
            elif invents:
                out.violation(key, bi.loc(bb), "the batch parser gives an ack id that has no seconds value of its own a made-up one (fallback at %s; 0 seconds is a nack) and "
                              "nothing rejects lists of different length before it is called: the server releases leases nobody asked it to release" % invents)
            elif not zips:
                out.undecided(key, bi.loc(bb), "the parser does not zip the lists")
            else:
                out.violation(key, bi.loc(bb), "the batch parser zips the ack ids with a seconds list whose length is not tied to the id list: zip silently "
                              "truncates, so only a prefix of the ack ids is modified while the call reports success")
    # entry points that build their modifications element by element from ONE seconds value have no second list
    elem = set(find_seconds_parser(prog))
    for bid, bb, t in modify_entry_points(prog):
        bi = prog.info(bid)
        sm = sl.of(bid, t.args[1])
        if any(p in sm.calls for p in parser):
            continue
        key = "equal-lengths:%s" % prog.short(bid)
        if not (elem & sm.calls):
            if any(f[0].startswith("crate::pubsub_proto") for f in sm.fields):
                out.undecided(key, bi.loc(bb), "request-derived modifications that pass neither the batch parser nor the seconds parser (R05.2 judges that)")
            continue
        if "std::iter::Iterator::zip" in sm.calls:
            out.undecided(key, bi.loc(bb), "the modifications are zipped outside the batch parser")
        else:
            out.holds(key, bi.loc(bb), "every ack id is paired with the request's single seconds value: there is no second list that could be shorter")
    if n < 1:
        raise CheckBroken("expected a caller of the batch parser, found %d" % n)


@rule("C05", "R05.6", "deadline modifications are built only from a request's seconds (or as the push dispatcher's nack): the server never invents or rewrites one", floor=3)
@rule("C02", "R05.6", "deadline modifications are built only from a request's seconds (or as the push dispatcher's nack): the server never invents or rewrites one", floor=3)
@rule("C03", "R05.6", "deadline modifications are built only from a request's seconds (or as the push dispatcher's nack): the server never invents or rewrites one", floor=3)
@rule("C04", "R05.6", "deadline modifications are built only from a request's seconds (or as the push dispatcher's nack): the server never invents or rewrites one", floor=3)
def r05_6(prog, out):
    """A delivery's deadline is the subscription's ack deadline from hand-out until a *client* modifies it (C03/C04), a
    modification means what the client wrote (N > 0 replaces, 0 nacks, C05), and a nacked id is retired (stale for any later
    Acknowledge, C02).  All of this presupposes that the DeadlineModification values reaching the tracker are the ones the
    request parser built.  Who may construct one: the type's own constructors; a body that turns request seconds into
    modifications (it calls the seconds parser); the push dispatcher, as a nack of a delivery it holds.  Anything else (an
    actor that turns nacks into extensions, a handler that issues modifications on the client's behalf after a pull) is a
    deadline the client did not ask for."""
    A = prog.anchors
    dm = A.ty("DeadlineModification")
    sl = Slicer(prog)
    parsers = set(find_seconds_parser(prog))
    if not parsers:
        raise CheckBroken("seconds parser not found")
    sites = []       # (body, bb, how, deadline operand or None, ack id operand)
    for (bid, bb, i, rv) in prog.constructions(dm):
        names = rv.j.get("fields") or []
        nd = rv.ops[names.index("new_deadline")] if "new_deadline" in names else None
        ai = rv.ops[names.index("ack_id")] if "ack_id" in names else None
        sites.append((bid, bb, "literal", nd, ai))
    for b in prog.facts.lib_bodies():
        bi = prog.info(b.id)
        for bb, t in bi.calls(lambda c: (c.target or "").startswith(dm + "::") and (c.local or c.res_local)):
            fb = prog.facts.body(prog.qual(b, t.callee.target))
            ret = fb.local_ty(0) if fb is not None else ""
            if dm not in (ret or ""):
                continue
            n = t.callee.target.split("::")[-1]
            sites.append((b.id, bb, n, t.args[1] if len(t.args) > 1 else None, t.args[0] if t.args else None))
    n = 0
    for bid, bb, how, nd, ai in sites:
        b = prog.facts.body(bid)
        if b is None or b.crate != "lib" or b.file.startswith("/"):
            continue
        rb = prog.facts.body(b.root) if b.root else b
        if (b.impl_self or (rb.impl_self if rb else None)) == dm:
            continue          # the constructors themselves
        n += 1
        bi = prog.info(bid)
        key = "built:%s:%s" % (prog.short(bid), how)
        # (a) from request seconds: this body, or the body it is a closure of, calls the seconds parser
        fam = {bid} | set(prog.facts.descendants(bid))
        x = b
        while x is not None and x.parent:
            pid2 = prog.qual(x, x.parent)
            fam.add(pid2)
            fam |= set(prog.facts.descendants(pid2))
            x = prog.facts.body(pid2)
        calls_parser = any(prog.qual(prog.facts.body(f), t.callee.target) in parsers
                           for f in fam if prog.facts.body(f) is not None
                           for _bb, t in prog.info(f).calls(lambda c: c.local or c.res_local))
        if calls_parser:
            out.holds(key, bi.loc(bb), "built from the request's seconds (this code calls the seconds parser)")
            continue
        # (b) a nack of a delivery the server itself holds (push dispatch)
        is_nack = how == "nack" or (nd is not None and nd.place is not None and bi.trace(nd).kind == "agg"
                                     and bi.agg_at(bi.trace(nd).data).j.get("variant") == "None")
        if is_nack and ai is not None:
            s = sl.of(bid, ai)
            held = any(f == A.cell("PulledMessage", "ack_id") or f[1] == "ack_id" for f in s.fields) or A.ty("PulledMessage") + "::ack_id" in s.calls
            in_actor = any(bid in set(prog.cone(a.loop, follow=("call", "closure", "poll"))) for a in prog.actors if a.loop)
            if held and not in_actor:
                out.holds(key, bi.loc(bb), "nack of a delivery the dispatcher holds")
                continue
        out.violation(key, bi.loc(bb), "a deadline modification is built here, not from a request's seconds: the server changes (or rewrites) a delivery's deadline "
                      "that no client asked for -- the lease no longer runs for the subscription's ack deadline / a nack no longer retires the delivery")
    if n == 0:
        raise CheckBroken("no construction of DeadlineModification outside its own constructors")


def _early_success(prog, bi, parse_blocks):
    """a path on which a request is answered normally although its list was never parsed.  In a unary handler a request is the
    whole body; in a stream body a request starts where the stream yields its next message (`stream.next().await` -> Some)
    and ends at the next wait or at the return."""
    from props.c12 import error_blocks
    from common import await_class
    from mapstate import presence_switches
    errs = error_blocks(bi)
    # a message that carries nothing of the kind has nothing to parse: regions where a list was found empty
    from mapstate import _bool_switches
    sl = Slicer(prog)
    lists = set()
    for p in parse_blocks:
        t = bi.body.blocks[p].term
        for a in (t.args if t.k == "call" else []):
            lists |= {f for f in sl.of(bi.body.id, a).fields if f[0].startswith("crate::pubsub_proto")}
        for st in bi.body.blocks[p].stmts:
            if st.k == "assign" and st.rv.k == "agg" and st.rv.j.get("ak") == "closure":
                for op in st.rv.ops:
                    lists |= {f for f in sl.of(bi.body.id, op).fields if f[0].startswith("crate::pubsub_proto")}
    empty = set()
    for eb, et in bi.calls(lambda c: c.path.endswith("::is_empty") and ("Vec" in c.path or "slice" in c.path or "[T]" in c.path)):
        if et.dest is None or not et.dest.is_local() or not et.args:
            continue
        if lists and not (lists & set(sl.of(bi.body.id, et.args[0]).fields)):
            continue
        for sw, tr, fa in _bool_switches(bi, et.dest.local):
            if tr is not None:
                empty |= bi.cfg.edge_dominated(sw, tr)
    errs = errs | empty
    # a hand-written loop over the list (`for s in ids { out.push(parse(s)?) }`): leaving the loop because the iterator is
    # exhausted is "everything parsed" (nothing to parse for an empty list)
    for nb, nt in bi.calls(lambda c: c.path == "std::iter::Iterator::next"):
        for sw, some_t, none_t in presence_switches(bi, nb, "option"):
            if some_t is not None and none_t is not None and none_t != "self" and any(
                    p in bi.cfg.edge_dominated(sw, some_t) for p in parse_blocks):
                errs = errs | bi.cfg.edge_dominated(sw, none_t)
    starts = [a for a in bi.awaits if await_class(prog, bi, a) == "stream_next" and a.ready_bb is not None
              and all(bi.cfg.dominates(a.ready_bb, p) for p in parse_blocks)]
    if not starts:
        return bi.cfg.escapes(0, set(parse_blocks) | errs, after=False)
    # in a try_stream body an error leaves through the yielder: `Err(e)` built and sent
    for blk in bi.body.blocks:
        if not blk.cleanup and any(st.k == "assign" and st.rv.k == "agg" and st.rv.j.get("adt") == "std::result::Result" and st.rv.j.get("variant") == "Err"
                                   for st in blk.stmts):
            errs.add(blk.idx)
    a = max(starts, key=lambda x: sum(1 for y in starts if bi.cfg.dominates(y.ready_bb, x.ready_bb)))      # the innermost
    ends = set()       # the stream is over (None): not a request
    if a.result_local is not None:
        for sw, some_t, none_t in presence_switches(bi, None, "option", local=a.result_local):
            if none_t is not None and none_t != "self":
                ends |= bi.cfg.edge_dominated(sw, none_t)
    exits = set(bi.cfg.returns) | {x.poll_bb for x in bi.awaits if await_class(prog, bi, x) == "stream_next"}
    return bi.cfg.escapes(a.ready_bb, set(parse_blocks) | errs | ends, exits=exits, after=False)


@rule("C05", "R05.7", "a request that is answered Ok has had its deadline modifications parsed: no early success in front of the parse", floor=2)
def r05_7(prog, out):
    """`ModifyAckDeadline` / a StreamingPull control message is applied whatever else the message carries.  An early
    `return Ok(..)` in front of the parse (a `settings only` message, a fast path for some field value) drops the client's
    modifications silently.  In every body that calls the batch parser, each normal path to the return passes the call."""
    parser = [b.id for b in prog.facts.lib_bodies() if b.kind == "Fn" and b.local_ty(0).startswith(
        "std::result::Result<std::vec::Vec<%s" % prog.anchors.ty("DeadlineModification"))]
    if not parser:
        raise CheckBroken("batch parser returning Result<Vec<DeadlineModification>, _> not found")
    n = 0
    secs = set(find_seconds_parser(prog))
    # anything that parses modifications: the batch parser(s), the seconds parser, and local functions built on them
    parse_fns = set(parser) | secs
    for b0 in prog.facts.lib_bodies():
        if b0.kind in ("Fn", "AssocFn") and b0.id.startswith("crate::api::parser::") and b0.id not in parse_fns:
            if any(c in secs for c in prog.cone(b0.id, follow=("call", "closure"))):
                parse_fns.add(b0.id)
    facing = set()
    for h in prog.handlers:
        if h.root is not None:
            facing |= {c for c in prog.cone(h.root, follow=("closure", "poll", "spawn", "spawn-joinset")) if not c.startswith("crate::api::parser::")}
    for b in prog.facts.lib_bodies():
        if b.id not in facing or (b.kind == "Closure" and not b.coroutine):
            continue
        bi = prog.info(b.id)
        pcalls = [pbb for pbb, pt in bi.calls(lambda c: prog.qual(bi.body, c.target) in parse_fns)]
        # per-element parsing through a closure built here (a spliced helper's `map(|..| parse(..))`)
        for blk in bi.body.blocks:
            if blk.cleanup:
                continue
            for st in blk.stmts:
                if st.k == "assign" and st.rv.k == "agg" and st.rv.j.get("ak") == "closure":
                    cid = prog.qual(bi.body, st.rv.j["def"])
                    if any(c in parse_fns for c in prog.cone(cid, follow=("call", "closure"))):
                        pcalls.append(blk.idx)
        if not pcalls:
            continue
        n += 1
        key = "parsed-on-every-path:%s" % prog.short(b.id)
        esc = _early_success(prog, bi, pcalls)
        if esc is not None:
            out.violation(key, bi.loc(esc[-1]), "a path answers without an error before the deadline modifications of the message are parsed: they are dropped silently",
                          ["path: " + " -> ".join(str(x) for x in esc[:12])])
        else:
            out.holds(key, bi.loc(pcalls[0]), "every normal path parses the modifications")
    if n < 2:
        raise CheckBroken("expected the unary and the streaming caller of the batch parser, found %d" % n)
