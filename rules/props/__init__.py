import importlib, os
for f in sorted(os.listdir(os.path.dirname(__file__))):
    if f.startswith("c") and f.endswith(".py"):
        importlib.import_module("props." + f[:-3])
