"""C14 — push subscriptions deliver at least once until the endpoint accepts."""
from engine import rule, CheckBroken
from actorlib import roles
from slicing import Slicer
from consumers import const_walk
from common import short_ty, await_class
from props import c09
from props.c12 import error_blocks, delete_flow, effect_body
import libmodel as L

SUCCESS = {102, 200, 201, 202, 204}


def dispatch_body(prog):
    """the coroutine that awaits the HTTP request"""
    out = []
    for b in prog.facts.lib_bodies():
        if not b.coroutine:
            continue
        bi = prog.info(b.id)
        if any(await_class(prog, bi, a) == "http" for a in bi.awaits):
            out.append(b.id)
    return out


@rule("C14", "R14.1", "the set of HTTP statuses counted as success is exactly {102, 200, 201, 202, 204}", floor=1)
def r14_1(prog, out):
    ds = dispatch_body(prog)
    if not ds:
        raise CheckBroken("push dispatch body (awaiting an HTTP request) not found")
    sl = Slicer(prog)
    for did in ds:
        bi = prog.info(did)
        found = False
        for blk in bi.body.blocks:
            t = blk.term
            if blk.cleanup or t.k != "switch" or t.discr is None or t.discr.place is None:
                continue
            if bi.body.operand_ty(t.discr) != "u16":
                continue
            s = sl.of(did, t.discr)
            if not any(c.endswith("Response::status") for c in s.calls):
                continue
            found = True
            # arms leading to the same block = one set; the success set is the one whose target differs from `otherwise`
            groups = {}
            for v, tgt in t.arms:
                groups.setdefault(bi._skip_false(tgt), set()).add(v)
            key = "success-set:%s" % prog.short(did)
            sets = [vs for tgt, vs in groups.items() if tgt != bi._skip_false(t.otherwise)]
            got = set().union(*sets) if sets else set()
            if got == SUCCESS and len(sets) == 1:
                out.holds(key, bi.loc(blk.idx), "statuses %s are treated alike, every other status takes the other arm" % sorted(got))
            else:
                extra, missing = sorted(got - SUCCESS), sorted(SUCCESS - got)
                out.violation(key, bi.loc(blk.idx), "the statuses counted as success are %s: %s%s" % (
                    sorted(got), ("%s must not acknowledge; " % extra) if extra else "", ("%s must acknowledge" % missing) if missing else ""))
        if not found:
            ranges = [(bb, t) for bb, t in bi.calls(lambda c: c.path.startswith("http::StatusCode::is_") or c.path.startswith("reqwest::StatusCode::is_")
                                                     or c.target.startswith("http::status::StatusCode::is_"))]
            if ranges:
                bb, t = ranges[0]
                out.violation("success-set:%s" % prog.short(did), bi.loc(bb), "success is decided with StatusCode::%s(), a whole status class: statuses outside "
                              "{102, 200, 201, 202, 204} (e.g. 203, 205, 206) are acknowledged and never pushed again" % t.callee.path.split("::")[-1])
            else:
                out.undecided("success-set:%s" % prog.short(did), prog.loc(did), "no switch on the u16 status found (status classified some other way)")


@rule("C14", "R14.2", "every dispatch ends in exactly one of ack / nack, ack only on the success arm", floor=1)
def r14_2(prog, out):
    A = prog.anchors
    sub = A.ty("Subscription")
    for did in dispatch_body(prog):
        bi = prog.info(did)
        http = [a for a in bi.awaits if await_class(prog, bi, a) == "http"][0]
        acks = [bb for bb, t in bi.calls(lambda c: c.target == sub + "::acknowledge_messages")]
        nacks = [bb for bb, t in bi.calls(lambda c: c.target == sub + "::modify_ack_deadlines")]
        key = "one-of-ack-nack:%s" % prog.short(did)
        if not acks or not nacks:
            out.violation(key, prog.loc(did), "the dispatch has %d ack site(s) and %d nack site(s): %s" % (len(acks), len(nacks),
                          "a delivered message is never acknowledged and is pushed again forever" if not acks else "a failed push is never nacked and waits for the full ack deadline"))
            continue
        # the nack really is a nack (DeadlineModification::nack)
        sl = Slicer(prog)
        for nb in nacks:
            s = sl.of(did, bi.call_at(nb).args[1])
            if not any(c.endswith("DeadlineModification::nack") for c in s.calls):
                out.violation(key + ":nack-kind", bi.loc(nb), "the failure arm extends the deadline instead of nacking")
        # status switch arms
        st_sw = None
        for blk in bi.body.blocks:
            t = blk.term
            if not blk.cleanup and t.k == "switch" and t.discr is not None and t.discr.place is not None and bi.body.operand_ty(t.discr) == "u16":
                st_sw = blk
        # transport result switch: discr of the http await result
        res = bi._final_result_local(http)
        starts = {}
        if st_sw is not None:
            groups = {}
            for v, tgt in st_sw.term.arms:
                groups.setdefault(bi._skip_false(tgt), set()).add(v)
            for tgt, vs in groups.items():
                starts["status in %s" % sorted(vs)] = (tgt, vs <= SUCCESS)
            starts["any other status"] = (bi._skip_false(st_sw.term.otherwise), False)
        for blk in bi.body.blocks:
            t = blk.term
            if blk.cleanup or t.k != "switch":
                continue
            for s in blk.stmts:
                if s.k == "assign" and s.rv.k == "discr" and s.rv.place.is_local() and s.rv.place.local == res:
                    arms = dict(t.arms)
                    if 1 in arms:
                        starts["transport error"] = (bi._skip_false(arms[1]), False)

        def stop(bb):
            if bb in acks:
                return "ack"
            if bb in nacks:
                return "nack"
            return None
        if not starts:
            out.undecided(key, prog.loc(did), "outcome branches not recognised")
            continue
        ok = True
        for label, (start, success) in sorted(starts.items()):
            labels = const_walk(bi, start, stop)
            want = {"ack"} if success else {"nack"}
            if labels != want:
                ok = False
                out.violation(key + ":" + label.split(" ")[0], bi.loc(start), "when the push ends with `%s` the dispatch reaches %s instead of exactly %s"
                              % (label, sorted(labels) or "nothing", sorted(want)))
        # never both
        both = any(bi.cfg.can_reach(a, n) for a in acks for n in nacks) or any(bi.cfg.can_reach(n, a) for a in acks for n in nacks)
        if both:
            ok = False
            out.violation(key + ":both", bi.loc(acks[0]), "a path acknowledges and nacks the same delivery")
        if ok:
            out.holds(key, bi.loc(http.poll_bb), "success statuses -> ack; other statuses and transport errors -> nack; never both, never neither")
        # the ack / nack use this delivery's ack id
        for bb in acks + nacks:
            s = sl.of(did, bi.call_at(bb).args[1])
            k2 = "%s:own-ack-id@%s" % (prog.short(did), "ack" if bb in acks else "nack")
            if any(c.endswith("PulledMessage::ack_id") for c in s.calls) or (A.ty("PulledMessage"), "ack_id") in s.fields:
                out.holds(k2, bi.loc(bb), "uses the ack id of the pushed delivery")
            else:
                out.violation(k2, bi.loc(bb), "the id used is not the pushed delivery's ack id")


@rule("C14", "R14.3", "only registered push subscriptions are posted to, at their registered endpoint", floor=4)
def r14_3(prog, out):
    R = roles(prog)
    A = prog.anchors
    sl = Slicer(prog)
    reg = A.cell("PushRegistryState", "push_subscriptions")
    # (1) HTTP requests are only issued from the dispatch, which is only reachable from the push round
    ds = set(dispatch_body(prog))
    for b in prog.facts.lib_bodies():
        bi = prog.info(b.id)
        for bb, t in bi.calls(lambda c: c.path in ("reqwest::RequestBuilder::send", "reqwest::Client::execute", "reqwest::Client::post", "reqwest::Client::request")):
            key = "http-site:%s:%s" % (prog.short(b.id), t.callee.path.split("::")[-1])
            if b.id in ds:
                out.holds(key, bi.loc(bb), "inside the push dispatch")
            else:
                out.violation(key, bi.loc(bb), "an HTTP request is issued outside the push dispatch")
    # (2) the round iterates over the registry's entries and looks each subscription up
    rounds = []
    for b in prog.facts.lib_bodies():
        if not b.coroutine:
            continue
        bi = prog.info(b.id)
        ent = [bb for bb, t in bi.calls(lambda c: (c.impl_self or "") == A.ty("PushRegistry") or c.target.startswith(A.ty("PushRegistry") + "::"))]
        if not ent:
            # the registry is read by code written (or spliced) into the round itself
            ent = [e.bb for e in prog.effects(b.id) if e.touches(reg) and e.kind in ("read", "iter", "handle", "read_first", "read_last") or
                   (e.touches(reg) and e.lib.split("::")[-1] in ("iter", "values", "keys", "get", "into_iter"))]
        sp = [s for s in bi.spawns if s.task and ds & set(prog.cone(s.task, follow=("call", "closure", "poll", "spawn")))]
        where = b.id
        if ent and not sp:
            # the round is an iterator chain: the spawn sits in a closure handed to for_each / map
            for cid in prog.facts.descendants(b.id):
                cb = prog.facts.body(cid)
                if cb is None or cb.coroutine:
                    continue
                csp = [s for s in prog.info(cid).spawns if s.task and ds & set(prog.cone(s.task, follow=("call", "closure", "poll", "spawn")))]
                if csp:
                    sp, where = csp, cid
        if ent and sp:
            rounds.append((b.id, ent, sp, where))
    if not rounds:
        out.violation("push-round", "", "no push round found that reads the registry and spawns dispatches: registered subscriptions are never pushed")
    for bid, ent, sp, where in rounds:
        bi = prog.info(bid)
        key = "round-over-registry:%s" % prog.short(bid)
        if where != bid:
            # spawn inside a closure of the round: what the task is built from, resolved through the closure's captures and
            # the element the adapter hands it
            wi = prog.info(where)
            t = wi.call_at(sp[0].bb)
            s = sl.of_resolved(where, t.args[-1])
            chain_calls = {c for bb2, t2 in bi.calls() for c in [t2.callee.path]}
            from_registry = any(c.startswith(A.ty("PushRegistry") + "::") for c in s.calls | {t2.callee.target or "" for bb2, t2 in bi.calls()}) or reg in s.fields
            looked_up = any(c.endswith("SubscriptionManager::get_subscription") for c in s.calls) or any(
                (t3.callee.target or "").endswith("SubscriptionManager::get_subscription") for cid3 in prog.facts.descendants(bid) if prog.info(cid3) is not None
                for bb3, t3 in prog.info(cid3).calls())
            if looked_up and from_registry:
                out.holds(key, wi.loc(sp[0].bb), "each dispatch task is built from a registry entry and a manager lookup of that name (iterator form)")
            else:
                out.violation(key, wi.loc(sp[0].bb), "the pushed subscriptions are not taken from the push registry")
            continue
        # the spawn's subscription argument derives from a manager lookup keyed by a registry entry
        t = bi.call_at(sp[0].bb)
        s = sl.of(bid, t.args[-1])
        from_registry = any(c.startswith(A.ty("PushRegistry") + "::") for c in s.calls) or reg in s.fields
        # .. read in THIS round: the collection the round iterates over may not be carried over from an earlier iteration of
        # the push loop (a copy kept "until the registry changes" pushes to subscriptions that were deleted or re-created since)
        stale = None
        outer = sorted(bi.cfg.in_loop(sp[0].bb), key=lambda h: -len(bi.cfg.loops()[h]))
        if outer:
            h0 = outer[0]
            lb = bi.cfg.loops()[h0]
            for nbb, nt in bi.calls(lambda c: c.path == "std::iter::Iterator::next"):
                if nbb not in lb or not nt.args or (bid, nbb) not in s.sites:
                    continue
                o = bi.trace(nt.args[0])
                # step through the iterator construction to the collection
                for _ in range(4):
                    if o.kind == "call" and bi.call_at(o.data).callee is not None and bi.call_at(o.data).callee.path.split("::")[-1] in (
                            "into_iter", "iter", "iter_mut", "by_ref", "drain") and bi.call_at(o.data).args:
                        o = bi.trace(bi.call_at(o.data).args[0])
                    else:
                        break
                if o.kind == "local" and isinstance(o.data, int) and not o.path:
                    defs = bi.defs.get(o.data, [])
                    outside = [d for d in defs if d[0] not in lb]
                    inside = {d[0] for d in defs if d[0] in lb}
                    if outside and bi.cfg.path(h0, {nbb}, avoid=inside) is not None:
                        stale = (nbb, o.data)
        if stale is not None:
            out.violation(key + ":fresh", bi.loc(stale[0]), "the push round iterates over a collection that is carried over from earlier rounds and only refreshed on some "
                          "paths (`%s`): a subscription that was deleted, or re-created without a push endpoint, is still POSTed to" % (bi.body.local_name(stale[1]) or "_%d" % stale[1]))
        if any(c.endswith("SubscriptionManager::get_subscription") for c in s.calls) and from_registry:
            out.holds(key, bi.loc(sp[0].bb), "each dispatch task is built from a registry entry and a manager lookup of that name")
        else:
            out.violation(key, bi.loc(sp[0].bb), "the pushed subscriptions are not taken from the push registry (%s)" % sorted(c.split("::")[-1] for c in s.calls)[:6])
    # (3) registry writes: insert only at actor start under push_config.is_some(); removed by the delete flow
    for b in prog.facts.lib_bodies():
        bi = prog.info(b.id)
        for bb, t in bi.calls(lambda c: c.target == A.ty("PushRegistry") + "::set"):
            key = "registry-write:%s" % prog.short(b.id)
            o = bi.trace(t.args[2]) if len(t.args) > 2 else None
            is_none = o is not None and o.kind == "agg" and bi.agg_at(o.data).j.get("variant") == "None"
            if is_none:
                out.holds(key + ":unregister", bi.loc(bb), "unregisters the subscription")
            else:
                s = sl.of(b.id, t.args[2])
                if (A.ty("SubscriptionInfo"), "push_config") in s.fields:
                    out.holds(key + ":register", bi.loc(bb), "registers the subscription's own push_config")
                else:
                    out.violation(key + ":register", bi.loc(bb), "a subscription is registered for push with something else than its own push_config")
                # only on the path on which the subscription is really created: under the vacant arm of the manager's name lookup
                k3 = key + ":only-when-created"
                submap = A.cell("SubState", "subscriptions")
                creators = [x.id for x in prog.facts.lib_bodies() if any(e.touches(submap) and e.kind in L.INSERT_KINDS and not e.chain for e in prog.effects(x.id))]
                ok = False
                for cid in creators:
                    ci = prog.info(cid)
                    from mapstate import regions
                    vac, _present = regions(prog, ci, submap, through_wrappers=True)
                    reg = A.cell("PushRegistryState", "push_subscriptions")
                    for e in prog.effects(cid):
                        if e.touches(reg) and e.kind in L.INSERT_KINDS and any(cb == b.id for cb, _ in e.chain) and e.bb in vac:
                            ok = True
                    if cid == b.id and bb in vac:
                        ok = True           # the registration is written (or spliced) into the creating body itself, under the vacant arm
                if ok:
                    out.holds(k3, bi.loc(bb), "reached only under the vacant arm of the manager's name lookup")
                elif any(cid != b.id and b.id in prog.cone(cid, follow=("call", "closure", "poll")) and
                         not any(e.touches(A.cell("PushRegistryState", "push_subscriptions")) and e.kind in L.INSERT_KINDS and any(cb == b.id for cb, _ in e.chain)
                                 for e in prog.effects(cid)) for cid in creators):
                    out.undecided(k3, bi.loc(bb), "the function that inserts into the manager's name map reaches this registration only through a callback it hands to a "
                                  "container (a closure called by generic code): whether the registration is confined to the arm that creates is not decided")
                else:
                    out.violation(k3, bi.loc(bb), "a push registration can happen for a CreateSubscription that is then rejected (the name is taken): the existing "
                                  "subscription of that name is pushed to the endpoint of the rejected request")
    actor, vname, tid = delete_flow(prog)
    did = effect_body(prog, tid)
    di = prog.info(did)
    rem = {e.bb for e in prog.effects(did) if e.touches(reg) and e.kind in L.REMOVE_KINDS}
    key = "delete-unregisters"
    allowed = error_blocks(di) | R.flag_true_blocks(di, R.deleted)
    if rem and di.cfg.escapes(0, rem | allowed, after=False) is None:
        out.holds(key, di.loc(sorted(rem)[0]), "the delete flow removes the registry entry on every successful path")
    else:
        out.violation(key, prog.loc(did), "a deleted subscription can stay in the push registry")
    # (4) endpoint provenance
    for d in ds:
        bi = prog.info(d)
        for bb, t in bi.calls(lambda c: c.path in ("reqwest::Client::request", "reqwest::Client::post")):
            s = sl.of_resolved(d, t.args[-1])
            key = "endpoint:%s" % prog.short(d)
            if (A.ty("PushConfig"), "endpoint") in s.fields:
                out.holds(key, bi.loc(bb), "URL = the registered PushConfig.endpoint")
            else:
                out.violation(key, bi.loc(bb), "the URL posted to is not the subscription's registered endpoint")
            if t.callee.path.endswith("::request"):
                m = bi.trace(t.args[1])
                k2 = "method:%s" % prog.short(d)
                if m.kind == "const" and "POST" in str(m.data):
                    out.holds(k2, bi.loc(bb), "method POST")
                else:
                    out.violation(k2, bi.loc(bb), "the push request does not use POST (%r)" % m)


@rule("C14", "R14.4", "pushing stops when the subscription is deleted", floor=2)
def r14_4(prog, out):
    A = prog.anchors
    found = 0
    for b in prog.facts.lib_bodies():
        if not b.coroutine or not b.id.startswith("crate::push::"):
            continue
        bi = prog.info(b.id)
        for a in bi.awaits:
            if a.select is None:
                continue
            if any(br.fut_ty == A.ty("Deleted") for br in a.select.branches):
                found += 1
                other = [br for br in a.select.branches if br.fut_ty != A.ty("Deleted")]
                key = "round-races-deletion:%s" % prog.short(b.id)
                out.holds(key, bi.loc(a.poll_bb), "the per-subscription round is raced against the deletion signal")
    if not found:
        out.violation("round-races-deletion", "", "a push round is not interrupted when its subscription is deleted")
    # lookup failure => skip
    for b in prog.facts.lib_bodies():
        if not b.id.startswith("crate::push::"):
            continue
        bi = prog.info(b.id)
        if not b.coroutine:
            for bb, t in bi.calls(lambda c: c.target.endswith("SubscriptionManager::get_subscription")):
                out.undecided("lookup-miss-skips:%s" % prog.short(b.id), bi.loc(bb), "the lookup happens inside a closure: what a miss leads to is decided by its caller")
            continue
        for bb, t in bi.calls(lambda c: c.target.endswith("SubscriptionManager::get_subscription")):
            key = "lookup-miss-skips:%s" % prog.short(b.id)
            # on the Err arm no dispatch is spawned
            res = t.dest.local
            sw = bi.body.blocks[t.target].term
            arms = dict(sw.arms) if sw.k == "switch" else {}
            err = arms.get(1)
            sp = [s.bb for s in bi.spawns]
            if err is not None and not any(bi.cfg.can_reach(bi._skip_false(err), s, avoid={bb}) for s in sp):
                out.holds(key, bi.loc(bb), "a registry entry whose subscription is gone is skipped")
            elif err is None:
                out.undecided(key, bi.loc(bb), "lookup result not matched directly")
            else:
                out.violation(key, bi.loc(bb), "a dispatch is started although the subscription lookup failed")


@rule("C09", "R14.5", "push payload: base64 data, message id, attributes and the subscription's name", floor=5)
@rule("C14", "R14.5", "push payload: base64 data, message id, attributes and the subscription's name", floor=5)
def r14_5(prog, out):
    A = prog.anchors
    sl = Slicer(prog)
    tm = A.ty("TopicMessage")
    for (bid, bb, i, rv) in c09.wire_constructions(prog, A.ty("PushPayloadMessage")):
        names = rv.j["fields"]
        for f, src in (("data", "data"), ("attributes", "attributes"), ("message_id", "id"), ("message_id_dupe", "id")):
            if f in names:
                c09.provenance_check(prog, out, sl, "PushPayloadMessage", bid, bb, f, rv.ops[names.index(f)], (tm, src))
        s = sl.of(bid, rv.ops[names.index("data")])
        key = "%s:data-base64" % prog.short(bid)
        if any(c.endswith("Engine::encode") for c in s.calls):
            engines = sorted(str(c) for c in s.consts if "base64" in str(c))
            if engines and all(e.split("::")[-1] == "STANDARD" for e in engines):
                out.holds(key, prog.loc(bid, bb), "data is base64-encoded with the standard alphabet")
            elif engines:
                out.violation(key, prog.loc(bid, bb), "push data is encoded with %s instead of standard base64: payloads containing the 6-bit groups 62/63 "
                              "do not decode to the published bytes at the endpoint" % engines[0].split("::")[-1])
            else:
                out.undecided(key, prog.loc(bid, bb), "base64 engine not recognised")
        else:
            out.violation(key, prog.loc(bid, bb), "data is not base64-encoded in the push payload")
    n = 0
    for (bid, bb, i, rv) in c09.wire_constructions(prog, A.ty("PushPayload")):
        n += 1
        names = rv.j["fields"]
        s = sl.of(bid, rv.ops[names.index("subscription")])
        key = "%s:subscription-name" % prog.short(bid)
        if (A.ty("Subscription"), "name") in s.fields:
            out.holds(key, prog.loc(bid, bb), "subscription <- Subscription.name")
        else:
            out.violation(key, prog.loc(bid, bb), "the payload does not name the subscription it is pushed for")
    if not n:
        raise CheckBroken("PushPayload construction not found")


@rule("C14", "R14.6", "every dispatch future is driven to completion", floor=1)
def r14_6(prog, out):
    ds = set(dispatch_body(prog))
    found = 0
    for b in prog.facts.lib_bodies():
        if not b.coroutine:
            continue
        bi = prog.info(b.id)
        # spawns whose task type mentions the dispatch coroutine
        def drives(sp):
            if any(d in (sp.task_ty or "") for d in ds):
                return True
            # a wrapper task around the (shared) dispatch future: it awaits the dispatch on every path to its end
            if sp.task is None:
                return False
            ti = prog.info(sp.task)
            if ti is None:
                return False
            aw = [a for a in ti.awaits if any(d in (a.fut_ty or "") for d in ds) and a.select is None]
            if bool(aw) and ti.cfg.escapes(0, {a.poll_bb for a in aw}, after=False) is None:
                return True
            # a whole push round spawned as a task: the dispatches run (and are acked / nacked) inside it
            return bool(ds & set(prog.cone(sp.task, follow=("call", "closure", "poll", "spawn-joinset", "spawn"))))
        sps = [s for s in bi.spawns if drives(s)]
        for sp in sps:
            found += 1
            key = "dispatch-driven:%s" % prog.short(b.id)
            if sp.kind == "joinset":
                joins = [a for a in bi.awaits if await_class(prog, bi, a) == "join_next"]
                # drained: every way on from the spawn passes the `None` answer of join_next (the set is empty), not merely
                # one join_next -- a JoinSet that is dropped with tasks in it aborts them
                from mapstate import presence_switches
                empty_set = set()
                for j in joins:
                    if j.result_local is None:
                        continue
                    for sw, some_t, none_t in presence_switches(bi, None, "option", local=j.result_local):
                        if none_t is not None and none_t != "self":
                            empty_set |= bi.cfg.edge_dominated(sw, none_t)
                if joins and empty_set and bi.cfg.escapes(sp.bb, empty_set) is None:
                    out.holds(key, bi.loc(sp.bb), "spawned into a JoinSet that is drained before the round ends")
                else:
                    out.violation(key, bi.loc(sp.bb), "dispatch tasks are spawned into a JoinSet that is dropped without being drained: in-flight pushes are aborted before ack/nack")
            else:
                out.holds(key, bi.loc(sp.bb), "detached task (runs to completion)")
    if not found:
        # dispatch awaited inline?
        for b in prog.facts.lib_bodies():
            if b.coroutine and any(prog.body_of_type(b, a.fut_ty) in ds for a in prog.info(b.id).awaits):
                found += 1
                out.holds("dispatch-driven:%s" % prog.short(b.id), prog.loc(b.id), "dispatch awaited inline")
    if not found:
        out.violation("dispatch-driven", "", "dispatch futures are created but never polled")


@rule("C14", "R14.7", "an actor releases its name in the manager last: everything else registered under the name is removed first", floor=1)
@rule("C10", "R14.7", "an actor releases its name in the manager last: everything else registered under the name is removed first", floor=1)
def r14_7(prog, out):
    """Once the manager map no longer holds the name, a new subscription may be created under it -- on another thread, at once --
    and register itself for push under the same name.  A by-name clean-up that the *old* incarnation performs after that point
    (`push_registry.set(name, None)`) hits the new incarnation's entry: the new push subscription exists but is never pushed
    to.  In every body that removes the actor's name from the manager map, no effect on another registry keyed by that name
    may come after the removal."""
    R = roles(prog)
    A = prog.anchors
    reg = A.cell("PushRegistryState", "push_subscriptions")
    n = 0
    for actor, cell in ((R.sub_actor, A.cell("SubState", "subscriptions")),):
        for vname in actor.variants:
            for tid in R.variant_targets(actor, vname):
                effs = prog.effects(tid)
                rel = [e for e in effs if e.touches(cell) and e.kind in L.REMOVE_KINDS]
                if not rel:
                    continue
                n += 1
                bi = prog.info(tid)
                key = "name-released-last:%s" % prog.short(tid)
                side = [e for e in effs if e.touches(reg) and e.kind in (L.REMOVE_KINDS | L.INSERT_KINDS | {"clear", "write"})]
                late = [(r, x) for r in rel for x in side if x.bb != r.bb and bi.cfg.can_reach(r.bb, x.bb)]
                if late:
                    r, x = late[0]
                    out.violation(key, bi.loc(x.bb), "the push registry entry of this name is changed after the name was released in the manager (%s): a subscription "
                                  "re-created under the name in between loses its registration and is never pushed to" % bi.loc(r.bb),
                                  ["name released at %s" % bi.loc(r.bb), "registry %s at %s" % (x.kind, bi.loc(x.bb))])
                elif side:
                    out.holds(key, bi.loc(rel[0].bb), "the push registration is removed before the name is released")
                else:
                    out.holds(key, bi.loc(rel[0].bb), "no other by-name registration is touched here", nontrivial=False)
    if n == 0:
        raise CheckBroken("no subscription handler releases the name in the manager")
