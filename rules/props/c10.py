"""C10 — topic and subscription namespaces behave as atomic maps."""
from engine import rule, CheckBroken
from actorlib import roles
from slicing import Slicer
from common import short_ty, await_class
from props.c12 import status_codes_in_cone, error_blocks
import libmodel as L

REQUIRED_ROWS = {
    "AlreadyExists": "ALREADY_EXISTS",
    "DoesNotExist": "NOT_FOUND",
    "TopicDoesNotExist": "NOT_FOUND",
    "MustBeInSameProjectAsTopic": "INVALID_ARGUMENT",
}


def manager_maps(prog):
    A = prog.anchors
    return [("topics", A.cell("TopicState", "topics"), A.ty("TopicState")), ("subscriptions", A.cell("SubState", "subscriptions"), A.ty("SubState"))]


@rule("C10", "R10.1", "create: existence check and insert happen on the same map under one write guard", floor=2)
def r10_1(prog, out):
    for label, cell, state_ty in manager_maps(prog):
        inserters = []
        for b in prog.facts.lib_bodies():
            effs = [e for e in prog.effects(b.id) if not e.chain and e.touches(cell) and e.kind in L.INSERT_KINDS]
            if effs:
                inserters.append((b.id, effs))
        if not inserters:
            raise CheckBroken("no body inserts into the %s map" % label)
        for bid, effs in inserters:
            bi = prog.info(bid)
            key = "check-and-insert:%s:%s" % (label, prog.short(bid))
            tests = [e for e in prog.effects(bid) if not e.chain and e.touches(cell) and (e.kind in ("handle", "read")) and e.lib.split("::")[-1] in ("entry", "contains_key", "get")]
            ins = effs[0]
            if not tests:
                out.violation(key, bi.loc(ins.bb), "a %s is inserted without testing whether the name is already taken: create overwrites an existing resource" % label[:-1])
                continue
            if not any(bi.cfg.dominates(t.bb, ins.bb) for t in tests):
                out.violation(key, bi.loc(ins.bb), "the existence test does not precede the insert")
                continue
            # insert through the vacant entry of the same lookup, or a plain insert dominated by the test in the same body
            out.holds(key, bi.loc(ins.bb), "existence test and insert in one body on the same map")
            # callers hold exactly one write guard around the call
            root = bi.body.root or bid
            for cid, cb in prog.facts.bodies.items():
                ci = prog.info(cid)
                for cbb, t in ci.calls(lambda c: prog.qual(cb, c.target) == root):
                    k2 = "one-guard:%s:%s" % (label, prog.short(cid))
                    o = prog.receiver_origin(ci, t.args[0])
                    locks = [(v_bb, p) for (v_bb, p) in o.via if p in L.LOCK_ACQUIRE]
                    n_locks = len([1 for bb2, mode, oo, g in prog.lock_sites(cid)])
                    if len(locks) == 1 and L.LOCK_ACQUIRE[locks[0][1]] == "write":
                        live = prog.guard_live_blocks(cid, locks[0][0], ci.body.blocks[locks[0][0]].term.dest.local)
                        if cbb in live:
                            out.holds(k2, ci.loc(cbb), "called under a single write guard that is still held")
                        else:
                            out.violation(k2, ci.loc(cbb), "the write guard is released before the check-and-insert runs")
                    elif locks:
                        out.violation(k2, ci.loc(cbb), "check-and-insert runs under a %s guard" % L.LOCK_ACQUIRE[locks[0][1]])
                    else:
                        out.undecided(k2, ci.loc(cbb), "receiver is not a lock guard (%r)" % o)
        # removals only under a write guard (type enforced through &mut; recorded)
    # split check-then-insert across two lock acquisitions in the manager front-ends
    A = prog.anchors
    for mgr in ("TopicManager", "SubscriptionManager"):
        ty = A.ty(mgr)
        for b in prog.facts.lib_bodies():
            rb = prog.facts.body(b.root) if b.root else b
            if (b.impl_self or (rb.impl_self if rb else None)) != ty:
                continue
            sites = prog.lock_sites(b.id)
            writes = [s for s in sites if s[1] == "write"]
            reads = [s for s in sites if s[1] == "read"]
            if writes and reads:
                out.violation("split-guard:%s" % prog.short(b.id), prog.loc(b.id, reads[0][0]), "%s takes a read guard and later a write guard: a racing create can slip in between the check and the insert" % prog.short(b.id))


def error_closures(prog):
    """closures fn(crate::..Error) -> tonic::Status"""
    out = []
    for b in prog.facts.lib_bodies():
        if b.kind != "Closure" or b.coroutine or b.arg_count != 2:
            continue
        pty = b.local_ty(2)
        if pty.startswith("crate::") and pty.endswith("Error") and b.local_ty(0) == "tonic::Status":
            out.append(b.id)
    return out


def first_status(prog, bi, start):
    """status codes constructed in the blocks dominated by `start`"""
    codes = set()
    for x in bi.cfg.reach:
        if not bi.cfg.dominates(start, x):
            continue
        t = bi.body.blocks[x].term
        if t.k == "call" and t.callee is not None:
            if t.callee.path in L.STATUS_CTORS:
                codes.add(L.STATUS_CTORS[t.callee.path])
            elif t.callee.local or t.callee.res_local:
                dst = prog.qual(bi.body, t.callee.target)
                if prog.facts.body(dst) is not None and not prog.facts.body(dst).coroutine:
                    codes |= status_codes_in_cone(prog, dst)
    return codes


@rule("C10", "R10.2", "error -> status table: AlreadyExists, DoesNotExist and the same-project error map to their gRPC codes everywhere", floor=8)
def r10_2(prog, out):
    rows = 0
    seen_rows = set()

    def judge(bid, ety, table, site):
        nonlocal rows
        for v, codes in table.items():
            want = REQUIRED_ROWS.get(v)
            if want is None:
                continue
            b = prog.facts.body(bid)
            key = "%s:%s::%s" % (prog.short(b.root or bid), short_ty(ety), v)
            n = 1
            while key in seen_rows:
                n += 1
                key = "%s:%s::%s#%d" % (prog.short(b.root or bid), short_ty(ety), v, n)
            seen_rows.add(key)
            rows += 1
            if codes == {want}:
                out.holds(key, site, "%s -> %s" % (v, want))
            elif not codes:
                out.undecided(key, site, "no status constructor found for %s" % v)
            else:
                out.violation(key, site, "%s::%s is answered with %s, the property requires %s" % (short_ty(ety), v, sorted(codes), want))

    def is_error_enum(ty):
        return bool(ty) and ty.startswith("crate::") and ty.endswith("Error") and prog.facts.adt(ty) is not None

    closures_with_switch = set()
    # every `match` on one of the crate's error enums -- in a map_err closure or spelled out in the handler
    for b in prog.facts.lib_bodies():
        if b.file.startswith("/") or not b.file.startswith("src/api/"):
            continue
        bi = prog.info(b.id)
        for blk in b.blocks:
            if blk.cleanup or blk.idx not in bi.cfg.reach:
                continue
            t = blk.term
            if t.k != "switch":
                continue
            for st in blk.stmts:
                if st.k == "assign" and st.rv.k == "discr" and t.discr is not None and t.discr.place is not None and st.lhs.is_local() \
                        and st.lhs.local == t.discr.place.local:
                    ety = b.place_ty(st.rv.place)
                    ety = ety[1:] if ety and ety.startswith("&") else ety
                    if not is_error_enum(ety):
                        continue
                    vnames = [v["name"] for v in prog.facts.adt(ety)["variants"]]
                    a, other = dict(t.arms), t.otherwise
                    table = {}
                    for i, v in enumerate(vnames):
                        tgt = a.get(i, other)
                        table[v] = first_status(prog, bi, bi._skip_false(tgt)) if tgt is not None else set()
                    if b.kind == "Closure":
                        closures_with_switch.add(b.id)
                    judge(b.id, ety, table, bi.loc(blk.idx))
    # closures fn(Error) -> Status that do not look at the variant: every variant gets the same answer
    for cid in error_closures(prog):
        if cid in closures_with_switch:
            continue
        ci = prog.info(cid)
        ety = ci.body.local_ty(2)
        adt = prog.facts.adt(ety)
        if adt is None:
            continue
        codes = first_status(prog, ci, 0)
        judge(cid, ety, {v["name"]: codes for v in adt["variants"]}, prog.loc(cid))
    # the helper used by most handlers (get_subscription / get_topic_internal): same table through fn bodies
    if rows < 8:
        raise CheckBroken("expected >= 8 rows of the error table, found %d" % rows)


@rule("C10", "R10.3", "nothing is created when a create request is rejected", floor=2)
@rule("C17", "R10.3", "nothing is created when a create request is rejected", floor=2)
def r10_3(prog, out):
    A = prog.anchors
    submap = A.cell("SubState", "subscriptions")
    # manager flow: the same-project test precedes the insert
    mgr = None
    for b in prog.facts.lib_bodies():
        rb = prog.facts.body(b.root) if b.root else b
        if (b.impl_self or (rb.impl_self if rb else None)) == A.ty("SubscriptionManager") and any(
                e.touches(submap) and e.kind in L.INSERT_KINDS for e in prog.effects(b.id)) and b.kind != "AssocFn":
            mgr = b.id
    if mgr is None:
        for b in prog.facts.lib_bodies():
            if b.impl_self == A.ty("SubscriptionManager") and any(e.touches(submap) and e.kind in L.INSERT_KINDS for e in prog.effects(b.id)):
                mgr = b.id
    if mgr is None:
        raise CheckBroken("manager create-subscription body not found")
    mi = prog.info(mgr)
    ins = [e.bb for e in prog.effects(mgr) if e.touches(submap) and e.kind in L.INSERT_KINDS]
    proj = [bb for bb, t in mi.calls(lambda c: c.target.endswith("::is_in_project"))]
    key = "same-project-before-insert:%s" % prog.short(mgr)
    if not proj:
        out.violation(key, prog.loc(mgr), "the same-project rule is not checked when a subscription is created")
    elif all(mi.cfg.dominates(p, i) for p in proj for i in ins):
        # the rejecting arm returns Err without reaching the insert
        out.holds(key, mi.loc(proj[0]), "project check dominates the insert; the rejecting arm returns before anything is created")
    else:
        out.violation(key, mi.loc(ins[0]), "the subscription is inserted before the same-project rule is checked: a rejected create leaves a subscription behind")
    # after the insert (the commit point) the remaining steps must not be able to say no: the attach handler is infallible,
    # or the flow removes the entry again on its error path
    R = roles(prog)
    attach = R.attach_variant()
    for tid in R.variant_targets(R.topic_actor, attach):
        ti = prog.info(tid)
        errs = [blk.idx for blk in ti.body.blocks if not blk.cleanup and any(
            s.k == "assign" and s.rv.k == "agg" and s.rv.j.get("variant") == "Err" and s.rv.j.get("adt") == "std::result::Result" for s in blk.stmts)]
        rollback = any(e.touches(submap) and e.kind in L.REMOVE_KINDS for e in prog.effects(mgr))
        key = "attach-cannot-refuse:%s" % prog.short(tid)
        if errs and not rollback:
            out.violation(key, ti.loc(errs[0]), "the topic can refuse the attach of a subscription that is already registered in the manager, and the create flow has no "
                          "rollback: CreateSubscription fails but the subscription exists (get/list see it, a retry gets ALREADY_EXISTS)")
        else:
            out.holds(key, prog.loc(tid), "the attach handler always succeeds" if not errs else "the create flow rolls the registration back on failure")
    # handler: topic lookup precedes the create call
    h = prog.handler("create_subscription")
    hi = prog.info(h.root)
    gets = [bb for bb, t in hi.calls(lambda c: c.target.endswith("TopicManager::get_topic"))]
    creates = [a.poll_bb for a in hi.awaits if a.fut_ty and "create_subscription" in a.fut_ty]
    key = "topic-lookup-before-create"
    if gets and creates and all(hi.cfg.dominates(g, c) for g in gets for c in creates):
        out.holds(key, hi.loc(gets[0]), "NOT_FOUND for a missing topic is decided before the subscription is created")
    else:
        out.violation(key, prog.loc(h.root), "the subscription can be created before the topic lookup fails")


@rule("C10", "R10.4", "effect before reply: every actor answers a request only after its handler ran; delete removes the map entry before Ok", floor=11)
def r10_4(prog, out):
    A = prog.anchors
    for actor in prog.actors:
        di = prog.info(actor.dispatch)
        for vname, vh in sorted(actor.variants.items()):
            if not vh.has_responder:
                continue
            key = "reply-after-effect:%s::%s" % (short_ty(actor.request), vname)
            if not vh.calls:
                # inline handler (no separate method): accept if some call precedes the reply
                out.undecided(key, di.loc(vh.responder_bb), "variant is handled inline")
                continue
            last = vh.calls[-1][0]
            # async handlers are awaited: the await must complete before the reply as well
            aw = [a for a in di.awaits if a.origin is not None and a.origin.kind == "call" and a.origin.data == last]
            gate = aw[0].ready_bb if aw else last
            t = di.body.blocks[vh.responder_bb].term
            res_o = di.trace(t.args[1]) if len(t.args) > 1 else None
            if di.cfg.dominates(gate, vh.responder_bb):
                out.holds(key, di.loc(vh.responder_bb), "responder.send is dominated by the completed handler call")
            else:
                out.violation(key, di.loc(vh.responder_bb), "the reply to %s can be sent before the handler has run: a later request may not observe the effect" % vname)
    # delete handlers: manager map removal on every path to Ok
    R = roles(prog)
    for actor, cell, label in ((R.topic_actor, A.cell("TopicState", "topics"), "topic"), (R.sub_actor, A.cell("SubState", "subscriptions"), "subscription")):
        found = False
        for vname in actor.variants:
            for tid in R.variant_targets(actor, vname):
                rem = [e for e in prog.effects(tid) if e.touches(cell) and e.kind in L.REMOVE_KINDS]
                if not rem:
                    continue
                found = True
                bi = prog.info(tid)
                key = "delete-removes-entry:%s" % label
                flag = A.cell("TopicActor" if label == "topic" else "SubscriptionActor", "deleted", optional=True)
                allowed = R.flag_true_blocks(bi, flag) | error_blocks(bi)
                esc = bi.cfg.escapes(0, {e.bb for e in rem} | allowed, after=False)
                if esc is None:
                    out.holds(key, bi.loc(rem[0].bb), "every successful path of the delete handler removes the %s from the manager map" % label)
                else:
                    out.violation(key, bi.loc(esc[-1]), "delete can answer Ok while the %s is still in the manager map" % label, ["bb%d" % x for x in esc][:10])
        if not found:
            out.violation("delete-removes-entry:%s" % label, "", "no handler of the %s actor removes the manager map entry: deleted resources stay visible" % label)


@rule("C10", "R10.5", "a subscription read back reports the name, topic, effective deadline and push config it was created with", floor=5)
def r10_5_c10(prog, out):
    r10_5(prog, out)


@rule("C11", "R10.5", "a subscription read back reports its (weak) topic reference, or the deleted-topic sentinel", floor=3)
def r10_5_c11(prog, out):
    """C11 is about the topic a subscription reports; the other read-back fields are C10's"""
    from engine import Out
    tmp = Out(out.rid)
    r10_5(prog, tmp)
    out.items.extend(it for it in tmp.items if it.key.endswith(":topic"))


def r10_5(prog, out):
    A = prog.anchors
    sl = Slicer(prog)
    wire = "crate::pubsub_proto::Subscription"
    cons = [(bid, bb, i, rv) for (bid, bb, i, rv) in prog.constructions(wire) if not prog.facts.body(bid).file.startswith("/")]
    if not cons:
        raise CheckBroken("no construction of the Subscription resource found")
    req = {
        "name": (A.ty("Subscription"), "name"),
        "ack_deadline_seconds": (A.ty("SubscriptionInfo"), "ack_deadline"),
        "push_config": (A.ty("SubscriptionInfo"), "push_config"),
    }
    for (bid, bb, i, rv) in cons:
        bi = prog.info(bid)
        names = rv.j["fields"]
        for f, src in req.items():
            s = sl.of(bid, rv.ops[names.index(f)])
            key = "%s:%s" % (prog.short(bid), f)
            if s.reads(src):
                out.holds(key, bi.loc(bb), "%s <- %s.%s" % (f, short_ty(src[0]), src[1]))
            else:
                out.violation(key, bi.loc(bb), "the %s reported for a subscription is not derived from its stored %s.%s (%s)"
                              % (f, short_ty(src[0]), src[1], sorted(x[0].split('::')[-1] + '.' + x[1] for x in s.fields)[:4] or sorted(map(str, s.consts))[:3]))
        s = sl.of(bid, rv.ops[names.index("topic")])
        key = "%s:topic" % prog.short(bid)
        if s.reads((A.ty("Subscription"), "topic")) and any("Weak" in c and "upgrade" in c for c in s.calls) and any("_deleted_topic_" in str(c) for c in s.consts):
            out.holds(key, bi.loc(bb), "topic <- upgrade of the weak topic reference, or the deleted-topic sentinel")
        else:
            out.violation(key, bi.loc(bb), "the reported topic is not the subscription's (weak) topic reference with the deleted sentinel")
        # push config fields
    for (bid, bb, i, rv) in [(a, b, c, d) for (a, b, c, d) in prog.constructions("crate::pubsub_proto::PushConfig") if not prog.facts.body(a).file.startswith("/")]:
        bi = prog.info(bid)
        names = rv.j["fields"]
        for f, src in (("push_endpoint", "endpoint"), ("attributes", "attributes")):
            s = sl.of(bid, rv.ops[names.index(f)])
            key = "%s:push_config.%s" % (prog.short(bid), f)
            if s.reads((A.ty("PushConfig"), src)):
                out.holds(key, bi.loc(bb), "%s <- PushConfig.%s" % (f, src))
            else:
                out.violation(key, bi.loc(bb), "push_config.%s read back is not the stored %s" % (f, src))
    # SubscriptionInfo is immutable -- except that the push config may be *replaced by one a client supplied* (ModifyPushConfig:
    # the value written is the payload of the actor request being handled, nothing the server computes)
    for f in ("name", "ack_deadline", "push_config"):
        cell = A.cell("SubscriptionInfo", f)
        ws = [(b, e) for b in prog.facts.bodies for e in prog.effects(b) if e.kind in ("write", "take") and not e.chain and e.touches(cell)]
        bad = []
        for (b, e) in ws:
            if f == "push_config" and e.kind == "write" and e.extra:
                wi = prog.info(b)
                st = wi.stmt(*e.extra)
                if st is not None and st.k == "assign" and st.rv.ops:
                    sv = sl.of(b, st.rv.ops[0])
                    pb = prog.facts.body(b)
                    rootb = prog.facts.body(pb.root) if pb.root else pb
                    in_actor = (pb.impl_self or (rootb.impl_self if rootb else None)) == A.ty("SubscriptionActor")
                    from_request = bool(sv.roots) and all(r[0] in ("param", "upvar") for r in sv.roots) and not sv.calls - {c for c in sv.calls if c.split("::")[-1] in
                                                                                                                 ("clone", "into", "from", "take", "map", "filter", "is_empty", "as_ref", "cloned", "deref")}
                    if in_actor and from_request:
                        out.holds("info-replaced:%s:%s" % (f, prog.short(b)), prog.loc(b, e.bb), "replaced only by the push config carried by the request being handled")
                        continue
            bad.append((b, e))
        if bad:
            out.violation("info-immutable:%s" % f, prog.loc(bad[0][0], bad[0][1].bb), "SubscriptionInfo.%s is modified after creation" % f)
    out.holds("info-immutable", "", "SubscriptionInfo fields are only set at construction (or, for the push config, replaced by a client-supplied one)")


@rule("C10", "R10.6", "a handle method returns only after the actor has answered (the effect is applied when the call returns)", floor=11)
@rule("C01", "R10.6", "a handle method returns only after the actor has answered (the effect is applied when the call returns)", floor=11)
@rule("C02", "R10.6", "a handle method returns only after the actor has answered (the effect is applied when the call returns)", floor=11)
@rule("C05", "R10.6", "a handle method returns only after the actor has answered (the effect is applied when the call returns)", floor=11)
@rule("C11", "R10.6", "a handle method returns only after the actor has answered (the effect is applied when the call returns)", floor=11)
def r10_6(prog, out):
    for actor in prog.actors:
        adt = prog.facts.adt(actor.request)
        for v in adt["variants"]:
            if not any(f["name"] == "responder" or f["ty"].startswith("tokio::sync::oneshot::Sender<") for f in v["fields"]):
                continue
            cons = prog.constructions(actor.request, v["name"])
            if not cons:
                out.undecided("reply-awaited:%s::%s" % (short_ty(actor.request), v["name"]), "", "request variant is never built")
                continue
            for (bid, bb, i, rv) in cons:
                bi = prog.info(bid)
                key = "reply-awaited:%s::%s:%s" % (short_ty(actor.request), v["name"], prog.short(bid))
                names = rv.j["fields"]
                ridx = [k for k, f in enumerate(v["fields"]) if f["ty"].startswith("tokio::sync::oneshot::Sender<")]
                o = bi.trace(rv.ops[ridx[0]]) if ridx else None
                if o is None or o.kind != "call" or bi.call_at(o.data).callee.path != "tokio::sync::oneshot::channel":
                    out.undecided(key, bi.loc(bb), "responder does not come from a oneshot::channel() of this body (%r)" % o)
                    continue
                chan = o.data
                waits = [a for a in bi.awaits if await_class(prog, bi, a) == "oneshot_recv" and a.origin is not None and a.origin.kind == "call" and a.origin.data == chan]
                if not waits:
                    out.violation(key, bi.loc(bb), "%s::%s is sent but its reply is never awaited: the call returns before the actor has applied the request, "
                                  "so a caller can observe (or rely on) an effect that has not happened yet" % (short_ty(actor.request), v["name"]))
                    continue
                errs = error_blocks(bi)
                # from the request's construction every successful path passes the reply
                esc = bi.cfg.escapes(bb, {w.ready_bb for w in waits if w.ready_bb is not None} | errs)
                if esc is None:
                    out.holds(key, bi.loc(waits[0].poll_bb), "every successful return follows the actor's reply")
                else:
                    out.violation(key, bi.loc(esc[-1]), "a path returns successfully without waiting for the actor's reply to %s" % v["name"],
                                  ["bb%d (%s)" % (x, bi.loc(x)) for x in esc][:8])


@rule("C10", "R10.7", "a handle method never answers without asking the actor (no fast path around the mailbox)", floor=11)
@rule("C06", "R10.7", "a handle method never answers without asking the actor (no fast path around the mailbox)", floor=11)
@rule("C03", "R10.7", "a handle method never answers without asking the actor (no fast path around the mailbox)", floor=11)
@rule("C15", "R10.7", "a handle method never answers without asking the actor (no fast path around the mailbox)", floor=11)
def r10_7(prog, out):
    for actor in prog.actors:
        adt = prog.facts.adt(actor.request)
        for v in adt["variants"]:
            for (bid, bb, i, rv) in prog.constructions(actor.request, v["name"]):
                bi = prog.info(bid)
                key = "no-fast-path:%s::%s:%s" % (short_ty(actor.request), v["name"], prog.short(bid))
                sends = [a for a in bi.awaits if await_class(prog, bi, a) == "mpsc_send"]
                if not sends:
                    out.undecided(key, bi.loc(bb), "request built but not sent from this body")
                    continue
                errs = error_blocks(bi)
                # a task spawned here and awaited here whose body sends the same request (a large request applied in batches from a
                # task of its own): the await of its JoinHandle is as good as the send
                via_task = set()
                for sp in bi.spawns:
                    if sp.task is None:
                        continue
                    tcone = prog.cone(sp.task, follow=("call", "closure", "poll"))
                    if any(cb in tcone for (cb, _b2, _i2, _r2) in prog.constructions(actor.request, v["name"])):
                        for a in bi.awaits:
                            if a.origin is not None and a.origin.kind == "call" and a.origin.data == sp.bb and a.ready_bb is not None:
                                via_task.add(a.ready_bb)
                rb = prog.facts.body(bi.body.root) if bi.body.root else bi.body
                is_handle = (bi.body.impl_self or (rb.impl_self if rb else None) or "") in (prog.anchors.ty("Topic"), prog.anchors.ty("Subscription"))
                if is_handle:
                    esc = bi.cfg.escapes(0, {a.ready_bb for a in sends if a.ready_bb is not None} | errs | via_task, after=False)
                else:
                    # the handle method was written (or spliced) into a handler / stream body: from the point the request is
                    # built, it is sent
                    esc = bi.cfg.escapes(bb, {a.ready_bb for a in sends if a.ready_bb is not None} | errs, after=True)
                in_loop = [a for a in sends if bi.cfg.in_loop(a.poll_bb) and not any(h == a.entry_bb for h in bi.cfg.in_loop(a.poll_bb))]
                own_loops = {h for a in sends for h in bi.cfg.in_loop(a.poll_bb) if not any(x.entry_bb == h for x in bi.awaits)}
                if esc is None:
                    out.holds(key, bi.loc(sends[0].poll_bb), "every successful return passes the mailbox send")
                elif own_loops and all(any(h in own_loops for h in bi.cfg.in_loop(a.poll_bb)) for a in sends):
                    out.undecided(key, bi.loc(sends[0].poll_bb), "the request is sent once per element of a sequence (batches): whether the sequence can be empty is not decided")
                else:
                    site = esc[-1]
                    for x in esc:
                        if bi.body.blocks[x].term.k == "switch":
                            site = x
                            break
                    out.violation(key, bi.loc(site), "%s can answer successfully without sending %s to the actor: the actor's state (wake-up hand-on, batch limit, deleted flag, "
                                  "serialisation with other requests) is bypassed on that path" % (prog.short(bid), v["name"]), ["bb%d (%s)" % (x, bi.loc(x)) for x in esc][:8])


# outcome discards that are part of the design: (body, what) -> reason
DISCARD_OK = {
    ("push_loop::dispatch_message", "Subscription::acknowledge_messages"): "push dispatch, best effort: a failed ack means the subscription is gone",
    ("push_loop::dispatch_message", "Subscription::modify_ack_deadlines"): "push dispatch, best effort: a failed nack means the subscription is gone",
}


@rule("C10", "R10.8", "no outcome of a manager, handle or actor operation is thrown away: every Result is propagated, matched or returned", floor=90)
@rule("C01", "R10.8", "no outcome of a manager, handle or actor operation is thrown away: every Result is propagated, matched or returned", floor=90)
@rule("C16", "R10.8", "no outcome of a manager, handle or actor operation is thrown away: every Result is propagated, matched or returned", floor=90)
def r10_8(prog, out):
    """ALREADY_EXISTS / NOT_FOUND / a closed mailbox reach the client only if every layer hands the error on.  A Result that
    is dropped (`let _ = ..`, `..ok();`, an unused value) or replaced by a default turns a failed operation into a
    success answer."""
    from fate import result_fate
    import re
    n = 0
    for b in prog.facts.lib_bodies():
        if b.file.startswith("/"):
            continue
        bi = prog.info(b.id)
        srcs = []
        for bb, t in bi.calls():
            if t.dest is None or not t.dest.is_local() or t.callee.path.endswith("Future::poll"):
                continue
            dty = b.local_ty(t.dest.local) or ""
            if (t.callee.local or t.callee.res_local) and dty.startswith("std::result::Result<"):
                srcs.append((bb, t.dest.local, prog.short(prog.qual(b, t.callee.target))))
            elif dty.startswith("std::result::Result<") and re.search(r", crate::[\w:]+Error>$", dty) and t.callee.path.split("::")[-1] in (
                    "unwrap_or", "unwrap_or_else", "unwrap_or_default", "and_then", "flatten"):
                # the outcome of one of the crate's operations, unwrapped from a library wrapper (JoinHandle / JoinSet results)
                srcs.append((bb, t.dest.local, "%s -> %s" % (t.callee.path.split("::")[-1], short_ty(dty.split(", ")[-1].rstrip(">")))))
        for a in bi.awaits:
            r = bi._final_result_local(a)
            if r is not None and (b.local_ty(r) or "").startswith("std::result::Result<"):
                what = a.fut_ty or "?"
                m = re.match(r"^\{coroutine:(.*)::\{closure#0\}\}$", what)
                what = prog.short(m.group(1)) if m else short_ty(what.split("<")[0])
                srcs.append((a.poll_bb, r, what))
        owner = re.sub(r"(::\{closure#\d+\})+$", "", prog.short(b.id))
        for bb, local, what in srcs:
            n += 1
            fa = result_fate(bi, local)
            key = "outcome:%s:%s" % (owner, what)
            if fa == "consumed" or fa == "panics":
                out.holds(key, bi.loc(bb), "propagated / matched / returned", nontrivial=False)
            elif (owner, what) in DISCARD_OK:
                out.holds(key, bi.loc(bb), "listed discard: " + DISCARD_OK[(owner, what)], nontrivial=False)
            elif fa == "swallowed":
                out.violation(key, bi.loc(bb), "the error of %s is replaced by a default value in %s: a failed operation is answered as a success" % (what, owner))
            else:
                out.violation(key, bi.loc(bb), "the result of %s is thrown away in %s: a failure (ALREADY_EXISTS, NOT_FOUND, closed mailbox ..) is answered as a success" % (what, owner))


@rule("C10", "R10.9", "the push configuration stored for a subscription is the one in the request (endpoint and attributes, dropped only when empty)", floor=2)
def r10_9(prog, out):
    from props.c13 import emptiness_regions
    A = prog.anchors
    sl = Slicer(prog)
    ctor = A.ty("PushConfig") + "::new"
    proto = "crate::pubsub_proto::PushConfig"
    n = 0
    for b in prog.facts.lib_bodies():
        if b.file.startswith("/"):
            continue
        bi = prog.info(b.id)
        for bb, t in bi.calls(lambda c: c.target == ctor):
            n += 1
            name = prog.short(b.id)
            # endpoint
            s_ep = sl.of(b.id, t.args[0])
            key = "stored-push-config:%s:endpoint" % name
            if (proto, "push_endpoint") in s_ep.fields:
                out.holds(key, bi.loc(bb), "endpoint <- request.push_config.push_endpoint")
            else:
                out.violation(key, bi.loc(bb), "the stored push endpoint is not the requested one (%s)" % sorted(f[1] for f in s_ep.fields)[:4])
            # attributes: Some(requested map) unless the requested map is empty
            key = "stored-push-config:%s:attributes" % name
            arg = t.args[-1]
            s_at = sl.of(b.id, arg)
            if (proto, "attributes") not in s_at.fields:
                out.violation(key, bi.loc(bb), "the stored push attributes are not derived from the requested ones")
                continue
            empty, nonempty = emptiness_regions(prog, bi)
            bad = None
            o = bi.trace(arg)
            locs = [o.data] if o.kind == "local" and isinstance(o.data, int) else ([arg.place.local] if arg.place is not None else [])
            for l in locs:
                for (db, di) in bi.defs.get(l, []):
                    if di < 0:
                        continue
                    st = bi.stmt(db, di)
                    if st.rv.k == "agg" and st.rv.j.get("adt") == "std::option::Option" and st.rv.j.get("variant") == "None" and db not in empty:
                        bad = db
            filt = {c.split("::")[-1] for c in s_at.calls} & {"filter", "take", "skip", "retain", "remove", "truncate", "drain", "pop"}
            if bad is not None:
                out.violation(key, bi.loc(bad), "requested push attributes are dropped although the map is not empty")
            elif filt:
                out.violation(key, bi.loc(bb), "the requested push attributes are filtered (%s) before they are stored" % sorted(filt))
            else:
                out.holds(key, bi.loc(bb), "attributes <- the requested map (None only when it is empty)")
    if n == 0:
        raise CheckBroken("PushConfig::new is never called")
