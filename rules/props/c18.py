import re
"""C18 — resource names are parsed canonically (writer/reader agreement of the name grammar)."""
from engine import rule, CheckBroken
from common import short_ty

CONTENT_MATCH = {
    "core::str::<impl str>::starts_with", "core::str::<impl str>::ends_with", "core::str::<impl str>::strip_prefix",
    "core::str::<impl str>::strip_suffix", "core::str::<impl str>::find", "core::str::<impl str>::rfind",
    "core::str::<impl str>::split", "core::str::<impl str>::splitn", "core::str::<impl str>::rsplit", "core::str::<impl str>::rsplitn",
    "core::str::<impl str>::split_once", "core::str::<impl str>::rsplit_once", "core::str::<impl str>::split_terminator",
    "core::str::<impl str>::contains", "core::str::<impl str>::matches", "core::str::<impl str>::match_indices",
    "core::str::<impl str>::trim_start_matches", "core::str::<impl str>::trim_end_matches",
    "std::cmp::PartialEq::eq", "std::cmp::PartialEq::ne",
}
TRANSFORMS = ("trim", "trim_matches", "trim_start", "trim_end", "trim_start_matches", "trim_end_matches", "to_lowercase",
              "to_uppercase", "to_ascii_lowercase", "to_ascii_uppercase", "replace", "replacen")


def name_types(prog):
    A = prog.anchors
    return [("TopicName", A.ty("TopicName")), ("SubscriptionName", A.ty("SubscriptionName"))]


def find_parser(prog, ty):
    """the fn(&str) -> Option<Self> / Result<Self, _> of the name type"""
    out = []
    for b in prog.facts.lib_bodies():
        if b.impl_self != ty or b.kind != "AssocFn" or b.impl_trait:
            continue
        ret = b.local_ty(0)
        if b.arg_count == 1 and b.local_ty(1) == "&str" and ty in ret and ("Option<" in ret or "Result<" in ret):
            out.append(b.id)
    return out


def with_builder_spliced(prog, pid, ty):
    """the parser, with the constructor it hands the components to (`Self::new(project, id)`) spliced in when it does not build
    the name itself"""
    if any(b2 == pid for (b2, _bb, _i, _rv) in prog.constructions(ty)):
        return pid
    builders = {b2 for (b2, _bb, _i, _rv) in prog.constructions(ty)}
    return prog.inlined_variant(pid, lambda ti, bb, t: prog.qual(ti.body, t.callee.target) in builders)


def find_display(prog, ty):
    for b in prog.facts.lib_bodies():
        if b.impl_self == ty and b.impl_trait == "std::fmt::Display" and b.id.endswith("::fmt"):
            return b.id
    return None


def str_consts(prog, body_id, only_calls=None):
    """string constants used in the cone of body_id: {value: set(usage)}; usage = callee path or 'operand'"""
    uses = {}
    for bid in prog.cone(body_id, follow=("call", "closure")):
        bi = prog.info(bid)
        if bi is None:
            continue
        for blk in bi.body.blocks:
            if blk.cleanup:
                continue
            for s in blk.stmts:
                if s.k != "assign":
                    continue
                for op in s.rv.ops:
                    v = op.const_str()
                    if v is not None:
                        uses.setdefault(v, set())
            t = blk.term
            if t.k == "call" and t.callee is not None:
                for a in t.args:
                    v = a.const_str()
                    if v is None and a.place is not None:
                        o = bi.trace(a)
                        if o.kind == "const" and isinstance(o.data, str):
                            # named constant: look its value up
                            k = prog.facts.consts.get(o.data)
                            if k is not None and "str" in k:
                                v = k["str"]
                            elif o.data in uses or True:
                                # literal reached through a reference temp
                                v = lit_of(bi, a)
                    if v is not None:
                        uses.setdefault(v, set()).add(t.callee.path)
    return uses


def lit_of(bi, operand):
    """string literal behind `&const "..."` temporaries"""
    if operand.place is None:
        return operand.const_str()
    l = operand.place.local
    seen = 0
    while seen < 8:
        ds = bi.defs.get(l, [])
        if len(ds) != 1 or ds[0][1] < 0:
            return None
        s = bi.stmt(*ds[0])
        if s.rv.ops and s.rv.ops[0].const is not None:
            return s.rv.ops[0].const_str()
        if s.rv.ops and s.rv.ops[0].place is not None:
            l = s.rv.ops[0].place.local
        elif s.rv.place is not None:
            l = s.rv.place.local
        else:
            return None
        seen += 1
    return None


@rule("C18", "R18.1", "every literal the canonical form writes is compared by content when parsing", floor=4)
def r18_1(prog, out):
    for label, ty in name_types(prog):
        disp = find_display(prog, ty)
        parsers = find_parser(prog, ty)
        if disp is None or not parsers:
            raise CheckBroken("Display impl or parser of %s not found" % label)
        written = {v for v in str_consts(prog, disp) if len(v) >= 2 and "/" in v}
        if not written:
            raise CheckBroken("%s::fmt writes no literal segment" % label)
        for pid in parsers:
            uses = str_consts(prog, pid)
            pi = prog.info(pid)
            for lit in sorted(written):
                key = "%s:%s:%r" % (label, prog.short(pid).split("::")[-1], lit)
                how = uses.get(lit)
                matched = how and (how & CONTENT_MATCH)
                if not matched and lit.startswith("/") and lit.endswith("/"):
                    # a parser that cuts the input at every '/' compares the segment without its delimiters: `"topics"` is `/topics/`
                    inner = uses.get(lit.strip("/"))
                    splits = any(t.callee.path.split("::")[-1] in ("split", "splitn", "split_terminator", "split_once") and "str" in t.callee.path
                                 and any(str(a.const_int()) == "47" or a.const_str() == "/" for a in t.args[1:])
                                 for bb, t in pi.calls())
                    if inner and (inner & CONTENT_MATCH) and splits:
                        out.holds(key, prog.loc(pid), "the input is cut at '/' and the segment between the cuts is compared with %r by content (%s)" % (
                            lit.strip("/"), sorted(h.split("::")[-1] for h in inner & CONTENT_MATCH)))
                        continue
                if matched:
                    out.holds(key, prog.loc(pid), "literal %r is matched by content (%s)" % (lit, sorted(h.split("::")[-1] for h in matched)))
                elif how is not None:
                    out.violation(key, prog.loc(pid), "the canonical form writes the segment %r but the parser never compares it by content "
                                  "(it is used only through %s): any text of the same length is accepted in its place"
                                  % (lit, sorted(h.split("::")[-1] for h in how) or "its length"))
                else:
                    # the literal value itself never reaches the parser; is only a length constant derived from it used?
                    out.violation(key, prog.loc(pid), "the canonical form writes the segment %r but the parser never compares it by content "
                                  "(only a length derived from it is used): any text of the same length is accepted in its place" % lit)
            # a segment that is not a literal in the formatter but a `&str` field of a descriptor value (`self.segment` of a
            # `Collection` constant): written from, and compared against, the same field
            own = {f["name"] for v in prog.facts.adt(ty)["variants"] for f in v["fields"]}
            wf = set()

            def str_fields(bi2):
                got = set()
                for blk in bi2.body.blocks:
                    if blk.cleanup or blk.idx not in bi2.cfg.reach:
                        continue
                    places = []
                    for st in blk.stmts:
                        if st.k == "assign":
                            places += [o.place for o in st.rv.ops if o.place is not None]
                            if st.rv.place is not None:
                                places.append(st.rv.place)
                    if blk.term.k == "call":
                        places += [a.place for a in blk.term.args if a.place is not None]
                    for pl in places:
                        if not pl.proj:
                            continue
                        o = bi2.trace(pl)
                        for pe in (o.path or ()):
                            if isinstance(pe, tuple) and len(pe) >= 3 and pe[0] == "f" and str(pe[2]).startswith("crate::") and pe[2] != ty:
                                f = prog.facts.adt_field(pe[2], pe[1])
                                if f is not None and f["ty"].replace("'static ", "") == "&str":
                                    got.add((pe[2], pe[1]))
                return got
            for bid in prog.cone(disp, follow=("call", "closure")):
                wf |= {c for c in str_fields(prog.info(bid)) if c[1] not in own}
            for cell in sorted(wf):
                key = "%s:%s:field:%s.%s" % (label, prog.short(pid).split("::")[-1], short_ty(cell[0]), cell[1])
                hit = None
                for bid in prog.cone(pid, follow=("call", "closure")):
                    bi2 = prog.info(bid)
                    if bi2 is None:
                        continue
                    for bb, t in bi2.calls(lambda c: c.path in CONTENT_MATCH):
                        for a in t.args[1:]:
                            if a.place is None:
                                continue
                            o = bi2.trace(a)
                            if any(isinstance(pe, tuple) and len(pe) >= 3 and pe[0] == "f" and (pe[2], pe[1]) == cell for pe in (o.path or ())):
                                hit = (bid, bb, t.callee.path.split("::")[-1])
                if hit:
                    out.holds(key, prog.loc(hit[0], hit[1]), "the segment is written from %s.%s and compared by content (%s) against the same field" % (short_ty(cell[0]), cell[1], hit[2]))
                else:
                    out.violation(key, prog.loc(pid), "the canonical form writes the segment held in %s.%s but the parser never compares the input with it by content" % (short_ty(cell[0]), cell[1]))


def call_projection(prog, body_id):
    """names of the library calls on strings in dominator (block) order"""
    seq = []
    bi = prog.info(body_id)
    for blk in bi.body.blocks:
        if blk.cleanup or blk.idx not in bi.cfg.reach:
            continue
        t = blk.term
        if t.k == "call" and t.callee is not None and ("str" in t.callee.path or t.callee.path in CONTENT_MATCH):
            seq.append(t.callee.path.split("::")[-1])
    return seq


@rule("C18", "R18.2", "topic-name and subscription-name parsers are siblings (same stages)", floor=1)
def r18_2(prog, out):
    (l1, t1), (l2, t2) = name_types(prog)
    p1, p2 = find_parser(prog, t1), find_parser(prog, t2)
    if not p1 or not p2:
        raise CheckBroken("name parsers not found")
    s1, s2 = call_projection(prog, p1[0]), call_projection(prog, p2[0])
    key = "siblings:%s~%s" % (l1, l2)
    if s1 == s2:
        out.holds(key, prog.loc(p1[0]), "both parsers run the stages %s" % s1)
    else:
        only1 = [x for x in s1 if x not in s2]
        only2 = [x for x in s2 if x not in s1]
        if sorted(s1) == sorted(s2):
            out.undecided(key, prog.loc(p1[0]), "same stages in a different order: %s vs %s" % (s1, s2))
        else:
            out.violation(key, prog.loc(p2[0] if only1 else p1[0]), "the two name parsers disagree: %s has stages %s that %s lacks; %s has %s"
                          % (l1, only1, l2, l2, only2))


@rule("C18", "R18.3", "names are compared and hashed by exactly (project, id) and key the resource maps", floor=4)
def r18_3(prog, out):
    A = prog.anchors
    for label, ty in name_types(prog):
        adt = prog.facts.adt(ty)
        fields = [f["name"] for f in adt["variants"][0]["fields"]]
        for tr in ("std::cmp::PartialEq", "std::cmp::Eq", "std::hash::Hash"):
            im = [i for i in prog.facts.impls if i["self"] == ty and i["trait"] == tr]
            key = "%s:%s" % (label, tr.split("::")[-1])
            if not im:
                out.violation(key, adt["span"], "%s does not implement %s" % (label, tr))
            elif not im[0]["derived"]:
                out.undecided(key, im[0]["span"], "%s has a hand-written %s: component-wise comparison not established" % (label, tr))
            elif len(fields) != 2:
                out.violation(key, adt["span"], "%s has fields %s, expected exactly (project, id)" % (label, fields))
            else:
                out.holds(key, im[0]["span"], "derived over fields %s" % fields)
    for (k, f, nt) in (("SubState", "subscriptions", A.ty("SubscriptionName")), ("TopicState", "topics", A.ty("TopicName")),
                       ("TopicActor", "subscriptions", A.ty("SubscriptionName")), ("PushRegistryState", "push_subscriptions", A.ty("SubscriptionName"))):
        fty = A.field_ty(k, f)
        # a private newtype around the map (struct AttachedSubscriptions { by_name: HashMap<..> }) is the map
        for _ in range(3):
            adt2 = prog.facts.adt(fty) if fty.startswith("crate::") else None
            if adt2 is not None and len(adt2["variants"]) == 1 and len(adt2["variants"][0]["fields"]) == 1:
                fty = adt2["variants"][0]["fields"][0]["ty"]
            else:
                break
        key = "map-key:%s.%s" % (k, f)
        generic = prog.facts.adt(fty.split("<")[0]) if fty.startswith("crate::") and "<" in fty else None
        if fty.startswith("std::collections::HashMap<%s," % nt) or fty.startswith("std::collections::BTreeMap<%s," % nt):
            out.holds(key, "", "keyed by %s" % short_ty(nt))
        elif generic is not None and nt in fty and any(re.match(r"^std::collections::(HashMap|BTreeMap)<[A-Z]\w*,", f2["ty"]) for v in generic["variants"] for f2 in v["fields"]):
            out.undecided(key, generic.get("span", ""), "%s.%s is a generic container of the crate instantiated with %s whose map is keyed by a type parameter: which "
                          "parameter is not resolved here" % (k, f, short_ty(nt)))
        else:
            out.violation(key, "", "%s.%s is %s: not keyed by the parsed name type" % (k, f, short_ty(fty)))


@rule("C18", "R18.4", "stored components are exact sub-slices of the input (sufficient for echo acceptance)", floor=2)
def r18_4(prog, out):
    for label, ty in name_types(prog):
        for pid in find_parser(prog, ty):
            transforms = []
            for bid in prog.cone(pid, follow=("call", "closure")):
                bi = prog.info(bid)
                for bb, t in bi.calls(lambda c: c.path.startswith("core::str::<impl str>::") and c.path.split("::")[-1] in TRANSFORMS):
                    transforms.append((bid, bb, t.callee.path.split("::")[-1]))
            key = "%s:exact-substring" % label
            if transforms:
                bid, bb, n = transforms[0]
                out.undecided(key, prog.loc(bid, bb), "the id is transformed by %s() before it is stored: whether the echoed canonical name is "
                              "accepted again depends on string values (not decided statically)" % n)
            else:
                out.holds(key, prog.loc(pid), "components are stored as untransformed sub-slices")


def pi_of(prog, pid):
    return prog.info(pid)


def splitn_remainder(bi, operand, depth=0):
    """the operand is (a trimmed view of) the n-th item taken from `s.splitn(n, '/')`: the remainder of s, slashes and all"""
    if depth > 6:
        return False
    o = bi.trace(operand)
    if o.kind != "call":
        return False
    t = bi.call_at(o.data)
    n = t.callee.path.split("::")[-1] if t.callee is not None else ""
    if n in ("trim_matches", "trim_end_matches", "trim_start_matches", "trim", "into", "from", "to_string", "to_owned", "branch") and t.args:
        return splitn_remainder(bi, t.args[0], depth + 1)
    if t.callee is not None and t.callee.path == "std::ops::Try::branch" and t.args:
        return splitn_remainder(bi, t.args[0], depth + 1)
    if n != "next" or not t.args:
        return False
    it = bi.trace(t.args[0])
    if it.kind != "call":
        return False
    st = bi.call_at(it.data)
    if st.callee is None or st.callee.path.split("::")[-1] != "splitn" or len(st.args) < 2 or st.args[1].const_int() is None:
        return False
    want = st.args[1].const_int()
    # how many next() calls on the same iterator come before this one on every path
    before = 0
    for bb, t2 in bi.calls(lambda c: c.path == "std::iter::Iterator::next"):
        if bb == o.data or not t2.args:
            continue
        it2 = bi.trace(t2.args[0])
        if it2.kind == "call" and it2.data == it.data and bi.cfg.dominates(bb, o.data):
            before += 1
    return before + 1 == want


@rule("C18", "R18.5", "the project id ends at the first '/', the resource id is the whole remainder", floor=2)
def r18_5(prog, out):
    from slicing import Slicer
    sl = Slicer(prog)
    for label, ty in name_types(prog):
        adt = prog.facts.adt(ty)
        fields = [f["name"] for f in adt["variants"][0]["fields"]]
        for pid in find_parser(prog, ty):
            bi = prog.info(pid)
            # the aggregate building the name
            aggs = [(bb, i, rv) for (b2, bb, i, rv) in prog.constructions(ty) if b2 == pid]
            if not aggs:
                # the parser hands the components to a constructor (`Self::new(project, id)`): look at the parser with it spliced in
                builders = {b2 for (b2, _bb, _i, _rv) in prog.constructions(ty)}
                vid = prog.inlined_variant(pid, lambda ti, bb, t: prog.qual(ti.body, t.callee.target) in builders)
                if vid != pid:
                    vi = prog.info(vid)
                    aggs = [(blk.idx, i, st.rv) for blk in vi.body.blocks if not blk.cleanup and blk.idx in vi.cfg.reach
                            for i, st in enumerate(blk.stmts) if st.k == "assign" and st.rv.k == "agg" and st.rv.j.get("ak") == "adt" and st.rv.j.get("adt") == ty]
                    if aggs:
                        pid = vid
                        bi = vi
            if not aggs:
                out.undecided("%s:components" % label, prog.loc(pid), "the parser does not build the name directly")
                continue
            bb, i, rv = aggs[-1]
            names = rv.j["fields"]
            proj_f = [f for f in names if "project" in f]
            id_f = [f for f in names if f not in proj_f]
            if len(proj_f) != 1 or len(id_f) != 1:
                out.undecided("%s:components" % label, prog.loc(pid), "fields %s" % names)
                continue
            sp = sl.of(pid, rv.ops[names.index(proj_f[0])])
            si = sl.of(pid, rv.ops[names.index(id_f[0])])
            # named constants -> their values
            for sx in (sp, si):
                sx.consts = {prog.facts.consts[c]["str"] if isinstance(c, str) and c in prog.facts.consts and "str" in prog.facts.consts[c] else c for c in sx.consts}
            seg = {v for v in str_consts(prog, find_display(prog, ty)) if len(v) >= 3 and v.startswith("/")}
            # project: delimited by a search for the single character '/'
            key = "%s:project-ends-at-first-slash" % label
            delim_calls = {c.split("::")[-1] for c in sp.calls} & {"find", "split_once", "split", "splitn", "split_terminator", "char_indices", "position"}
            uses = str_consts(prog, pid)
            seg_search = [v for v in seg if uses.get(v) and ({u.split("::")[-1] for u in uses[v]} & {"find", "split_once", "split", "splitn", "rfind", "rsplit_once"})]
            if seg_search and any(str(c) in seg_search for c in sp.consts):
                out.violation(key, prog.loc(pid), "the project id is everything before the first %r rather than the text up to the first '/': project ids containing slashes "
                              "(e.g. projects/a/b%sx) are accepted" % (seg_search[0], seg_search[0]))
            elif delim_calls and any(str(c) in ("47", "/") for c in sp.consts):
                out.holds(key, prog.loc(pid), "project id = text up to the first '/' (%s)" % sorted(delim_calls))
            elif delim_calls:
                out.undecided(key, prog.loc(pid), "delimiter of the project id not recognised (%s; consts %s)" % (sorted(delim_calls), sorted(map(str, sp.consts))[:4]))
            else:
                out.undecided(key, prog.loc(pid), "project id is not cut by a delimiter search")
            # id: the remainder of the input, not one element of a split
            key = "%s:id-is-remainder" % label
            seg_iter = {c.split("::")[-1] for c in si.calls} & {"next", "nth", "next_back", "last", "split", "splitn", "rsplit", "split_terminator"}
            if splitn_remainder(pi_of(prog, pid), rv.ops[names.index(id_f[0])]):
                out.holds(key, prog.loc(pid), "id = the last item of splitn(n, '/'): the untouched remainder of the input")
            elif {"next", "nth", "next_back", "last"} & seg_iter and {"split", "splitn", "rsplit", "split_terminator"} & seg_iter:
                out.violation(key, prog.loc(pid), "the id is one segment of a split of the input: whatever follows that segment is dropped, so names that differ "
                              "in their id (e.g. .../orders/eu and .../orders/us) denote the same resource and are echoed differently from what was sent")
            elif any(c.split("::")[-1] in ("get", "strip_prefix", "split_once", "split_at") for c in si.calls):
                out.holds(key, prog.loc(pid), "id = the input after the literal segment, to the end")
            else:
                out.undecided(key, prog.loc(pid), "derivation of the id not recognised (%s)" % sorted(c.split("::")[-1] for c in si.calls)[:6])


@rule("C18", "R18.6", "the leading literal is matched against the input as given (not against a trimmed / rewritten copy)", floor=2)
def r18_6(prog, out):
    from slicing import Slicer
    sl = Slicer(prog)
    for label, ty in name_types(prog):
        disp = find_display(prog, ty)
        lits = sorted(v for v in str_consts(prog, disp) if len(v) >= 2 and "/" in v and not v.startswith("/"))
        for pid in find_parser(prog, ty):
            bi = prog.info(pid)
            key = "%s:prefix-on-raw-input" % label
            found = False
            for bid in prog.cone(pid, follow=("call", "closure")):
                ci = prog.info(bid)
                for bb, t in ci.calls(lambda c: c.path in CONTENT_MATCH and c.path.split("::")[-1] in ("starts_with", "strip_prefix")):
                    lit = None
                    for a in t.args[1:]:
                        v = a.const_str() or lit_of(ci, a)
                        o = ci.trace(a)
                        if v is None and o.kind == "const" and isinstance(o.data, str) and o.data in prog.facts.consts:
                            v = prog.facts.consts[o.data].get("str")
                        lit = lit or v
                    if lit not in lits:
                        continue
                    found = True
                    s = sl.of(bid, t.args[0])
                    tr = sorted({c.split("::")[-1] for c in s.calls} & set(TRANSFORMS))
                    if tr:
                        out.violation(key, ci.loc(bb), "%r is matched against the input after %s(): spellings with extra characters around the name (e.g. a leading '/') are "
                                      "accepted as aliases of the canonical name" % (lit, tr[0]))
                    else:
                        out.holds(key, ci.loc(bb), "%r is matched at the start of the untransformed input" % lit)
            if not found:
                out.undecided(key, prog.loc(pid), "no starts_with / strip_prefix on the leading literal")
            # .. and what the parser is given is the request's string as it came, at every call site
            for cb in prog.facts.lib_bodies():
                if cb.file.startswith("/") or cb.id == pid:
                    continue
                ci = prog.info(cb.id)
                for bb, t in ci.calls(lambda c: prog.qual(cb, c.target) == pid):
                    if not t.args:
                        continue
                    s2 = sl.of(cb.id, t.args[0])
                    tr = sorted({c.split("::")[-1] for c in s2.calls} & set(TRANSFORMS))
                    k2 = "%s:raw-input-at:%s" % (label, prog.short(cb.id))
                    if tr:
                        out.violation(k2, ci.loc(bb), "the name is parsed from a copy of the request string that went through %s(): spellings with extra characters around "
                                      "the name (e.g. a leading '/') are accepted as aliases of the canonical name" % tr[0])
                    else:
                        out.holds(k2, ci.loc(bb), "the parser is given the request string untransformed", nontrivial=False)


@rule("C18", "R18.8", "every map from names to resources, wherever it lives, is keyed by the parsed name type", floor=3)
def r18_8(prog, out):
    """R18.3 checks the maps the design has.  A map added anywhere else (a handler-side cache `HashMap<String, Arc<Topic>>`
    keyed by the request string as sent) makes two spellings of one name denote different things: found by type, in every
    struct of the crate."""
    import re
    A = prog.anchors
    handles = {A.ty("Topic"): A.ty("TopicName"), A.ty("Subscription"): A.ty("SubscriptionName")}
    n = 0
    for path, adt in prog.facts.adts.items():
        if not path.startswith("crate::") or path.startswith("crate::pubsub_proto"):
            continue
        for v in adt.get("variants", []):
            for f in v.get("fields", []):
                ty = f["ty"]
                for m in re.finditer(r"(?:HashMap|BTreeMap|IndexMap|DashMap)<", ty):
                    rest = ty[m.end():]
                    # split K, V at depth 0
                    depth, k = 0, None
                    for i, ch in enumerate(rest):
                        if ch in "<([":
                            depth += 1
                        elif ch in ">)]":
                            if depth == 0:
                                break
                            depth -= 1
                        elif ch == "," and depth == 0 and k is None:
                            k = rest[:i].strip()
                            vstart = i + 1
                    if k is None:
                        continue
                    vty = rest[vstart:]
                    for h, nt in handles.items():
                        # the value is the resource handle itself (Arc / Weak / Option of it) -- a grouping of handles under some
                        # other key (`project -> {id -> handle}`) is an index, not a way to resolve a name
                        v0 = vty.strip()
                        for _ in range(4):
                            m2 = re.match(r"^(?:std::sync::Arc|std::sync::Weak|std::option::Option|std::boxed::Box)<(.*)$", v0)
                            if not m2:
                                break
                            v0 = m2.group(1)
                        if re.match(r"^%s([>, ]|$)" % re.escape(h), v0):
                            stringish = bool(re.search(r"(^|[<&, ])str([>, ]|$)|::String\b|^String\b", k))
                            if k != nt and not stringish and k not in handles.values():
                                continue        # keyed by something that is not a spelling of a name (an internal id)
                            n += 1
                            key = "map-key:%s.%s" % (short_ty(path), f["name"])
                            if k == nt:
                                out.holds(key, adt.get("span", ""), "keyed by %s" % short_ty(nt))
                            else:
                                out.violation(key, adt.get("span", ""), "%s.%s maps %s to %s: resources are looked up under a key that is not the parsed name, so two "
                                              "spellings of one name (or a stale spelling) can denote different resources" % (short_ty(path), f["name"], short_ty(k), short_ty(h)))
    if n < 2:
        raise CheckBroken("expected the managers' maps from names to resources, found %d" % n)


@rule("C18", "R18.7", "a name is stored without narrowing: no length / offset of a component is cast to a smaller integer", floor=2)
def r18_7(prog, out):
    """`names that differ in project or ID denote different resources` needs the stored representation to be injective in
    (project, id).  Two owned strings are; a packed representation (one buffer plus a split offset) is as long as the offset
    is exact.  A narrowing cast of a length or offset inside the name type (`len() as u8`) makes long components wrap: two
    different names compare equal and the echoed name is not the one that was parsed."""
    from props.c09 import int_bits
    n = 0
    for label, ty in name_types(prog):
        n += 1
        bad = None
        for b in prog.facts.lib_bodies():
            rb = prog.facts.body(b.root) if b.root else b
            if (b.impl_self or (rb.impl_self if rb else None)) != ty or b.file.startswith("/"):
                continue
            if any(i["self"] == ty and i.get("derived") and b.impl_trait == i["trait"] for i in prog.facts.impls):
                continue
            bi = prog.info(b.id)
            for blk in b.blocks:
                if blk.cleanup:
                    continue
                for st in blk.stmts:
                    if st.k == "assign" and st.rv.k == "cast" and st.rv.j.get("ck") in ("IntToInt",) and not st.exp:
                        fb, tb = int_bits(b.ty(st.rv.j["from"])), int_bits(b.ty(st.rv.j["to"]))
                        if fb and tb and tb < fb:
                            bad = (b.id, blk.idx, b.ty(st.rv.j["from"]), b.ty(st.rv.j["to"]))
        key = "%s:no-narrowing" % label
        if bad:
            out.violation(key, prog.loc(bad[0], bad[1]), "%s narrows an integer (%s -> %s) while building or reading a name: a component longer than the small type can count "
                          "wraps, so distinct names collide and the echoed name differs from the parsed one" % (prog.short(bad[0]), bad[2], bad[3]))
        else:
            out.holds(key, "", "no narrowing integer cast in %s" % label)
    if n < 2:
        raise CheckBroken("expected the topic and the subscription name type")


TRIMS = ("trim", "trim_matches", "trim_start", "trim_end", "trim_start_matches", "trim_end_matches", "trim_left", "trim_right",
         "trim_left_matches", "trim_right_matches", "trim_ascii", "trim_ascii_start", "trim_ascii_end")


@rule("C18", "R18.9", "a length requirement checked on the raw input is re-checked on what is stored when the stored form can be shorter", floor=2)
def r18_9(prog, out):
    """Echo acceptance, necessary condition.  The parser rejects inputs that are too short.  The canonical form it echoes is
    built from the *stored* components.  If a component is shortened after the length check (`trim_matches('/')`), an
    accepted input can be stored in a form whose echo fails that very check (`projects/p/topics/a/` is accepted, is echoed
    as `projects/p/topics/a`, and that is rejected): check-then-transform.  Required: no trimming of a stored component
    after a length guard on the raw input, unless a length guard on the stored components follows the trimming."""
    from slicing import Slicer
    sl = Slicer(prog)
    n = 0
    for label, ty in name_types(prog):
        for pid0 in find_parser(prog, ty):
            n += 1
            pid = with_builder_spliced(prog, pid0, ty)
            bi = prog.info(pid)
            b = bi.body

            def len_of(op):
                """(call bb of a str::len feeding op directly, is it the raw input's length)"""
                o = bi.trace(op)
                if o.kind == "call" and not o.path:
                    t = bi.call_at(o.data)
                    if t.callee is not None and t.callee.path.endswith("::len") and "str" in t.callee.path:
                        r = bi.trace(t.args[0])
                        return o.data, (r.kind == "param" and r.data == 1 and not r.path)
                return None, False

            cmps = []     # (bb, raw?)
            for blk in b.blocks:
                if blk.cleanup or blk.idx not in bi.cfg.reach:
                    continue
                for st in blk.stmts:
                    if st.k == "assign" and st.rv.k == "bin" and st.rv.j["op"] in ("Lt", "Le", "Gt", "Ge", "Eq", "Ne"):
                        for op in st.rv.ops:
                            if op.place is None:
                                continue
                            lb, raw = len_of(op)
                            if lb is not None:
                                cmps.append((blk.idx, raw))
                            else:
                                s = sl.of(pid, op)
                                if any(c.endswith("::len") and "str" in c for c in s.calls):
                                    # a sum / difference of lengths: raw iff every length in it is the input's
                                    rawonly = all(r[0] == "param" and r[2] == 1 for r in s.roots) and not any(
                                        c.split("::")[-1] in TRIMS + ("get", "find", "strip_prefix", "strip_suffix", "split", "splitn", "map") for c in s.calls)
                                    cmps.append((blk.idx, rawonly))
            trims = []    # block in pid after which the trimmed value exists
            is_trim = lambda c: c.path.startswith("core::str::<impl str>::") and c.path.split("::")[-1] in TRIMS
            for bb, t in bi.calls(is_trim):
                trims.append((bb, t.callee.path.split("::")[-1], bi.loc(bb)))
            for bid in prog.cone(pid0, follow=("call", "closure")):
                ci = prog.info(bid)
                if ci is None or bid == pid0:
                    continue
                for bb, t in ci.calls(is_trim):
                    if True:
                        # in a closure of the parser: the call of the parser that is handed the closure
                        for blk in b.blocks:
                            for st in blk.stmts:
                                if st.k == "assign" and st.rv.k == "agg" and st.rv.j.get("ak") == "closure" and prog.qual(b, st.rv.j["def"]) == bid:
                                    trims.append((blk.idx, t.callee.path.split("::")[-1], prog.loc(bid, bb)))
            # a length requirement on exactly the text that is then trimmed (`if !valid_len(rest) { return None }; id = rest.trim_matches('/')`):
            # the stored id can fail the requirement its untrimmed form passed, unless the same requirement is put to the trimmed id
            def measures(of_trim_result):
                got = []
                for mbb, mt in bi.calls(lambda c: (c.path.endswith("::len") and "str" in c.path) or c.path == "std::iter::Iterator::count"):
                    if not mt.args:
                        continue
                    ms = sl.of(pid, mt.args[0])
                    for tb0, tn0, tl0 in trims:
                        derived = (pid, tb0) in ms.sites
                        tt0 = bi.call_at(tb0)
                        same_in = False
                        if tt0 is not None and tt0.args:
                            ui = bi.trace(tt0.args[0])
                            mo = bi.trace(mt.args[0])
                            if mt.callee.path == "std::iter::Iterator::count" and mo.kind == "call":
                                ch = bi.call_at(mo.data)
                                mo = bi.trace(ch.args[0]) if ch is not None and ch.args else mo
                            same_in = (ui.kind, ui.data, tuple(ui.path or ())) == (mo.kind, mo.data, tuple(mo.path or ())) and ui.kind != "param"
                        if (derived if of_trim_result else (same_in and not derived)):
                            consts = set()
                            # constants of the decision this measure feeds
                            for blk in b.blocks:
                                if blk.cleanup or blk.idx not in bi.cfg.reach:
                                    continue
                                for st in blk.stmts:
                                    if st.k == "assign" and st.rv.k == "bin" and st.rv.j["op"] in ("Lt", "Le", "Gt", "Ge", "Eq", "Ne"):
                                        ss = [sl.of(pid, o2) for o2 in st.rv.ops if o2.place is not None]
                                        if any((pid, mbb) in x.sites for x in ss):
                                            for o2 in st.rv.ops:
                                                if o2.const_int() is not None:
                                                    consts.add(o2.const_int())
                                            for x in ss:
                                                consts |= {int(c) for c in x.consts if isinstance(c, int) or (isinstance(c, str) and c.isdigit())}
                                if blk.term.k == "call" and blk.term.callee is not None and blk.term.callee.path.endswith("::contains") and "Range" in blk.term.callee.path:
                                    ss = [sl.of(pid, a2) for a2 in blk.term.args if a2.place is not None]
                                    if any((pid, mbb) in x.sites for x in ss):
                                        for x in ss:
                                            consts |= {int(c) for c in x.consts if isinstance(c, int) or (isinstance(c, str) and c.isdigit())}
                            got.append((mbb, frozenset(consts)))
                return got
            pre_id = measures(False)
            post_id = measures(True)
            if pre_id:
                need = set()
                for _mbb, cs in pre_id:
                    need |= set(cs)
                have = set()
                for _mbb, cs in post_id:
                    have |= set(cs)
                if need and not need <= have:
                    out.violation("%s:guard-after-trim" % label, bi.loc(pre_id[0][0]), "a length requirement (bounds %s) is checked on the text that is trimmed afterwards, and "
                                  "the trimmed id is what is stored and echoed: `…/ab/` passes a minimum of 3 and is echoed as `…/ab`, which fails it -- the canonical name "
                                  "of an accepted name is rejected" % sorted(need - have),
                                  ["measured at %s" % bi.loc(pre_id[0][0]), "trimmed at %s" % trims[0][2]])
                    continue
            key = "%s:guard-after-trim" % label
            raw_guards = [bb for bb, raw in cmps if raw]
            if not trims:
                out.holds(key, prog.loc(pid), "no component is trimmed: what is checked is what is stored")
                continue
            if not raw_guards:
                out.holds(key, prog.loc(pid), "no length requirement on the raw input")
                continue
            # every shortening needs a length check on the components after it (a second trim behind the re-check -- in the
            # constructor the parser ends with -- reopens the gap)
            unguarded = [(t0, tn, tl) for t0, tn, tl in trims if not any(not raw and bb != t0 and bi.cfg.can_reach(t0, bb) for bb, raw in cmps)]
            tb, tname, tloc = (unguarded or trims)[0]
            later = [bb for bb, raw in cmps if not raw and any(bi.cfg.dominates(t0, bb) or bi.cfg.can_reach(t0, bb) for t0, _, _ in trims)]
            if later and not unguarded:
                out.holds(key, bi.loc(later[0]), "the length requirement is re-checked on the components after %s()" % tname)
            else:
                out.violation(key, tloc, "the input's length is checked (%s) before the id is shortened by %s(): an accepted name can be stored in a form whose canonical "
                              "echo is too short to be accepted again (`…/a/` is accepted, echoed as `…/a`, and that is rejected)" % (bi.loc(raw_guards[0]), tname),
                              ["length guard on the raw input at %s" % bi.loc(raw_guards[0]), "%s() at %s" % (tname, tloc), "no length check on the stored components afterwards"])
    if n < 2:
        raise CheckBroken("expected the topic-name and the subscription-name parser")


@rule("C18", "R18.10", "membership of a name in a project is decided by equality of the whole project id", floor=2)
@rule("C10", "R18.10", "membership of a name in a project is decided by equality of the whole project id", floor=2)
@rule("C13", "R18.10", "membership of a name in a project is decided by equality of the whole project id", floor=2)
def r18_10(prog, out):
    """`same project` (CreateSubscription) and `in this project` (the listings) are predicates of the name types taking the
    project id as a string.  They hold exactly when the ids are equal: a prefix / substring / case-insensitive test makes
    `acme` a member of `acme-staging`."""
    n = 0
    for label, ty in name_types(prog):
        for b in prog.facts.lib_bodies():
            if b.impl_self != ty or b.kind != "AssocFn" or b.impl_trait or b.local_ty(0) != "bool":
                continue
            strs = [i for i in range(2, b.arg_count + 1) if (b.local_ty(i) or "") in ("&str", "&std::string::String")]
            if b.arg_count != 2 or not strs:
                continue
            n += 1
            bi = prog.info(b.id)
            key = "%s:%s:equality" % (label, b.id.split("::")[-1])
            names = {t.callee.path.split("::")[-1] for bb, t in bi.calls()}
            loose = sorted(names & {"starts_with", "ends_with", "contains", "find", "rfind", "strip_prefix", "strip_suffix", "eq_ignore_ascii_case",
                                    "to_lowercase", "to_uppercase", "to_ascii_lowercase", "to_ascii_uppercase", "matches", "trim", "trim_matches", "split", "get"})
            eqs = [t for bb, t in bi.calls(lambda c: c.path in ("std::cmp::PartialEq::eq", "std::cmp::PartialEq::ne"))]
            if loose:
                out.violation(key, prog.loc(b.id), "%s decides project membership with %s: a project id that is only part of (or differs in case from) the name's "
                              "project id is accepted" % (prog.short(b.id), loose))
            elif eqs:
                out.holds(key, prog.loc(b.id), "compares the whole project id for equality")
            else:
                out.undecided(key, prog.loc(b.id), "no equality comparison found")
    if n < 2:
        raise CheckBroken("expected a project-membership predicate on both name types, found %d" % n)


@rule("C18", "R18.11", "a name taken from a request is what the name type's own parser returned: no other way to a TopicName / SubscriptionName in the API layer", floor=2)
def r18_11(prog, out):
    """`accepted only if it consists of projects/, a project id, the segment of *its* kind and an id` is a statement about
    `try_parse`.  The API layer turns request text into names through `fn(&str) -> Result<Name, Status>` wrappers; a fast path
    in such a wrapper (a table of names seen before, keyed by the raw text and shared by both kinds; a hand-rolled split) hands out
    names `try_parse` of that kind never saw.  Instances: every such wrapper (each non-error path calls the kind's `try_parse`),
    and every direct construction of a name in the API layer."""
    from props.c12 import error_blocks
    n = 0
    for label, ty in name_types(prog):
        tp = set(find_parser(prog, ty))
        for b in prog.facts.lib_bodies():
            if b.impl_self == ty or b.coroutine or b.kind not in ("Fn", "AssocFn"):
                continue
            ret = b.local_ty(0) or ""
            if b.arg_count >= 1 and (b.local_ty(1) or "") == "&str" and ty in ret and ("Result<" in ret or "Option<" in ret) and "Vec<" not in ret:
                n += 1
                bi = prog.info(b.id)
                key = "%s:wrapper:%s" % (label, prog.short(b.id))
                calls = {bb for bb, t in bi.calls(lambda c: prog.qual(b, c.target) in tp)}
                # the wrapper may hand the kind's parser to a table of its own kind (`NameCache<TopicName>` built over
                # `TopicName::try_parse`) and take names only out of that: the name is never put together here
                builds = any(st.k == "assign" and st.rv.k == "agg" and st.rv.j.get("adt") == ty for blk in bi.body.blocks for st in blk.stmts) or any(
                    True for bb, t in bi.calls(lambda c: (prog.facts.body(prog.qual(b, c.target)) is not None and prog.facts.body(prog.qual(b, c.target)).impl_self == ty
                                                       and prog.qual(b, c.target) not in tp and not prog.facts.body(prog.qual(b, c.target)).impl_trait
                                                       and any((prog.facts.body(prog.qual(b, c.target)).local_ty(i) or "") == "&str" for i in range(1, prog.facts.body(prog.qual(b, c.target)).arg_count + 1)))))
                typed_table = any(("<%s>" % ty) in (bi.body.local_ty(i) or "") and (bi.body.local_ty(i) or "").lstrip("&").startswith("crate::") for i in range(len(bi.body.locals)))
                parser_as_value = any(isinstance(c.get("fn") if isinstance(c, dict) else None, str) for c in [])
                if not calls and typed_table and not builds:
                    out.undecided(key, prog.loc(b.id), "%s takes its names out of a table typed for %s; that every entry was produced by %s::try_parse for exactly the text "
                                  "it is stored under is not decided here" % (prog.short(b.id), label, label))
                    continue
                if not calls:
                    out.violation(key, prog.loc(b.id), "%s turns text into a %s without calling %s::try_parse" % (prog.short(b.id), label, label))
                    continue
                esc = bi.cfg.escapes(0, calls | error_blocks(bi), after=False)
                if esc is None:
                    out.holds(key, prog.loc(b.id), "every non-error path goes through %s::try_parse" % label)
                elif typed_table and not builds:
                    out.undecided(key, bi.loc(esc[-1]), "%s can answer from a table typed for %s without calling %s::try_parse on that path: whether every entry was produced by it "
                                  "for exactly that text is not decided here" % (prog.short(b.id), label, label))
                else:
                    out.violation(key, bi.loc(esc[-1]), "%s can hand out a %s on a path that never calls %s::try_parse (a remembered / hand-built name): text that is "
                                  "not a %s name -- e.g. a name of the other kind seen earlier -- is accepted as one" % (prog.short(b.id), label, label, label),
                                  ["bb%d (%s)" % (x, bi.loc(x)) for x in esc][:8])
        # direct constructions in the API layer
        ctors = {b.id for b in prog.facts.lib_bodies() if b.impl_self == ty and b.kind == "AssocFn" and not b.impl_trait and b.id not in tp
                 and ty in (b.local_ty(0) or "") and any((b.local_ty(i) or "") == "&str" for i in range(1, b.arg_count + 1))}
        for b in prog.facts.lib_bodies():
            if not (b.file or "").startswith("src/api/"):
                continue
            bi = prog.info(b.id)
            for bb, t in bi.calls(lambda c: prog.qual(b, c.target) in ctors):
                ret = (prog.facts.body(b.root).local_ty(0) if b.root and prog.facts.body(b.root) else b.local_ty(0)) or ""
                key = "%s:built-in-api:%s" % (label, prog.short(b.id))
                out.violation(key, bi.loc(bb), "the API layer builds a %s from parts with %s instead of parsing the request's text with %s::try_parse" % (
                    label, prog.short(prog.qual(b, t.callee.target)), label))
    if n < 2:
        raise CheckBroken("expected the API layer's two name wrappers fn(&str) -> Result<Name, Status>, found %d" % n)
