"""C09 — messages are delivered intact with a stable, globally unique identity."""
import re
from engine import rule, CheckBroken
from slicing import Slicer
from common import short_ty


def wire_constructions(prog, adt_path):
    """aggregate constructions of a wire/message type in hand-written code (not prost's generated impls)"""
    out = []
    for (bid, bb, i, rv) in prog.constructions(adt_path):
        b = prog.facts.body(bid)
        if b.file.startswith("/") or "_serde" in bid or "::_::" in bid:
            continue
        out.append((bid, bb, i, rv))
    return out


PURE_CALLS = {"to_string", "clone", "to_vec", "to_owned", "into", "from", "deref", "deref_mut", "as_ref", "default", "encode", "unwrap_or_default",
              "unwrap_or", "unwrap_or_else", "map", "cloned", "copied", "as_secs", "new", "fmt", "into_iter", "iter", "collect", "ok_or", "ok_or_else",
              "as_str", "as_bytes", "as_slice", "borrow", "to_bytes", "into_bytes", "into_boxed_str", "into_string", "from_utf8_lossy", "format", "must_use",
              "upgrade", "as_micros", "as_millis", "now", "with_capacity", "transpose", "and_then", "get", "trim", "push", "insert", "extend", "len",
              "unwrap", "expect", "message", "ack_id", "into_message"}


def opaque_calls(prog, s):
    """library calls in a slice that are not known value-preserving conversions"""
    out = []
    for c in s.calls:
        if c.startswith("crate::") or c.startswith("<crate::"):
            continue
        n = c.split("::")[-1].split("<")[0]
        if n not in PURE_CALLS:
            out.append(c)
    return out


def message_carrier(ty):
    """a delivered / published message, a reference to one, or a collection of them -- but not a wire message"""
    return ("::PulledMessage" in ty or "::TopicMessage" in ty) and "pubsub_proto" not in ty and "PushPayload" not in ty


def provenance_check(prog, out, sl, label, bid, bb, field, op, required, note_only=False):
    bi = prog.info(bid)
    # the mapping starts at the message that was pulled: how the handler got hold of it (which handle, which manager lookup)
    # is not content of the delivery
    from slicing import Slicer
    s = Slicer(prog, stop_at=message_carrier).of(bid, op)
    s.roots = {r for r in s.roots if r[0] != "source"}
    # the mapping function's own parameters are its inputs: what matters is which fields are read from them
    own_params = {r for r in s.roots if r[0] == "param" and r[1] == bid}
    if own_params and not opaque_calls(prog, s):
        s.roots -= own_params
    key = "%s:%s.%s" % (prog.short(bid), label, field)
    site = bi.loc(bb)
    req_s = "%s.%s" % (short_ty(required[0]), required[1])
    nav = {("crate::subscriptions::pulled_message::PulledMessage", "message"), ("crate::topics::topic_message::MessageId", "value"), required}
    foreign = sorted(f for f in s.fields if (f[0].startswith("crate::") and not f[0].startswith("crate::pubsub_proto")) and f not in nav
                     and not f[0].endswith("::PushPayloadMessage") and not f[0].endswith("::PushPayload"))
    clocks = sorted(c for c in s.calls if c.split("::")[-1] in ("now", "elapsed", "duration_since") and ("Instant" in c or "SystemTime" in c))
    if clocks and not note_only:
        out.violation(key, site, "delivered field `%s` depends on a clock read at delivery time (%s): every delivery of the same message must report the same value"
                      % (field, ", ".join(c.split("::")[-2] + "::" + c.split("::")[-1] for c in clocks)))
    elif s.reads(required) and foreign and not note_only:
        out.violation(key, site, "delivered field `%s` is not exactly the published %s: it also takes content from %s" % (
            field, req_s, ", ".join("%s.%s" % (short_ty(f[0]), f[1]) for f in foreign)))
    elif s.reads(required):
        out.holds(key, site, "%s is derived from %s (via %s)" % (field, req_s, sorted(c.split("::")[-1] for c in s.calls)[:4]))
    elif not s.complete():
        out.undecided(key, site, "%s: provenance leaves the analysed code (%s)" % (field, sorted(s.roots)[:2]))
    else:
        what = "constants only (%s)" % sorted(map(str, s.consts | {c.split('::')[-1] for c in s.calls}))[:3] if not s.fields else \
            "other fields only (%s)" % sorted(f[0].split("::")[-1] + "." + f[1] for f in s.fields)[:4]
        if note_only:
            out.undecided(key, site, "note: %s is built from %s, not from %s (not required by the property for this path)" % (field, what, req_s))
        else:
            out.violation(key, site, "delivered field `%s` does not depend on the published %s: it is built from %s" % (field, req_s, what))


@rule("C09", "R09.1", "every delivery mapping carries data, attributes, id (and publish time on pull) from the published message", floor=8)
def r09_1(prog, out):
    A = prog.anchors
    sl = Slicer(prog)
    tm = A.ty("TopicMessage")
    # (a) pull deliveries: PubsubMessage built from a TopicMessage
    pm = A.ty("PubsubMessage")
    n_pull = 0
    for (bid, bb, i, rv) in wire_constructions(prog, pm):
        names = rv.j["fields"]
        n_pull += 1
        for f, src in (("data", "data"), ("attributes", "attributes"), ("message_id", "id"), ("publish_time", "published_at")):
            if f not in names:
                raise CheckBroken("PubsubMessage has no field %s" % f)
            provenance_check(prog, out, sl, "PubsubMessage", bid, bb, f, rv.ops[names.index(f)], (tm, src))
    if n_pull == 0:
        raise CheckBroken("no hand-written construction of PubsubMessage found (pull delivery mapping)")
    # (b) push deliveries
    pp = A.ty("PushPayloadMessage")
    n_push = 0
    for (bid, bb, i, rv) in wire_constructions(prog, pp):
        names = rv.j["fields"]
        n_push += 1
        for f, src in (("data", "data"), ("attributes", "attributes"), ("message_id", "id"), ("message_id_dupe", "id")):
            if f in names:
                provenance_check(prog, out, sl, "PushPayloadMessage", bid, bb, f, rv.ops[names.index(f)], (tm, src))
        if "data" in names:
            sd = sl.of(bid, rv.ops[names.index("data")])
            engines = sorted(str(c) for c in sd.consts if "base64" in str(c))
            key = "%s:PushPayloadMessage.data:encoding" % prog.short(bid)
            if any(c.endswith("Engine::encode") for c in sd.calls) and engines:
                if all(e.split("::")[-1] == "STANDARD" for e in engines):
                    out.holds(key, prog.loc(bid, bb), "data bytes are carried as standard base64 (reversible at the endpoint)")
                else:
                    out.violation(key, prog.loc(bid, bb), "push data is encoded with %s, not the standard base64 alphabet the push contract uses: binary payloads "
                                  "do not decode to the published bytes" % engines[0].split("::")[-1])
        for f in ("publish_time", "publish_time_dupe"):
            if f in names:
                provenance_check(prog, out, sl, "PushPayloadMessage", bid, bb, f, rv.ops[names.index(f)], (tm, "published_at"), note_only=True)
    if n_push == 0:
        raise CheckBroken("no construction of PushPayloadMessage found (push delivery mapping)")
    # (c) ingestion: TopicMessage built from the request's PubsubMessage
    n_in = 0
    for (bid, bb, i, rv) in wire_constructions(prog, tm):
        # the constructor takes (data, attributes) as parameters: check at its callers
        bi = prog.info(bid)
        names = rv.j["fields"]
        params = {}
        for f in ("data", "attributes"):
            o = bi.trace(rv.ops[names.index(f)])
            if o.kind == "param":
                params[f] = o.data
        for cid, cb in prog.facts.bodies.items():
            ci = prog.info(cid)
            for cbb, t in ci.calls(lambda c: prog.qual(cb, c.target) == bid):
                n_in += 1
                for f, pidx in params.items():
                    provenance_check(prog, out, sl, "TopicMessage::new", cid, cbb, f, t.args[pidx - 1], (pm, f))
        if not params:
            for f in ("data", "attributes"):
                provenance_check(prog, out, sl, "TopicMessage", bid, bb, f, rv.ops[names.index(f)], (pm, f))
                n_in += 1
    if n_in == 0:
        raise CheckBroken("no ingestion mapping PubsubMessage -> TopicMessage found")


ARC_MUT_API = ("std::sync::Arc::<T, A>::get_mut", "std::sync::Arc::<T, A>::make_mut", "std::sync::Arc::<T, A>::get_mut_unchecked",
               "std::sync::Arc::<T, A>::try_unwrap", "std::sync::Arc::<T, A>::into_inner", "std::sync::Arc::<T, A>::unwrap_or_clone",
               "std::sync::Arc::<T, A>::as_ptr", "std::sync::Arc::<T, A>::into_raw")


@rule("C09", "R09.2", "a TopicMessage is never modified after it was wrapped for sharing", floor=3)
def r09_2(prog, out):
    A = prog.anchors
    tm = A.ty("TopicMessage")
    cells = [A.cell("TopicMessage", f) for f in ("id", "published_at", "data", "attributes")]
    # direct writers of the message fields
    writers = {}
    for bid, b in prog.facts.bodies.items():
        for e in prog.effects(bid):
            if e.kind in ("write", "take", "clear", "insert", "remove", "insert_back") and not e.chain and any(e.touches(c) for c in cells):
                writers.setdefault(bid, []).append(e)
    for bid, effs in sorted(writers.items()):
        b = prog.facts.body(bid)
        key = "writer:%s" % prog.short(bid)
        if b.impl_self == tm and all(set(e.cells) & {cells[0], cells[1]} for e in effs):
            out.holds(key, prog.loc(bid), "setter of id / published_at inside impl TopicMessage")
        else:
            e = effs[0]
            out.violation(key, prog.loc(bid, e.bb), "%s modifies TopicMessage.%s outside the publish setter" % (prog.short(bid), e.cells[-1][1]))
    # callers of the writers: the receiver must be a by-value message that is wrapped (Arc::new) afterwards
    n_calls = 0
    for cid, cb in prog.facts.bodies.items():
        ci = prog.info(cid)
        for cbb, t in ci.calls(lambda c: prog.qual(cb, c.target) in writers):
            n_calls += 1
            key = "setter-call:%s" % prog.short(cid)
            o = ci.trace(t.args[0], through_clone=False)
            through_arc = any("Arc" in v[1] for v in o.via)
            recv_ty = cb.local_ty(o.data) if o.kind in ("param", "local") and isinstance(o.data, int) else ""
            if through_arc or "std::sync::Arc<" in recv_ty:
                out.violation(key, ci.loc(cbb), "publish setter is applied to a message reached through an Arc (already shared)")
                continue
            # Arc::new of the same value must follow on every path to return
            arcs = [bb for bb, tt in ci.calls(lambda c: c.path == "std::sync::Arc::<T>::new") if cb.operand_ty(tt.args[0]) == tm]
            if o.kind in ("param", "local") and recv_ty == tm and arcs and ci.cfg.escapes(cbb, arcs) is None:
                out.holds(key, ci.loc(cbb), "setter runs on the by-value message before it is wrapped in Arc::new on every path")
            elif recv_ty == tm:
                out.undecided(key, ci.loc(cbb), "setter runs on a by-value message; wrapping site not on every path")
            else:
                out.undecided(key, ci.loc(cbb), "receiver of the setter could not be resolved (%r)" % o)
    # no mutable access through Arc<TopicMessage>
    n_arc = 0
    for bid, b in prog.facts.bodies.items():
        bi = prog.info(bid)
        for bb, t in bi.calls(lambda c: c.path.startswith("std::sync::Arc::<")):
            if tm not in " ".join(t.callee.args or []) and tm not in " ".join(b.operand_ty(a) or "" for a in t.args):
                continue
            n_arc += 1
            if t.callee.path in ARC_MUT_API:
                out.violation("arc-mut:%s" % prog.short(bid), bi.loc(bb), "%s on Arc<TopicMessage> gives mutable access to a shared message" % t.callee.path.split("::")[-1])
    out.holds("arc-api", "", "%d Arc<TopicMessage> API call(s) inspected, none hands out mutable access" % n_arc, nontrivial=n_arc > 0)
    # the delivery never swaps its message
    pmcell = A.cell("PulledMessage", "message")
    bad = [(bid, e) for bid in prog.facts.bodies for e in prog.effects(bid) if e.kind == "write" and not e.chain and e.touches(pmcell)]
    if bad:
        bid, e = bad[0]
        out.violation("pulled-message-write:%s" % prog.short(bid), prog.loc(bid, e.bb), "PulledMessage.message is overwritten after construction")
    else:
        out.holds("pulled-message-immutable", "", "PulledMessage.message is only set by its constructor")


def int_bits(ty):
    m = re.match(r"^[ui](\d+)$", ty or "")
    if m:
        return int(m.group(1))
    if ty in ("usize", "isize"):
        return 64
    return None


def id_cells(prog):
    """(topic-id cell, counter cell): TopicActor.topic_internal_id / TopicActor.next_message_id, or -- when the two were grouped
    into a small struct owned by the actor (`ids: MessageIdSequence { topic_internal_id, last_issued }`) -- the fields of that
    struct the MessageId constructor is fed from inside the publish handler"""
    A = prog.anchors
    ctr = A.cell("TopicActor", "next_message_id", optional=True)
    tid = A.cell("TopicActor", "topic_internal_id", optional=True)
    if ctr is not None and tid is not None:
        return tid, ctr
    from actorlib import roles
    R = roles(prog)
    mid = A.ty("MessageId")
    actor_ty = A.ty("TopicActor")
    owned = {f["ty"].split("<")[0] for v in prog.facts.adt(actor_ty)["variants"] for f in v["fields"] if f["ty"].startswith("crate::")}
    for cid in prog.cone(R.publish_body(), follow=("call", "closure", "poll")):
        ci = prog.info(cid)
        if ci is None:
            continue
        for cbb, t in ci.calls(lambda c: (c.target or "").startswith(mid + "::") and (c.local or c.res_local)):
            if len(t.args) != 2:
                continue
            cs = []
            for a in t.args:
                o = prog.receiver_origin(ci, a)
                cells = list(cells_of(prog, ci, o)) or list(upvar_cells(prog, ci, o))
                cells = [c for c in cells if c[0] in owned or c[0] == actor_ty]
                cs.append(cells[-1] if cells else None)
            if cs[0] is not None and cs[1] is not None:
                return (tid or cs[0]), (ctr or cs[1])
    return tid, ctr


@rule("C09", "R09.3", "message ids are unique: one constructor, fresh counter, never-reused topic id, injective bit layout", floor=5)
def r09_3(prog, out):
    A = prog.anchors
    mid = A.ty("MessageId")
    tid, ctr = id_cells(prog)
    from actorlib import roles
    R = roles(prog)
    pub_cone = set(prog.cone(R.publish_body(), follow=("call", "closure", "poll")))
    # (1) who constructs MessageId values
    ctor = None
    for (bid, bb, i, rv) in prog.constructions(mid):
        b = prog.facts.body(bid)
        key = "construct:%s" % prog.short(bid)
        if b.impl_self == mid:
            out.holds(key, prog.loc(bid, bb), "constructed inside impl MessageId")
            if b.impl_trait is None:
                ctor = bid
        else:
            out.violation(key, prog.loc(bid, bb), "MessageId is built outside its constructor: uniqueness is no longer carried by (topic id, counter)")
    if ctor is None:
        raise CheckBroken("MessageId constructor not found")
    # (2) callers of the constructor
    callers = 0
    for cid, cb in prog.facts.bodies.items():
        ci = prog.info(cid)
        for cbb, t in ci.calls(lambda c: prog.qual(cb, c.target) == ctor):
            callers += 1
            key = "id-source:%s" % prog.short(cid)
            if cid not in pub_cone:
                # building an id is allocating one only if the counter moves or a message is stamped with it: a read-only
                # accessor that re-creates `the last id issued` for a statistic allocates nothing
                stamps = any((t2.callee.target or "") == A.ty("TopicMessage") + "::publish" for _b2, t2 in ci.calls())
                moves = any(e.kind == "write" and not e.chain and ctr in cells_of_effect(prog, ci, e) for e in prog.effects(cid))
                if not stamps and not moves:
                    out.holds(key, ci.loc(cbb), "re-creates an id for reporting: no counter write, no message stamped", nontrivial=False)
                    continue
                out.violation(key, ci.loc(cbb), "message ids are allocated outside the topic actor's publish handler (in %s): allocation is no longer serialised with the "
                              "acceptance of the messages, so ids do not follow the order in which the topic accepted them (and two tasks can race on the counter)" % prog.short(cid))
                continue
            o0 = prog.receiver_origin(ci, t.args[0])
            o1 = prog.receiver_origin(ci, t.args[1])
            c0 = cells_of(prog, ci, o0)
            c1 = cells_of(prog, ci, o1)
            ok0 = tid in c0
            ok1 = ctr in c1
            if not (ok0 and ok1):
                out.violation(key, ci.loc(cbb), "MessageId::new is fed from (%r, %r) instead of (TopicActor.topic_internal_id, TopicActor.next_message_id)" % (o0, o1))
                continue
            # counter advanced before the read on every path from the closure entry
            writes = [e for e in prog.effects(cid) if e.kind == "write" and not e.chain and ctr in cells_of_effect(prog, ci, e)]
            if not writes:
                out.violation(key, ci.loc(cbb), "the per-topic counter is not advanced in the body that issues the id: two messages get the same id")
                continue
            wbb = writes[0].bb
            inc = increment_kind(ci, writes[0])
            if not ci.cfg.dominates(wbb, cbb) and not any(ci.cfg.escapes(cbb, [w.bb for w in writes]) is None for _ in [0]):
                out.violation(key, ci.loc(cbb), "an id can be issued on a path that does not advance the counter")
            elif inc == "inc":
                out.holds(key, ci.loc(cbb), "id = (topic_internal_id, counter) with the counter incremented by a positive constant per message")
            elif inc == "bad":
                out.violation(key, ci.loc(writes[0].bb), "the counter update is not a strict increment: ids can repeat")
            else:
                out.undecided(key, ci.loc(writes[0].bb), "counter update shape not recognised")
    if callers == 0:
        raise CheckBroken("MessageId constructor is never called")
    # (3) topic_internal_id is fixed at construction; manager next_id strictly increases and is never reset
    for cell, label in (((tid, "TopicActor.topic_internal_id"),) if tid else ()):
        ws = [(bid, e) for bid in prog.facts.bodies for e in prog.effects(bid) if e.kind == "write" and not e.chain and e.touches(cell)]
        if ws:
            out.violation("write:%s" % label, prog.loc(ws[0][0], ws[0][1].bb), "%s is modified after construction" % label)
        else:
            out.holds("write-once:%s" % label, "", "%s is only set when the actor is built" % label)
    nid = A.cell("TopicState", "next_id")
    ws = [(bid, e) for bid in prog.facts.bodies for e in prog.effects(bid) if e.kind == "write" and not e.chain and e.touches(nid)]
    if not ws:
        out.violation("next_id:never-advanced", "", "the topic manager's next_id is never written: every topic gets the same internal id, so message ids "
                      "(topic id << 32 | counter) repeat across topics")
        ws = []
    for bid, e in ws:
        bi = prog.info(bid)
        k = increment_kind(bi, e)
        key = "next_id:%s" % prog.short(bid)
        if k == "inc":
            out.holds(key, bi.loc(e.bb), "topic ids come from a counter that only increases")
        elif k == "bad":
            out.violation(key, bi.loc(e.bb), "topic manager's next_id is not strictly increased here: a re-created topic can reuse an id (and so message ids)")
        else:
            out.undecided(key, bi.loc(e.bb), "next_id update shape not recognised")
    # the id handed to the topic comes from that counter
    tstate = A.ty("TopicState")
    for bid, b in prog.facts.bodies.items():
        bi = prog.info(bid)
        for bb, t in bi.calls(lambda c: c.target == A.ty("Topic") + "::new"):
            # the id argument: the integer among the arguments (the constructor may take more than (delegate, info, id))
            ints = [a for a in t.args if (b.operand_ty(a) or "") in ("u32", "u64", "usize", "u16")]
            if not ints:
                out.undecided("topic-id-source:%s" % prog.short(bid), bi.loc(bb), "Topic::new takes no integer id")
                continue
            key = "topic-id-source:%s" % prog.short(bid)
            o = prog.receiver_origin(bi, ints[0])
            recycled = sorted(recycled_sources(prog, bi, ints[0], tstate, nid, A.ty("Topic")))
            if recycled and any(nid in cells_of(prog, bi, prog.receiver_origin(bi, a)) for a in ints):
                out.violation(key, bi.loc(bb), "the topic's internal id comes from the manager's counter on one path and from stored state on another (%s): an id that "
                              "was in use before is handed out again, and with it every message id of the earlier topic" % ", ".join("%s.%s" % (short_ty(f[0]), f[1]) for f in recycled))
            elif any(nid in cells_of(prog, bi, prog.receiver_origin(bi, a)) for a in ints):
                out.holds(key, bi.loc(bb), "Topic::new receives the manager's next_id")
            else:
                out.violation(key, bi.loc(bb), "the topic's internal id does not come from the manager's counter (%r)" % o)
    # (4) bit layout of the constructor
    bit_layout(prog, out, ctor)


def recycled_sources(prog, bi, op, tstate, nid, topic_ty, depth=0, seen=None):
    """state cells other than the counter that one of the assignments feeding `op` reads (followed through moves, `?`, Option
    payloads and value-preserving calls -- not through `self` as a whole)"""
    seen = seen if seen is not None else set()
    out = set()
    if op.place is None or depth > 6:
        return out
    o = prog.receiver_origin(bi, op)
    for c in o.cells():
        if (c[0] == tstate and c != nid) or c == (topic_ty, "internal_id"):
            out.add(c)
    if o.kind == "local" and isinstance(o.data, int) and o.data not in seen:
        seen.add(o.data)
        for (bb, i) in bi.defs.get(o.data, []):
            if i >= 0:
                st = bi.stmt(bb, i)
                for x in st.rv.ops:
                    out |= recycled_sources(prog, bi, x, tstate, nid, topic_ty, depth + 1, seen)
            else:
                t = bi.call_at(bb)
                if t is not None and t.callee is not None and t.callee.path.split("::")[-1] in ("map", "unwrap_or", "unwrap_or_else", "unwrap_or_default", "copied", "cloned", "remove", "get", "pop_front", "pop_back", "and_then"):
                    for x in t.args[:1]:
                        out |= recycled_sources(prog, bi, x, tstate, nid, topic_ty, depth + 1, seen)
    if o.kind == "call" and isinstance(o.data, int):
        t = bi.call_at(o.data)
        if t is not None and t.callee is not None and t.callee.path.split("::")[-1] in ("map", "unwrap_or", "unwrap_or_else", "unwrap_or_default", "copied", "cloned", "remove", "get", "pop_front", "pop_back", "and_then"):
            for x in t.args[:1]:
                out |= recycled_sources(prog, bi, x, tstate, nid, topic_ty, depth + 1, seen)
    return out


def cells_of(prog, bi, o):
    """cells of an origin, following a by-value copy `_x = (*self).field` one more step"""
    cs = set(o.cells())
    if o.kind == "local" and isinstance(o.data, int):
        for (bb, i) in bi.defs.get(o.data, []):
            if i >= 0:
                s = bi.stmt(bb, i)
                for op in s.rv.ops:
                    if op.place is not None:
                        cs |= set(prog.receiver_origin(bi, op.place).cells())
    if o.kind == "upvar" and "." in str(o.data):
        # precise capture `self.next_message_id`
        pass
    return cs | upvar_cells(prog, bi, o)


def upvar_cells(prog, bi, o):
    """resolve a captured place to the cells it denotes in the parent body"""
    out = set()
    if o.kind != "upvar":
        return out
    parent = bi.body.parent
    if not parent:
        return out
    pid = prog.qual(bi.body, parent)
    pi = prog.info(pid)
    if pi is None:
        return out
    for b in pi.body.blocks:
        for s in b.stmts:
            if s.k == "assign" and s.rv.k == "agg" and s.rv.j.get("ak") in ("closure", "coroutine") and prog.qual(pi.body, s.rv.j["def"]) == bi.body.id:
                names = s.rv.j.get("fields", [])
                if o.data in names:
                    po = prog.receiver_origin(pi, s.rv.ops[names.index(o.data)])
                    out |= set(po.cells()) | set(o.cells())
                    out |= upvar_cells(prog, pi, po)
    return out


def cells_of_effect(prog, bi, e):
    cs = set(e.cells)
    if e.origin is not None:
        cs |= upvar_cells(prog, bi, e.origin)
    return cs


def increment_kind(bi, e):
    """classify `x = x + c` writes: inc (c >= 1 constant, overflow-checked or wrapping add), bad (constant store /
    subtraction / saturating), unknown"""
    if e.extra is None:
        return "unknown"
    bb, i = e.extra
    s = bi.stmt(bb, i)
    if s.rv.k != "use":
        if s.rv.k == "bin":
            return classify_bin(s.rv)
        return "unknown"
    op = s.rv.ops[0]
    if op.place is None:
        return "bad"   # constant store
    # `move _t.0` where _t = AddWithOverflow(x, const c)
    src = op.place.local
    for (dbb, di) in bi.defs.get(src, []):
        if di >= 0:
            d = bi.stmt(dbb, di)
            if d.rv.k == "bin":
                return classify_bin(d.rv)
        else:
            t = bi.body.blocks[dbb].term
            if t.k == "call" and t.callee is not None:
                n = t.callee.path.split("::")[-1]
                if n in ("wrapping_add", "checked_add", "unchecked_add"):
                    c = t.args[1].const_int() if len(t.args) > 1 else None
                    return "inc" if c is not None and c >= 1 else "unknown"
                if n in ("saturating_add", "min", "max", "clamp", "saturating_sub", "wrapping_sub"):
                    return "bad"
    return "unknown"


def classify_bin(rv):
    op = rv.j["op"]
    c = rv.ops[1].const_int()
    if op in ("Add", "AddWithOverflow", "AddUnchecked"):
        if c is not None:
            return "inc" if c >= 1 else "bad"
        return "unknown"
    if op in ("Sub", "SubWithOverflow", "Rem", "BitAnd", "BitOr", "Shr", "Div"):
        return "bad"    # decreasing, idempotent or many-to-one: the value can repeat
    return "unknown"


def bit_layout(prog, out, ctor):
    """`(hi as u64) << S | (lo as u64)`: injective iff S >= bits(lo) and S + bits(hi) <= 64"""
    bi = prog.info(ctor)
    b = bi.body
    key = "bits:%s" % prog.short(ctor)
    # find the aggregate and walk the expression tree
    agg = None
    for blk in b.blocks:
        for s in blk.stmts:
            if s.k == "assign" and s.rv.k == "agg" and s.rv.j.get("ak") == "adt" and s.rv.ops and s.rv.j.get("adt") == prog.anchors.ty("MessageId") and not s.exp:
                agg = s
    if agg is None:
        out.undecided(key, prog.loc(ctor), "constructor shape not recognised")
        return

    def expr(op):
        if op.place is None:
            return ("const", op.const_int())
        l = op.place.local
        if not op.place.is_local():
            return ("unknown",)
        if 1 <= l <= b.arg_count:
            return ("param", l, int_bits(b.local_ty(l)))
        ds = bi.defs.get(l, [])
        if len(ds) != 1 or ds[0][1] < 0:
            return ("unknown",)
        s = bi.stmt(*ds[0])
        if s.rv.k == "use":
            return expr(s.rv.ops[0])
        if s.rv.k == "cast" and s.rv.j["ck"] == "IntToInt":
            inner = expr(s.rv.ops[0])
            return ("cast", inner, int_bits(b.ty(s.rv.j["from"])), int_bits(b.ty(s.rv.j["to"])))
        if s.rv.k == "bin":
            return ("bin", s.rv.j["op"], expr(s.rv.ops[0]), expr(s.rv.ops[1]))
        return ("unknown",)

    def support(e):
        """(set of result bit positions occupied, injective?) or None"""
        if e[0] == "param":
            return (0, e[2], {e[1]})
        if e[0] == "cast":
            inner = support(e[1])
            if inner is None or e[2] is None or e[3] is None:
                return None
            lo, width, ps = inner
            if e[3] < lo + width:
                return ("lossy",)
            return inner
        if e[0] == "bin" and e[1] in ("Shl", "ShlUnchecked"):
            inner = support(e[2])
            sh = e[3][1] if e[3][0] == "const" else None
            if e[3][0] == "cast" and e[3][1][0] == "const":
                sh = e[3][1][1]
            if inner is None or sh is None or inner[0] == "lossy":
                return inner if inner and inner[0] == "lossy" else None
            return (inner[0] + sh, inner[1], inner[2])
        return None

    top = expr(agg.rv.ops[0])
    if top[0] == "bin" and top[1] in ("BitOr", "Add", "BitXor", "AddWithOverflow"):
        a, c = support(top[2]), support(top[3])
        if a is None or c is None:
            out.undecided(key, prog.loc(ctor), "bit layout uses operations without a transfer function")
            return
        if a[0] == "lossy" or c[0] == "lossy":
            out.violation(key, prog.loc(ctor), "a component is narrowed before it is packed: distinct (topic id, counter) pairs collide")
            return
        (alo, aw, ap), (clo, cw, cp) = a, c
        overlap = not (alo + aw <= clo or clo + cw <= alo)
        trunc = alo + aw > 64 or clo + cw > 64
        if overlap or trunc or ap == cp:
            out.violation(key, prog.loc(ctor), "bit ranges [%d,%d) and [%d,%d) of the two id components %s: distinct (topic id, counter) pairs can produce the same message id"
                          % (alo, alo + aw, clo, clo + cw, "overlap" if overlap else "are truncated"))
        else:
            out.holds(key, prog.loc(ctor), "id packs the components into disjoint bit ranges [%d,%d) and [%d,%d): injective" % (alo, alo + aw, clo, clo + cw))
    else:
        out.undecided(key, prog.loc(ctor), "id is not a two-component packing (%s)" % (top[0],))


@rule("C09", "R09.4", "the id Publish returns and the one publish time of the batch are stored in the message before it is shared", floor=3)
def r09_4(prog, out):
    """The delivered id is `message.id` (R09.1); the returned id is what the publish step pushes to the response (R08.1).
    They are the same value only if the step stamps the message: a setter that stores its id / time parameters into
    TopicMessage.id / .published_at on every path, called on every pass of the per-message step before Arc::new."""
    from actorlib import roles
    A = prog.anchors
    R = roles(prog)
    tm = A.ty("TopicMessage")
    id_cell, time_cell = A.cell("TopicMessage", "id"), A.cell("TopicMessage", "published_at")
    # who writes the two fields (outside constructors, which build the whole struct)
    writers = {}
    for b in prog.facts.lib_bodies():
        if b.file.startswith("/"):
            continue
        for e in prog.effects(b.id):
            if e.kind == "write" and not e.chain and e.cells and e.cells[-1] in (id_cell, time_cell):
                writers.setdefault(b.id, []).append(e)
    if not writers:
        out.violation("stamp", "", "no code stores an id into TopicMessage.id after construction: every delivered message carries the placeholder id, not the id "
                      "Publish returned")
        return
    pid = R.publish_body()
    stamped_in_publish = False
    for wid, effs in sorted(writers.items()):
        wi = prog.info(wid)
        wb = wi.body
        name = prog.short(wid)
        for cell, label in ((id_cell, "id"), (time_cell, "published_at")):
            es = [e for e in effs if e.cells[-1] == cell]
            key = "stamp:%s:%s" % (name, label)
            if not es:
                if wid != pid and any(e.cells[-1] == (time_cell if cell == id_cell else id_cell) for e in effs):
                    out.violation(key, prog.loc(wid), "%s stamps a message but does not store its %s: deliveries carry the placeholder value" % (name, label))
                continue
            ok_src = True
            for e in es:
                st = wi.stmt(*e.extra) if e.extra else None
                src = wi.trace(st.rv.ops[0]) if st is not None and st.rv.ops else None
                if src is None or src.kind == "const" or (src.kind == "agg"):
                    ok_src = False
            if not ok_src:
                out.violation(key, wi.loc(es[0].bb), "TopicMessage.%s is overwritten with a constant / fresh value instead of the value handed in" % label)
            elif wi.cfg.escapes(0, {e.bb for e in es}, after=False) is not None:
                out.violation(key, wi.loc(es[0].bb), "a path through %s leaves TopicMessage.%s unset" % (name, label))
            else:
                out.holds(key, wi.loc(es[0].bb), "stores the %s it is given, on every path" % label)
        # the stamp is applied by the publish step (directly, or by calling this setter)
    ids_written = [e for e in prog.effects(pid) if e.kind == "write" and e.cells and e.cells[-1] == id_cell] + \
                  [e for c in prog.facts.descendants(pid) for e in prog.effects(c) if e.kind == "write" and e.cells and e.cells[-1] == id_cell]
    key = "publish-stamps:%s" % prog.short(pid)
    if ids_written:
        out.holds(key, prog.loc(pid), "the publish step stores the allocated id in each message")
    else:
        out.violation(key, prog.loc(pid), "the publish handler allocates and returns ids but never stores them in the messages: deliveries carry a different id "
                      "than Publish returned")


@rule("C09", "R09.5", "the message id is rendered the same way wherever it leaves the server (publish response, pull, push)", floor=1)
def r09_5(prog, out):
    """Publish returns the id as a string; Pull / StreamingPull and the push payload carry it as a string.  `the message ID that
    Publish returned` needs all of them to render the same number the same way.  Instances: every `to_string()` / `format!` of a
    MessageId or of its integer on the way into a response / delivery field.  HOLDS when all go through one rendering (the id
    type's Display, or the integer's), or when the id type's Display is the integer's (transparent); VIOLATION when they differ
    and the id type's Display is not transparent (padding, a prefix, another base)."""
    A = prog.anchors
    mid = A.ty("MessageId")
    disp = [b.id for b in prog.facts.lib_bodies() if b.impl_self == mid and b.impl_trait == "std::fmt::Display" and b.id.endswith("::fmt")]
    transparent = None
    if disp:
        di = prog.info(disp[0])
        calls = [t.callee for bb, t in di.calls()]
        transparent = len(calls) == 1 and calls[0].path == "std::fmt::Display::fmt" and "for u64" in (calls[0].res or "") or \
            (len(calls) == 1 and calls[0].path.endswith("Display::fmt") and any(a in ("u64", "&u64") for a in (calls[0].args or [])))
    sl = Slicer(prog)
    sites = []
    outs = [(A.ty("PubsubMessage"), ("message_id",)), (A.ty("PushPayloadMessage"), ("message_id", "message_id_dupe")),
            ("crate::pubsub_proto::PublishResponse", ("message_ids",))]
    for ty, fields in outs:
        for (bid, bb, i, rv) in prog.constructions(ty):
            b = prog.facts.body(bid)
            if b is None or b.crate != "lib" or bid.startswith("crate::pubsub_proto"):
                continue
            names = rv.j.get("fields") or []
            for f in fields:
                if f not in names:
                    continue
                s = sl.of(bid, rv.ops[names.index(f)])
                kinds = set()
                for (sb, sbb) in s.sites:
                    si = prog.info(sb)
                    t = si.call_at(sbb) if si is not None else None
                    if t is None or t.callee is None:
                        continue
                    if t.callee.path.endswith("ToString::to_string") and t.callee.args:
                        a0 = t.callee.args[0].lstrip("&")
                        if a0 == mid:
                            kinds.add("id")
                        elif a0 in ("u64", "u32", "u128", "usize", "i64"):
                            kinds.add("int")
                if ("crate::topics::topic_message::MessageId", "value") in s.fields or kinds:
                    sites.append((short_ty(ty) + "." + f, prog.loc(bid, bb), kinds))
    if not sites:
        raise CheckBroken("no response / delivery field carrying a message id found")
    allk = set()
    for _n, _l, k in sites:
        allk |= k
    key = "id-rendering"
    if len(allk) <= 1:
        out.holds(key, sites[0][1], "all %d id fields are rendered through %s" % (len(sites), "the id type's Display" if allk == {"id"} else "one rendering"))
    elif transparent:
        out.holds(key, sites[0][1], "ids are rendered through the id type and through its integer; the id type's Display writes the integer unchanged")
    else:
        odd = [n for n, l, k in sites if "int" in k]
        out.violation(key, [l for n, l, k in sites if "int" in k][0], "%s render(s) the raw integer while the other id fields go through MessageId's Display, which is not "
                      "the plain integer (%s): the id a delivery carries is not the string Publish returned" % (", ".join(odd), prog.loc(disp[0]) if disp else "?"),
                      ["%s: %s at %s" % (n, sorted(k), l) for n, l, k in sites])
