"""C04 — unacked deliveries are redelivered at the ack deadline, never earlier."""
from engine import rule, CheckBroken
from actorlib import roles
from slicing import Slicer
from intervals import IntervalWalker, merge_partition, compare_partitions, INT_RANGES
from common import await_class, short_ty
from props.c05 import classify_duration_path, diff_partition, secs_point_equiv
from props import c03
import libmodel as L

rule("C04", "R03.3", "every hand-out uses a fresh ack id: read the counter, then advance it by AckId::next", floor=3)(c03.r03_3)

CMP = {"lt": "<", "le": "<=", "gt": ">", "ge": ">="}
RELS = {"<": {"<"}, "<=": {"<", "="}, ">": {">"}, ">=": {">", "="}}
FLIP = {"<": ">", ">": "<", "=": "="}


def expiry_popper(prog, R):
    """tracker bodies that remove the first entry of the schedule"""
    tr = prog.anchors.ty("OutstandingMessageTracker")
    out = []
    for bid in R.impl_bodies(tr):
        for e in prog.effects(bid):
            if not e.chain and e.touches(R.t_expirations) and e.kind in ("remove_front",):
                out.append((bid, e))
    return out


@rule("C04", "R04.1", "the expiry schedule is only popped when now >= deadline; `now` is Instant::now() unmodified", floor=2)
def r04_1(prog, out):
    R = roles(prog)
    sl = Slicer(prog)
    pops = expiry_popper(prog, R)
    if not pops:
        raise CheckBroken("no tracker body pops the expiry schedule")
    for bid, e in pops:
        bi = prog.info(bid)
        b = bi.body
        key = "guard:%s" % prog.short(bid)
        # comparisons between a parameter (now) and something read from the schedule
        guards = []
        for bb, t in bi.calls(lambda c: c.path.startswith("std::cmp::PartialOrd::") and c.path.split("::")[-1] in CMP):
            sa, sb = sl.of(bid, t.args[0]), sl.of(bid, t.args[1])
            a_now = any(r[0] == "param" and r[2] >= 2 for r in sa.roots) and not any("BTreeSet" in c for c in sa.calls)
            b_now = any(r[0] == "param" and r[2] >= 2 for r in sb.roots) and not any("BTreeSet" in c for c in sb.calls)
            a_key = any("BTreeSet" in c and c.endswith("first") for c in sa.calls)
            b_key = any("BTreeSet" in c and c.endswith("first") for c in sb.calls)
            if (a_now and b_key) or (a_key and b_now):
                guards.append((bb, t, a_now))
        # the comparison may sit in a closure handed to Option::is_some_and / map_or(false, ..) on `expirations.first()`:
        #   while self.expirations.first().is_some_and(|(deadline, _)| deadline.time() <= *time) { pop }
        closure_guards = []
        from mapstate import _bool_switches
        for cbb, ct in bi.calls(lambda c: c.path.split("::")[-1] in ("is_some_and", "map_or", "is_none_or") and "Option" in c.path):
            recv = sl.of(bid, ct.args[0])
            if not any("BTreeSet" in c and c.endswith("first") for c in recv.calls):
                continue
            co = bi.trace(ct.args[-1])
            if co.kind != "agg" or bi.agg_at(co.data).j.get("ak") != "closure":
                continue
            cid = prog.qual(b, bi.agg_at(co.data).j["def"])
            ci = prog.info(cid)
            if ci is None:
                continue
            for gbb, gt in ci.calls(lambda c: c.path.startswith("std::cmp::PartialOrd::") and c.path.split("::")[-1] in CMP):
                ro = ci.trace(0)
                if not (ro.kind == "call" and ro.data == gbb):
                    continue              # the closure does not return the comparison itself
                sa, sb = sl.of(cid, gt.args[0]), sl.of(cid, gt.args[1])
                is_now = lambda S: any(r[0] == "upvar" or (r[0] == "param" and r[1] == bid and r[2] >= 2) for r in S.roots)
                a_now, b_now = is_now(sa), is_now(sb)
                a_key = any(r[0] == "param" and r[1] == cid and r[2] >= 2 for r in sa.roots)
                b_key = any(r[0] == "param" and r[1] == cid and r[2] >= 2 for r in sb.roots)
                if (a_now and b_key) or (a_key and b_now):
                    closure_guards.append((cbb, ct, gt, a_now and not a_key))
        if closure_guards and not guards:
            ok_all = True
            for cbb, ct, gt, now_first in closure_guards:
                op = CMP[gt.callee.path.split("::")[-1]]
                rel_true = RELS[op] if now_first else {FLIP[r] for r in RELS[op]}
                n2 = ct.callee.path.split("::")[-1]
                sws = _bool_switches(bi, ct.dest.local) if ct.dest is not None and ct.dest.is_local() else []
                if n2 != "is_some_and" or len(sws) != 1:
                    out.undecided(key, bi.loc(cbb), "deadline comparison wrapped in %s(): not modelled" % n2)
                    ok_all = None
                    continue
                sw, tr, fa = sws[0]
                pop_on_false = fa is not None and bi.cfg.can_reach(fa, e.bb, avoid={cbb})
                pop_on_true = tr is not None and bi.cfg.can_reach(tr, e.bb, avoid={cbb})
                if pop_on_false:
                    ok_all = False
                    out.violation(key, bi.loc(cbb), "a delivery can be taken off the schedule on the branch where the deadline test failed (or there is no entry)")
                elif pop_on_true and "<" in rel_true:
                    ok_all = False
                    out.violation(key, bi.loc(cbb), "a delivery is expired on the branch where now < deadline is possible: messages are redelivered before their ack deadline",
                                  ["comparison %s(%s) in %s" % (gt.callee.path.split("::")[-1], "now, deadline" if now_first else "deadline, now", prog.short(cid))])
                elif not pop_on_true:
                    ok_all = False
                    out.violation(key, bi.loc(cbb), "the deadline comparison does not guard the pop")
            if ok_all:
                out.holds(key, bi.loc(closure_guards[0][0]), "the pop is only reachable when first().is_some_and(now >= deadline)")
            guards = None
        # plain binary comparisons on Instants do not occur (Instant is not a primitive)
        if guards is None:
            pass
        elif not guards:
            out.violation(key, bi.loc(e.bb), "deliveries are taken off the expiry schedule without comparing their deadline with the current time")
            continue
        ok_all = True
        for gbb, t, now_first in (guards or []):
            op = CMP[t.callee.path.split("::")[-1]]
            sw = b.blocks[t.target].term
            if sw.k != "switch":
                out.undecided(key, bi.loc(gbb), "comparison result is not branched on directly")
                ok_all = None
                continue
            arms = dict(sw.arms)
            false_bb, true_bb = arms.get(0), sw.otherwise
            # relation of (now ? deadline) on each arm
            rel_true = RELS[op] if now_first else {FLIP[r] for r in RELS[op]}
            rel_false = {"<", "=", ">"} - rel_true
            pop_on_true = bi.cfg.can_reach(true_bb, e.bb, avoid={gbb})
            pop_on_false = bi.cfg.can_reach(false_bb, e.bb, avoid={gbb})
            early = (pop_on_true and "<" in rel_true) or (pop_on_false and "<" in rel_false)
            if early:
                ok_all = False
                out.violation(key, bi.loc(gbb), "a delivery is expired on the branch where now < deadline is possible: messages are redelivered before their "
                              "ack deadline", ["comparison %s(%s) at %s" % (t.callee.path.split("::")[-1], "now, deadline" if now_first else "deadline, now", bi.loc(gbb)),
                                               "pop at %s reachable on the %s arm" % (bi.loc(e.bb), "true" if pop_on_true and "<" in rel_true else "false")])
            elif not (pop_on_true or pop_on_false):
                ok_all = False
                out.violation(key, bi.loc(gbb), "the deadline comparison does not guard the pop")
        if ok_all and guards:
            out.holds(key, bi.loc(guards[0][0]), "the pop is only reachable when now >= deadline")
        # callers: `now` is Instant::now() with no arithmetic
        root = b.root or bid
        for cid, cb in prog.facts.bodies.items():
            ci = prog.info(cid)
            for cbb, ct in ci.calls(lambda c: prog.qual(cb, c.target) == root):
                k2 = "now:%s" % prog.short(cid)
                targ = [a for a in ct.args[1:] if "Instant" in (cb.operand_ty(a) or "")]
                if not targ:
                    out.undecided(k2, ci.loc(cbb), "no Instant argument")
                    continue
                s = sl.of(cid, targ[0])
                arith = [c for c in s.calls if "ops::Add" in c or "ops::Sub" in c or "checked_add" in c or "checked_sub" in c or "Duration" in c]
                if "tokio::time::Instant::now" in s.calls and not arith:
                    out.holds(k2, ci.loc(cbb), "expiry is evaluated against Instant::now()")
                elif arith:
                    out.violation(k2, ci.loc(cbb), "the time used to decide expiry is shifted (%s): deliveries expire at a different instant than their deadline" % arith[0].split("::")[-1])
                else:
                    out.undecided(k2, ci.loc(cbb), "origin of the comparison time not recognised")


@rule("C04", "R04.2", "the deadline stored at hand-out is now + the subscription's ack deadline, rounded forward only", floor=2)
def r04_2(prog, out):
    R = roles(prog)
    A = prog.anchors
    sl = Slicer(prog)
    pm_new = A.ty("PulledMessage") + "::new"
    info_dl = A.cell("SubscriptionInfo", "ack_deadline")
    for bid0, effs in R.poppers():
      # the delivery may be built in a closure of the handler (`batch.into_iter().map(|m| PulledMessage::new(..))`)
      for bid in [bid0] + [c for c in prog.facts.descendants(bid0) if prog.facts.body(c) is not None and not prog.facts.body(c).coroutine]:
        bi = prog.info(bid)
        for bb, t in bi.calls(lambda c: c.target == pm_new):
            s = sl.of(bid, t.args[2]) if bid == bid0 else sl.of_resolved(bid, t.args[2])
            key = "deadline-source:%s" % prog.short(bid)
            subs = [c for c in s.calls if "ops::Sub" in c or "checked_sub" in c or "saturating_sub" in c]
            if subs:
                out.violation(key, bi.loc(bb), "the hand-out deadline is computed with a subtraction (%s): the lease can end early" % subs[0])
            elif "tokio::time::Instant::now" in s.calls and s.reads(info_dl) and any("ops::Add" in c for c in s.calls):
                out.holds(key, bi.loc(bb), "deadline = AckDeadline::new(Instant::now() + info.ack_deadline)")
            elif not s.reads(info_dl):
                out.violation(key, bi.loc(bb), "the hand-out deadline does not depend on the subscription's ack deadline (%s)" % sorted(c.split("::")[-1] for c in s.calls)[:5])
            elif "tokio::time::Instant::now" not in s.calls and any(
                    r[0] == "param" and "Instant" in (prog.facts.body(r[1]).local_ty(r[2]) or "") for r in s.roots if r[0] == "param" and prog.facts.body(r[1]) is not None):
                out.violation(key, bi.loc(bb), "the lease starts at an instant handed in from outside the actor's turn (a request field / parameter), not at the "
                              "moment of hand-out: the time the request spent waiting (in the mailbox, in a blocked Pull) is taken off the ack deadline")
            else:
                out.undecided(key, bi.loc(bb), "deadline expression not recognised")
    # AckDeadline::new only moves the instant forward
    ctor = None
    for b in prog.facts.lib_bodies():
        if b.impl_self == A.ty("AckDeadline") and b.kind == "AssocFn" and not b.impl_trait and b.local_ty(0) == A.ty("AckDeadline") and b.arg_count == 1:
            ctor = b.id
    if ctor is None:
        raise CheckBroken("AckDeadline constructor not found")
    bi = prog.info(ctor)
    ops = []
    for blk in bi.body.blocks:
        if blk.cleanup:
            continue
        for s in blk.stmts:
            if s.k == "assign" and s.rv.k == "bin" and not s.exp:
                ops.append(s.rv.j["op"])
        t = blk.term
        if t.k == "call" and t.callee is not None:
            n = t.callee.path.split("::")[-1]
            if n in ("checked_sub", "saturating_sub", "sub", "duration_since", "checked_add", "add", "elapsed"):
                ops.append(n)
    key = "rounding:%s" % prog.short(ctor)
    floats = []
    for blk in bi.body.blocks:
        if blk.cleanup:
            continue
        for s in blk.stmts:
            if s.k == "assign" and s.rv.k == "cast" and s.rv.j["ck"] in ("FloatToInt", "IntToFloat", "FloatToFloat"):
                floats.append("%s cast" % s.rv.j["ck"])
        t = blk.term
        if t.k == "call" and t.callee is not None and any(x in t.callee.path for x in ("as_secs_f32", "from_secs_f32", "mul_f32", "div_f32")):
            floats.append(t.callee.path.split("::")[-1])
    f32 = any("f32" in bi.body.local_ty(i) for i in range(len(bi.body.locals)))
    if floats and f32:
        out.violation(key, prog.loc(ctor), "the deadline is rounded through f32 arithmetic (%s): a 24-bit mantissa cannot hold tenths of a second beyond ~19 days of "
                      "uptime, so the stored deadline can land before the requested instant" % sorted(set(floats)))
        return
    if floats:
        out.undecided(key, prog.loc(ctor), "the deadline is rounded through floating point (%s): monotonicity not established" % sorted(set(floats)))
        return
    down = [o for o in ops if o in ("Sub", "SubWithOverflow", "checked_sub", "saturating_sub", "sub")]
    unknown = [o for o in ops if o in ("Div", "Mul", "MulWithOverflow", "Shr", "BitAnd")]
    if down:
        out.violation(key, prog.loc(ctor), "the deadline rounding subtracts (%s): a deadline can be rounded to an earlier instant and fire early" % down)
    elif unknown:
        out.undecided(key, prog.loc(ctor), "rounding uses %s, no monotonicity transfer function" % unknown)
    else:
        out.holds(key, prog.loc(ctor), "rounding only adds (ops: %s): the stored deadline is never earlier than requested" % sorted(set(ops)))


@rule("C04", "R04.3", "effective ack deadline: requests <= 10 s get 10 s, larger values are kept (lossless)", floor=2)
@rule("C10", "R04.3", "effective ack deadline: requests <= 10 s get 10 s, larger values are kept (lossless)", floor=2)
def r04_3(prog, out):
    A = prog.anchors
    h = prog.handler("create_subscription")
    if h is None:
        raise CheckBroken("create_subscription handler not found")
    field = ("crate::pubsub_proto::Subscription", "ack_deadline_seconds")

    def is_input(o):
        return field in o.cells() and o.cells()[-1] == field

    # the clamp may sit in a helper of another module (parser::parse_ack_deadline(raw)): follow the field into it
    def takes_field(ti, bb, t):
        return any(a.place is not None and is_input(ti.trace(a)) for a in t.args)

    root = prog.inlined_variant(h.root, takes_field)
    bi = prog.info(root)
    w = IntervalWalker(prog, root, is_input, "i32")
    info_new = [bb for bb, t in bi.calls(lambda c: c.target == A.ty("SubscriptionInfo") + "::new")]
    if not info_new:
        raise CheckBroken("SubscriptionInfo::new not called in create_subscription")
    # region start: first block comparing the field
    starts = []
    for blk in bi.body.blocks:
        if blk.cleanup or blk.idx not in bi.cfg.reach:
            continue
        t = blk.term
        if t.k == "switch" and t.discr is not None and t.discr.place is not None and t.discr.place.is_local():
            if w._cond(blk.idx, t.discr.place.local) is not None or w._is_in(t.discr):
                starts.append(blk.idx)
    key = "clamp:create_subscription"
    if not starts:
        # no comparison: the minimum may be applied with max() / clamp(); start where the field is first used
        for blk in bi.body.blocks:
            if blk.cleanup or blk.idx not in bi.cfg.reach or not bi.cfg.dominates(blk.idx, info_new[0]):
                continue
            ops = [op for st in blk.stmts if st.k == "assign" for op in st.rv.ops] + list(blk.term.args)
            if any(op.place is not None and w._is_in(op) for op in ops):
                starts.append(blk.idx)
        if not starts:
            out.violation(key, bi.loc(info_new[0]), "ack_deadline_seconds does not reach the subscription's ack deadline")
            return
        starts = [x for x in starts if all(bi.cfg.dominates(x, y) for y in starts)] or starts[:1]
    start = starts[0]
    only = {x for x in bi.cfg.reach if bi.cfg.can_reach(x, info_new[0])}
    paths = w.paths(start=start, stop=info_new[0], only=only)
    if paths is None:
        out.undecided(key, bi.loc(start), "guard shape has no transfer function (%s)" % w.undecided_reason)
        return
    from props.c05 import duration_items
    # only what reaches the constructor's deadline argument is part of the guard (the handler may parse other durations,
    # a TTL, a retry backoff, on the same paths)
    ctor = bi.call_at(info_new[0])
    sink = [a.place.local for a in ctor.args if a.place is not None and "Duration" in (bi.body.operand_ty(a) or "")]
    items = [it for p in paths if p.end == info_new[0] for it in duration_items(prog, bi, p, is_input, sink or None)]
    got = merge_partition(items)
    lo, hi = INT_RANGES["i32"]
    expected = [(lo, 10, "Some(from_secs 10)"), (11, hi, "Some(from_secs input)")]
    diffs = compare_partitions(got, expected, secs_point_equiv)
    if not diffs:
        out.holds(key, bi.loc(start), "partition of ack_deadline_seconds is %s" % got)
    elif any("?" in g[2] for g in got):
        out.undecided(key, bi.loc(start), "a path produces a value the analysis cannot classify: %s" % got)
    else:
        out.violation(key, bi.loc(start), "the effective ack deadline differs from the specification on %s" % "; ".join(diffs),
                      ["got      %s" % got, "expected %s" % expected])
    # never modified afterwards
    cell = A.cell("SubscriptionInfo", "ack_deadline")
    ws = [(bid, e) for bid in prog.facts.bodies for e in prog.effects(bid) if e.kind == "write" and not e.chain and e.touches(cell)]
    if ws:
        out.violation("ack_deadline-immutable", prog.loc(ws[0][0], ws[0][1].bb), "SubscriptionInfo.ack_deadline is modified after creation")
    else:
        out.holds("ack_deadline-immutable", "", "SubscriptionInfo.ack_deadline is only set by the constructor")


def shifts_deadline(prog, sl, s):
    """one of the additions / subtractions in the slice has the schedule's deadline as an operand (as opposed to bookkeeping like
    `next_sweep = now + INTERVAL` that the flow-insensitive slice of `self` drags in)"""
    for (sb, sbb) in s.sites:
        si = prog.info(sb)
        t = si.call_at(sbb) if si is not None else None
        if t is None or t.callee is None or not ("ops::Add" in t.callee.path or "checked_add" in t.callee.path or "ops::Sub" in t.callee.path):
            continue
        for a in t.args:
            sa = sl.of(sb, a)
            if any("BTreeSet" in c and c.endswith("::first") for c in sa.calls) or any(f[1] == "deadline" or f[1] == "time" for f in sa.fields):
                return True
    return False


def sweep_cap(prog, sl, R):
    """the function that takes due deliveries off the schedule stops after a fixed number of them (a count compared with a
    constant decides a way out of / around its pop): location, or None"""
    for pid, e in expiry_popper(prog, R):
        pi = prog.info(pid)
        for blk in pi.body.blocks:
            if blk.cleanup or blk.idx not in pi.cfg.reach or blk.term.k != "switch" or blk.term.discr is None or blk.term.discr.place is None:
                continue
            sd = sl.of(pid, blk.term.discr)
            if any(c.split("::")[-1] == "len" and ("Vec" in c or "VecDeque" in c) for c in sd.calls) and \
                    (any(isinstance(c, int) and c > 1 for c in sd.consts) or any(isinstance(c, str) and c in prog.facts.consts and prog.facts.consts[c].get("ty") == "usize" for c in sd.consts)):
                if pi.cfg.can_reach(blk.idx, e.bb) or pi.cfg.can_reach(e.bb, blk.idx):
                    return pi.loc(blk.idx)
    return None


def bounded_pause(prog, sl, bi, x):
    """the await `x` is `sleep_until(t)` / `sleep(d)` where t = (a clock reading) + (a constant duration), d = a constant duration:
    seconds of the constant; None when it is such a pause but the constant is not resolved; False when it is anything else"""
    from common import await_class
    from props.c05 import duration_const_secs
    o = x.origin
    if o is None or o.kind != "call":
        return False
    t = bi.call_at(o.data)
    if t.callee is None or t.callee.path not in ("tokio::time::sleep_until", "tokio::time::sleep") or not t.args:
        return False
    s = sl.of(bi.body.id, t.args[0])
    names = {c.split("::")[-1] for c in s.calls if not (c.startswith("crate::") or c.startswith("<crate::"))}
    if any("BTreeSet" in c for c in s.calls) or any(f[1] in ("deadline", "time") for f in s.fields):
        return False
    if not names <= {"now", "add", "from_millis", "from_secs", "from_micros", "into", "from", "checked_add", "unwrap_or", "deref", "clone"}:
        return False
    best = None
    for c in s.consts:
        if isinstance(c, str) and c in prog.facts.consts and prog.facts.consts[c].get("ty") == "std::time::Duration":
            vs = duration_const_secs(prog, prog.facts.consts[c], whole_seconds_only=False)
            if vs:
                best = max(best or 0.0, float(max(vs)))
    return best


@rule("C04", "R04.4", "the expiry timer is armed on the earliest deadline and re-armed whenever the schedule changes", floor=4)
def r04_4(prog, out):
    R = roles(prog)
    A = prog.anchors
    sl = Slicer(prog)
    tr = A.ty("OutstandingMessageTracker")
    poller = None
    for bid in R.impl_bodies(tr):
        b = prog.facts.body(bid)
        if not b.coroutine:
            continue
        bi = prog.info(bid)
        for a in bi.awaits:
            if a.select is not None and any(br.fut_ty == "tokio::time::Sleep" for br in a.select.branches):
                poller = (bid, a)
    if poller is None:
        raise CheckBroken("tracker polling coroutine (select with a Sleep branch) not found")
    bid, a = poller
    bi = prog.info(bid)
    key = "timer:%s" % prog.short(bid)
    sleep_br = [br for br in a.select.branches if br.fut_ty == "tokio::time::Sleep"][0]
    notif_br = [br for br in a.select.branches if (br.fut_ty or "").startswith("tokio::sync::futures::Notified")]
    if sleep_br.origin is None or sleep_br.origin.kind != "call":
        out.undecided(key + ":armed-on-first", bi.loc(a.poll_bb), "origin of the Sleep not resolved")
    else:
        t = bi.call_at(sleep_br.origin.data)
        s = sl.of(bid, t.args[0]) if t.args else None
        firsts = [c for c in (s.calls if s else []) if "BTreeSet" in c and c.endswith("::first")]
        lasts = [c for c in (s.calls if s else []) if "BTreeSet" in c and (c.endswith("::last") or "pop_last" in c)]
        arith = [c for c in (s.calls if s else []) if "ops::Add" in c or "checked_add" in c or "ops::Sub" in c]
        if t.callee.path != "tokio::time::sleep_until":
            out.undecided(key + ":armed-on-first", bi.loc(sleep_br.origin.data), "timer built with %s" % t.callee.path)
        elif lasts or not firsts:
            out.violation(key + ":armed-on-first", bi.loc(sleep_br.origin.data), "the expiry timer is not armed on the earliest deadline of the schedule: earlier deliveries are redelivered late")
        elif arith and shifts_deadline(prog, sl, s):
            out.violation(key + ":armed-on-first", bi.loc(sleep_br.origin.data), "the expiry timer is armed on a shifted instant (%s)" % arith[0].split("::")[-1])
        else:
            out.holds(key + ":armed-on-first", bi.loc(sleep_br.origin.data), "sleep_until(first deadline of the schedule)")
    # How does a change of the schedule reach a timer that is already waiting?  Either the wait can be interrupted (Notify),
    # or it cannot be waiting at all while the schedule changes: the poll future borrows the tracker exclusively (&mut self)
    # and the actor builds a fresh one -- which re-reads the earliest deadline -- every time it goes back to waiting.
    exclusive_rearm = False
    pb = prog.facts.body(bi.body.root or bid)
    takes_mut = pb is not None and pb.arg_count >= 1 and (pb.local_ty(1) or "").startswith("&mut ")
    for cid in prog.cone(R.sub_actor.loop, follow=("call", "closure", "poll")):
        ci = prog.info(cid)
        for x in (ci.awaits if ci else []):
            if x.select is None:
                continue
            for br in x.select.branches:
                if prog.body_of_type(ci.body, br.fut_ty) != bid or br.origin is None or br.origin.kind != "call":
                    continue
                made_at = br.origin.data
                loops_made = set(ci.cfg.in_loop(made_at))
                # built inside the actor loop (a fresh future per iteration) and awaited in the same iteration
                if takes_mut and loops_made and loops_made <= set(ci.cfg.in_loop(x.poll_bb)) and ci.cfg.dominates(made_at, x.poll_bb):
                    exclusive_rearm = True
    if exclusive_rearm:
        out.holds(key + ":rearm-signal", bi.loc(a.poll_bb), "the poll future holds `&mut` on the tracker and is rebuilt in every iteration of the actor loop: the "
                  "schedule cannot change while a timer waits, and each new wait starts from the current earliest deadline")
    elif notif_br:
        o = notif_br[0].origin
        ok = o is not None and o.kind == "call" and R.t_notify in prog.receiver_origin(bi, bi.call_at(o.data).args[0]).cells()
        if ok:
            out.holds(key + ":rearm-signal", bi.loc(a.poll_bb), "the wait is raced against the tracker's Notify")
        else:
            out.undecided(key + ":rearm-signal", bi.loc(a.poll_bb), "Notified branch is not on the tracker's notify")
    else:
        out.violation(key + ":rearm-signal", bi.loc(a.poll_bb), "the timer wait cannot be interrupted when an earlier deadline is added")
    # expiry check precedes the wait in every iteration
    removers_called = [bb for bb, t in bi.calls(lambda c: prog.qual(bi.body, c.target) in {p for p, _ in expiry_popper(prog, R)})]
    k = key + ":check-before-wait"
    early = [x for x in bi.awaits if not (removers_called and bi.cfg.dominates(removers_called[0], x.poll_bb))]
    pauses = [(x, bounded_pause(prog, sl, bi, x)) for x in early]
    if removers_called and not early:
        out.holds(k, bi.loc(removers_called[0]), "each iteration takes expired deliveries before it waits")
    elif removers_called and all(p is not None and p is not False and p < 1.0 for _x, p in pauses) and sweep_cap(prog, sl, R):
        cap_loc = sweep_cap(prog, sl, R)
        out.violation(k, bi.loc(early[0].poll_bb), "every sweep of the schedule is preceded by a pause and takes at most a fixed number of due deliveries (%s): when more "
                      "than that are due, the rest wait another pause each round -- the lateness grows with the number of deliveries instead of being a fixed slack" % cap_loc)
    elif removers_called and all(p is not None and p is not False and p < 1.0 for _x, p in pauses):
        out.holds(k, bi.loc(removers_called[0]), "each iteration takes expired deliveries before it waits for the schedule; the only wait in front of that is a pause of "
                  "a constant %.3f s from the previous sweep (a fixed sub-second slack)" % max(p for _x, p in pauses))
    elif removers_called and all(p is not False for _x, p in pauses):
        out.undecided(k, bi.loc(early[0].poll_bb), "a pause of a length the analysis cannot bound stands in front of taking the deliveries that are due")
    else:
        out.violation(k, bi.loc(a.poll_bb), "an iteration can wait without first taking the deliveries that are already due")
    # every mutator of the schedule notifies
    for mid in R.impl_bodies(tr):
        mb = prog.facts.body(mid)
        if mb.kind != "AssocFn" or mb.coroutine:
            continue
        effs = prog.effects(mid)
        muts = [e for e in effs if not e.chain and e.touches(R.t_expirations) and e.kind in (L.INSERT_KINDS | {"remove", "clear"})]
        if not muts:
            continue
        nots = [e for e in effs if not e.chain and e.touches(R.t_notify) and e.kind == "notify_waiters"]
        k = "mutator-notifies:%s" % prog.short(mid)
        if exclusive_rearm:
            out.holds(k, prog.loc(mid), "runs only while no timer waits (exclusive borrow); the next wait re-reads the schedule" + ("; also notifies" if nots else ""), nontrivial=False)
        elif nots:
            out.holds(k, prog.loc(mid), "can re-arm the timer (notify_waiters on the tracker's Notify)")
        else:
            out.violation(k, prog.loc(mid), "%s changes the expiry schedule but never notifies the timer task: a new earliest deadline is not picked up" % prog.short(mid))
    # the actor loop polls the poller
    li = None
    polled = False
    for cid in prog.cone(R.sub_actor.loop, follow=("call", "closure", "poll")):
        ci = prog.info(cid)
        for x in (ci.awaits if ci else []):
            if x.select is not None and any(prog.body_of_type(ci.body, br.fut_ty) == bid for br in x.select.branches):
                polled = True
    if polled:
        out.holds("actor-polls-expiry", prog.loc(R.sub_actor.loop), "the actor loop selects between its mailbox and the expiry poll")
    else:
        out.violation("actor-polls-expiry", prog.loc(R.sub_actor.loop), "the subscription actor never polls the expiry timer: unacked messages are not redelivered")
