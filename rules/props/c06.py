"""C06 — waiting consumers are woken when a message becomes available."""
from engine import rule, CheckBroken
from actorlib import roles, NOTIFY_KINDS
from consumers import find_consumer_loops, const_walk
from common import await_class
from props.c12 import w_origin_bb
import libmodel as L


def notified_by_caller(prog, R, bid):
    """The handler itself never notifies, but the code that calls it in the actor (dispatcher / loop) notifies after the call,
    deciding on a value the handler returns (`let wake = self.post_messages(..); self.wake(wake)`).
    Returns None (no such caller), ("undecided", loc) when the only ways around the notify are branches on the handler's own
    result, or ("skipped", loc, path) when the notify can be skipped for another reason (an early return on a failed reply ..)."""
    root = prog.facts.body(bid).root or bid
    for cid, cb in prog.facts.bodies.items():
        if cb.crate != "lib":
            continue
        ci = prog.info(cid)
        for cbb, t in ci.calls(lambda c: prog.qual(cb, c.target) == root):
            later = {e.bb for e in prog.effects(cid) if e.touches(R.signal) and e.kind in NOTIFY_KINDS and e.bb != cbb and ci.cfg.can_reach(cbb, e.bb)}
            if not later:
                continue
            empty = R.backlog_empty_blocks(ci)
            # branches on the handler's result itself (projections / moves of the returned value): their other arms are the
            # handler's decision `nobody to wake`, which is not re-derived here
            own = set()
            for blk in ci.body.blocks:
                if blk.cleanup or blk.term.k != "switch" or blk.term.discr is None or blk.term.discr.place is None:
                    continue
                o = ci.trace(blk.term.discr)
                if o.kind == "discr":
                    # discriminant of a place: trace that place
                    for st in blk.stmts:
                        if st.k == "assign" and st.rv.k == "discr" and st.lhs.is_local() and st.lhs.local == blk.term.discr.place.local:
                            o = ci.trace(st.rv.place)
                if o.kind == "call" and o.data == cbb:
                    for s2 in ci.cfg.succ[blk.idx]:
                        if not (ci.cfg.edge_dominated(blk.idx, s2) & later):
                            own |= ci.cfg.edge_dominated(blk.idx, s2)
            esc = ci.cfg.escapes(cbb, later | empty | own)
            if esc is None:
                return ("undecided", ci.loc(sorted(later)[0]))
            return ("skipped", ci.loc(esc[-1]), esc)
    return None


@rule("C06", "R06.1", "every append to the backlog is followed by a notify on the message signal (at most guarded by `backlog non-empty`)", floor=3)
@rule("C15", "R06.1", "every append to the backlog is followed by a notify on the message signal (at most guarded by `backlog non-empty`)", floor=3)
@rule("C05", "R06.1", "every append to the backlog is followed by a notify on the message signal (at most guarded by `backlog non-empty`)", floor=3)
@rule("C04", "R06.1", "every append to the backlog is followed by a notify on the message signal (at most guarded by `backlog non-empty`)", floor=3)
def r06_1(prog, out):
    R = roles(prog)
    apps = R.appenders()
    if len(apps) < 3:
        raise CheckBroken("expected 3 backlog appenders (post, nack, expiry), found %d" % len(apps))
    for bid, effs in apps:
        bi = prog.info(bid)
        nb = set(R.notify_blocks(bid))
        empty = R.backlog_empty_blocks(bi)
        for e in effs:
            key = "append=>notify:%s" % prog.short(bid)
            if not nb:
                where = notified_by_caller(prog, R, bid)
                if where is not None and where[0] == "undecided":
                    out.undecided(key, bi.loc(e.bb), "%s does not notify itself; its caller does, after the call (%s), from what the handler returns: whether every "
                                  "append leads to that notify is not decided across the call" % (prog.short(bid), where[1]))
                    continue
                if where is not None:
                    out.violation(key, where[1], "the wake-up for what %s appended is issued by its caller, and the caller can skip it for a reason that has nothing to do "
                                  "with the backlog (a path from the call to the end of the turn avoids the notify)" % prog.short(bid))
                    continue
                out.violation(key, bi.loc(e.bb), "%s appends to the backlog and never signals waiting consumers: a blocked Pull / open StreamingPull "
                              "does not see the message until something else wakes it" % prog.short(bid))
                continue
            esc = bi.cfg.escapes(e.bb, nb | empty)
            skipping = [x for x in prog.effects(bid) if x.touches(R.signal) and x.kind in NOTIFY_KINDS and x.chain and guarded_notify(prog, R, x) == "other"]
            if esc is None and skipping:
                x = skipping[0]
                out.violation(key, prog.loc(x.chain[-1][0]), "the notify that follows the append is issued by %s, which can return without notifying for a reason that has "
                              "nothing to do with the backlog or with who is listening" % prog.short(x.chain[-1][0]))
            elif esc is None:
                out.holds(key, bi.loc(e.bb), "every path from the append passes notify (guard: only `backlog.is_empty()`)")
            else:
                out.violation(key, bi.loc(esc[-1]), "a path from the append returns without notifying the message signal", ["bb%d (%s)" % (x, bi.loc(x)) for x in esc][:8])
            # notify before append with an early return in between is covered by the path check above; also require that the notify
            # is not *only* before the append
            if all(bi.cfg.can_reach(n, e.bb) and not bi.cfg.can_reach(e.bb, n) for n in nb):
                out.violation(key + ":order", bi.loc(e.bb), "consumers are notified before the messages are in the backlog")


@rule("C06", "R06.2", "a pull that leaves messages behind re-notifies", floor=1)
@rule("C15", "R06.2", "a pull that leaves messages behind re-notifies", floor=1)
def r06_2(prog, out):
    R = roles(prog)
    for bid, effs in R.poppers():
        bi = prog.info(bid)
        nb = set(R.notify_blocks(bid))
        empty = R.backlog_empty_blocks(bi)
        key = "leftover=>notify:%s" % prog.short(bid)
        where = notified_by_caller(prog, R, bid) if not nb else None
        if where is not None and where[0] == "undecided":
            out.undecided(key, prog.loc(bid), "the pull handler does not notify itself; its caller does after the call (%s), from what the handler returns: not decided "
                          "across the call" % where[1])
            continue
        if where is not None:
            out.violation(key, where[1], "the hand-on of the wake-up after a pull is issued by the caller of the pull handler, and the caller can skip it for a reason that has "
                          "nothing to do with the backlog (e.g. an early return when the reply cannot be delivered): messages left behind wake nobody")
            continue
        if not nb:
            out.violation(key, prog.loc(bid), "a pull that stops at its batch limit never re-notifies: with several waiting consumers the remaining messages "
                          "stay undelivered while a consumer is parked")
            continue
        esc = None
        for e in effs:
            esc = esc or bi.cfg.escapes(e.bb, nb | empty)
        if esc is None:
            out.holds(key, prog.loc(bid), "after popping, every path re-notifies unless the backlog is empty")
        else:
            out.violation(key, bi.loc(esc[-1]), "a path from a pop returns with messages possibly left and no notify", ["bb%d (%s)" % (x, bi.loc(x)) for x in esc][:8])


def signal_kind(prog, R):
    """notify method used for 'messages available' (outside the delete flow).  A `notify_one` that its own function skips
    when no signal future is alive (a listener count kept by the future's constructor / Drop) stores no permit for a late
    registrant: it is reported as "notify_one-if-listeners", which asks of the consumers what `notify_waiters` asks."""
    kinds = set()
    for bid, effs in R.appenders() + R.poppers():
        for e in prog.effects(bid):
            if e.touches(R.signal) and e.kind in NOTIFY_KINDS:
                k = e.kind
                if e.chain:
                    hid, hbb = e.chain[-1][0], e.bb if not e.chain else None
                    g = guarded_notify(prog, R, e)
                    if g == "listeners":
                        k = k + "-if-listeners"
                kinds.add(k)
    return kinds


def guarded_notify(prog, R, e):
    """the notify of effect `e` sits in a function of its own (the observer's notify method) that can return without notifying:
    "listeners" when the branch reads a counter that the signal future's constructor bumps, "other" for any other reason,
    None when the function always notifies"""
    A = prog.anchors
    for fid, _cbb in e.chain:
        pass
    # the body that contains the notify call itself
    fid = e.chain[-1][0] if e.chain else None
    if fid is None:
        return None
    fi = prog.info(fid)
    if fi is None:
        return None
    nbbs = {x.bb for x in prog.own_effects(fid) if x.touches(R.signal) and x.kind in NOTIFY_KINDS}
    if not nbbs or fi.cfg.escapes(0, nbbs, after=False) is None:
        return None
    loads = {x.cells[-1] for x in prog.own_effects(fid) if x.kind == "atomic_load" and x.cells}
    sig_ty = A.ty("MessagesAvailable")
    for b in prog.facts.lib_bodies():
        if b.impl_self and b.impl_self.startswith(sig_ty) or sig_ty in (b.local_ty(0) or ""):
            for x in prog.effects(b.id):
                if x.kind == "atomic_rmw" and x.cells and x.cells[-1] in loads:
                    return "listeners"
    return "other"


@rule("C06", "R06.3", "notifier kind and consumer registration order are compatible (no lost wake-up window)", floor=2)
@rule("C15", "R06.3", "notifier kind and consumer registration order are compatible (no lost wake-up window)", floor=2)
def r06_3(prog, out):
    R = roles(prog)
    kinds = signal_kind(prog, R)
    loops = find_consumer_loops(prog)
    if len(loops) < 1:
        raise CheckBroken("expected 2 consumer loops, found %d" % len(loops))
    if len(loops) < 2:
        out.undecided("consumer-loops", "", "only %d consumer loop found (a consumer that pulls and waits without looping is judged by C15 R15.3 / C07 R07.4)" % len(loops))
    for cl in loops:
        bi = prog.info(cl.body)
        for n, a in enumerate(cl.waits):
            reg = w_origin_bb(bi, a)
            ordered = all(bi.cfg.dominates(reg, p.poll_bb) and reg in cl.blocks for p in cl.pulls)
            key = "consumer:%s:wait#%d" % (cl.label, n)
            if kinds == {"notify_one"}:
                out.holds(key, bi.loc(a.poll_bb), "notify_one stores a permit when nobody waits%s" % ("; the consumer also registers before pulling" if ordered else ""))
            elif "notify_one-if-listeners" in kinds and not ordered:
                out.violation(key, bi.loc(a.poll_bb), "the producers skip the notify while no signal future is alive (no stored permit) and this consumer creates its signal "
                              "future after pulling: a message arriving between the empty pull and the wait is never signalled")
            elif ordered:
                out.holds(key, bi.loc(a.poll_bb), "the signal future is created before the pull in each iteration, so a notification between pull and wait is kept")
            else:
                out.violation(key, bi.loc(a.poll_bb), "the producers use %s (no stored permit) and this consumer creates its signal future after pulling: a message "
                              "arriving between the empty pull and the wait is never signalled" % sorted(kinds))


@rule("C06", "R06.4", "a wake-up leads to a pull on the same subscription", floor=1)
def r06_4(prog, out):
    loops = find_consumer_loops(prog)
    for cl in loops:
        bi = prog.info(cl.body)
        pulls = {p.poll_bb for p in cl.pulls}
        for n, a in enumerate(cl.waits):
            key = "consumer:%s:wake=>pull#%d" % (cl.label, n)
            start = a.ready_bb
            if a.select is not None:
                br = [b for b in a.select.branches if (b.fut_ty or "").startswith("crate::subscriptions::futures::MessagesAvailable")]
                start = br[0].cont_bb if br else None
            if start is None:
                out.undecided(key, bi.loc(a.poll_bb), "continuation after the wake-up not resolved")
                continue
            # a consumer that will not pull now (it has to wait for something else first) may hand the wake-up on instead:
            # notifying the message signal again is as good as pulling
            R = roles(prog)
            handoff = {e.bb for e in prog.effects(cl.body) if e.touches(R.signal) and e.kind in ("notify_one", "notify_waiters")}
            labels = const_walk(bi, start, lambda bb: "pulls" if bb in pulls else ("hands-on" if bb in handoff else None))
            if labels and labels <= {"pulls", "hands-on"}:
                out.holds(key, bi.loc(a.poll_bb), "after the signal fires the loop pulls again%s" % (" (or hands the wake-up on)" if "hands-on" in labels else ""))
            elif "unknown" in labels:
                out.undecided(key, bi.loc(a.poll_bb), "continuation too complex")
            else:
                out.violation(key, bi.loc(a.poll_bb), "after being woken the consumer can %s instead of pulling: the message stays undelivered" % sorted(labels - {"pulls"}))


@rule("C06", "R06.5", "a consumer's wait-then-pull loop dies with its client: it is not moved into a detached task", floor=1)
@rule("C15", "R06.5", "a consumer's wait-then-pull loop dies with its client: it is not moved into a detached task", floor=1)
def r06_5(prog, out):
    """A consumer that waits on the message signal is first in line for the next `notify_one`.  While it runs inside the
    request's own future, a client that goes away takes it out of the line (the future is dropped).  Moved into
    `tokio::spawn` and awaited through the JoinHandle, it survives its client -- dropping a JoinHandle detaches, it does not
    abort -- and keeps swallowing wake-ups and messages for nobody while real consumers stay parked."""
    loops = find_consumer_loops(prog)
    if not loops:
        raise CheckBroken("no consumer loop found")
    spawned = {}
    for b in prog.facts.lib_bodies():
        bi = prog.info(b.id)
        for sp in bi.spawns:
            if sp.kind == "detached" and sp.task is not None:
                for c in prog.cone(sp.task, follow=("closure", "poll")):
                    spawned.setdefault(c, (b.id, sp.bb))
    for cl in loops:
        key = "consumer:%s:not-detached" % cl.label
        if cl.body in spawned:
            sb, sbb = spawned[cl.body]
            out.violation(key, prog.loc(sb, sbb), "the consumer loop runs in a detached task: when its client goes away (cancel, timeout) the loop lives on, stays "
                          "registered on the message signal, and takes the next wake-up and messages that a real waiting consumer should get")
        else:
            out.holds(key, prog.loc(cl.body), "runs in the request's own future")
