"""C12 — deleting a subscription releases the consumers waiting on it."""
from engine import rule, CheckBroken
from common import await_class, short_ty
from consumers import find_consumer_loops, const_walk
import libmodel as L


def status_codes_in_cone(prog, body_id, _memo={}):
    key = (id(prog), body_id)
    if key in _memo:
        return _memo[key]
    codes = set()
    for bid in prog.cone(body_id, follow=("call", "closure")):
        bi = prog.info(bid)
        if bi is None:
            continue
        for bb, t in bi.calls(lambda c: c.path in L.STATUS_CTORS):
            codes.add(L.STATUS_CTORS[t.callee.path])
    _memo[key] = codes
    return codes


def status_blocks(prog, bi):
    """{bb: codes} blocks of this body that build a tonic::Status (directly, via a local helper, or in a closure built there)"""
    out = {}
    for bb, t in bi.calls():
        c = t.callee
        if c.path in L.STATUS_CTORS:
            out.setdefault(bb, set()).add(L.STATUS_CTORS[c.path])
        elif (c.local or c.res_local) and not c.path.endswith("Future::poll"):
            dst = prog.qual(bi.body, c.target)
            db = prog.facts.body(dst)
            if db is not None and not db.coroutine:
                cs = status_codes_in_cone(prog, dst)
                if cs and len(db.blocks) < 40:
                    out.setdefault(bb, set()).update(cs)
    return out


def error_blocks(bi):
    """blocks on error-return paths: `?` residuals and explicit Err constructions assigned to the return place"""
    out = set()
    for blk in bi.body.blocks:
        if blk.cleanup:
            continue
        t = blk.term
        if t.k == "call" and t.callee is not None and t.callee.path == "std::ops::FromResidual::from_residual":
            out.add(blk.idx)
        for s in blk.stmts:
            if s.k == "assign" and s.lhs.is_local() and (s.lhs.local == 0 or s.lhs.local in bi.body.ret_locals) and s.rv.k == "agg" and s.rv.j.get("variant") == "Err":
                out.add(blk.idx)
    return out


def delete_flow(prog):
    """the subscription actor's handler bodies for the Delete request"""
    A = prog.anchors
    actor = prog.actor_by_type("::SubscriptionActor")
    if actor is None:
        raise CheckBroken("subscription actor not found")
    deleted = A.cell("SubscriptionActor", "deleted")
    for vname, vh in actor.variants.items():
        for (bb, tgt) in vh.calls:
            tid = prog.qual(prog.facts.body(actor.dispatch), tgt)
            if any(e.kind == "write" and e.touches(deleted) for e in prog.effects(tid)):
                return actor, vname, tid
    # no handler raises the flag (R11.6 reports that): the delete flow is the handler that takes the subscription out of the
    # manager / raises the deletion signal
    submap = A.cell("SubState", "subscriptions")
    sig = A.cell("SubscriptionObserver", "deleted_send")
    for vname, vh in actor.variants.items():
        for (bb, tgt) in vh.calls:
            tid = prog.qual(prog.facts.body(actor.dispatch), tgt)
            if any((e.touches(submap) and e.kind in L.REMOVE_KINDS) or (e.touches(sig) and e.kind in ("take", "oneshot_send")) for e in prog.effects(tid)):
                return actor, vname, tid
    raise CheckBroken("no actor handler deletes the subscription (sets SubscriptionActor.deleted / leaves the manager / raises the signal)")


def effect_body(prog, tid):
    """an async fn's effects live in its coroutine child"""
    b = prog.facts.body(tid)
    kids = [k for k in prog.facts.children(tid) if prog.facts.body(k).coroutine]
    if kids and len(b.blocks) <= 4:
        return kids[0]
    return tid


@rule("C12", "R12.1", "the delete flow raises the deletion signal and wakes message waiters on every successful path", floor=2)
def r12_1(prog, out):
    A = prog.anchors
    actor, vname, tid = delete_flow(prog)
    bid = effect_body(prog, tid)
    bi = prog.info(bid)
    sig = A.cell("SubscriptionObserver", "deleted_send")
    wake = A.cell("SubscriptionObserver", "notify_messages_available")
    deleted = A.cell("SubscriptionActor", "deleted")
    effs = prog.effects(bid)
    writes = [e.bb for e in effs if e.kind == "write" and e.touches(deleted) and not e.chain]
    errs = error_blocks(bi)
    from actorlib import roles
    already = roles(prog).flag_true_blocks(bi, deleted)
    for label, cell, kinds in (("deletion-signal", sig, ("take", "oneshot_send")), ("wake-message-waiters", wake, ("notify_waiters",))):
        sites = sorted({e.bb for e in effs if e.touches(cell) and e.kind in kinds})
        key = "%s:%s" % (label, prog.short(bid))
        if not sites:
            out.violation(key, prog.loc(bid), "the delete flow never %s" % ("raises the deletion signal" if label == "deletion-signal" else "wakes consumers blocked on the message signal"))
            continue
        # from the point the subscription is marked deleted -- or, when the handler does not mark it (R11.6's finding), from its
        # entry, the already-deleted early return excepted
        esc = bi.cfg.escapes(writes[0], set(sites) | errs) if writes else bi.cfg.escapes(0, set(sites) | errs | already, after=False)
        if esc is None:
            out.holds(key, bi.loc(sites[0]), "every successful path from marking the subscription deleted passes it")
        else:
            out.violation(key, bi.loc(esc[-1]), "a successful delete can return without it", ["bb%d" % x for x in esc][:12])


def deleted_branch_safe(prog, bi, loop, a):
    """alternative A: the wait races the deletion signal and the deleted branch leaves the loop towards an error status"""
    if a.select is None:
        return None, "the wait on the message signal is not raced against the deletion signal"
    dbr = [br for br in a.select.branches if br.fut_ty == prog.anchors.ty("Deleted")]
    if not dbr:
        return None, "the select has no branch on the deletion signal"
    br = dbr[0]
    if br.cont_bb is None:
        return "undecided", "continuation of the deleted branch not resolved"
    sb = status_blocks(prog, bi)
    pull_bbs = {p.poll_bb for p in loop.pulls}

    def stop(bb):
        if bb in pull_bbs:
            return "pulls-again"
        if bb in sb:
            return "status"
        return None

    labels = const_walk(bi, br.cont_bb, stop)
    if labels == {"status"}:
        return True, "deleted branch leads to an error status (%s)" % sorted(set().union(*[sb[b] for b in sb]))[:3]
    if "unknown" in labels:
        return "undecided", "continuation of the deleted branch too complex"
    return None, "after the deletion signal fires the consumer %s" % (
        "goes back to pulling" if "pulls-again" in labels else "ends without an error status (%s)" % sorted(labels))


def pop_rejects_when_deleted(prog):
    """alternative B, first half: the pop body answers Err on every path where the deleted flag is set"""
    A = prog.anchors
    backlog = A.cell("SubscriptionActor", "backlog")
    deleted = A.cell("SubscriptionActor", "deleted")
    for b in prog.facts.lib_bodies():
        if b.impl_self != A.ty("SubscriptionActor"):
            continue
        effs = prog.effects(b.id)
        if not any(e.kind in L.REMOVE_KINDS and e.touches(backlog) for e in effs):
            continue
        bi = prog.info(b.id)
        # first switch on the deleted flag
        for blk in b.blocks:
            t = blk.term
            if t.k == "switch" and t.discr is not None and t.discr.place is not None:
                o = prog.receiver_origin(bi, t.discr)
                if deleted in o.cells() or any(deleted in prog.receiver_origin(bi, s.rv.ops[0]).cells() for s in blk.stmts
                                               if s.k == "assign" and s.rv.k == "use" and s.rv.ops[0].place is not None and s.lhs.is_local()
                                               and s.lhs.local == t.discr.place.local):
                    true_bb = t.otherwise
                    errs = error_blocks(bi)
                    esc = bi.cfg.escapes(true_bb, errs, after=False)
                    return b.id, esc is None
    return None, False


@rule("C12", "R12.2", "every consumer wait is deletion-safe", floor=2)
def r12_2(prog, out):
    loops = find_consumer_loops(prog)
    if len(loops) < 1:
        raise CheckBroken("expected the unary pull loop and the streaming pull loop, found %d consumer loop(s)" % len(loops))
    if len(loops) < 2:
        out.undecided("consumer-loops", "", "only %d consumer loop found (a consumer that pulls and waits without looping is judged by C15 R15.3 / C07 R07.4)" % len(loops))
    pop_body, pop_err = pop_rejects_when_deleted(prog)
    for cl in loops:
        bi = prog.info(cl.body)
        for n, a in enumerate(cl.waits):
            key = "consumer:%s:wait#%d" % (cl.label, n)
            ok, why = deleted_branch_safe(prog, bi, cl, a)
            if ok is True:
                out.holds(key, bi.loc(a.poll_bb), why)
                continue
            if ok == "undecided":
                out.undecided(key, bi.loc(a.poll_bb), why)
                continue
            # alternative B: the re-pull after the wake-up fails because the actor answers Err once deleted,
            # the loop turns that into an error return, and the consumer registered before pulling
            sb = status_blocks(prog, bi)
            registered_first = all(any(bi.cfg.dominates(w_origin_bb(bi, a), p.poll_bb) for p in cl.pulls) for _ in [0])
            pull_err_mapped = pull_error_is_returned(prog, bi, cl)
            if pop_err and pull_err_mapped and registered_first:
                out.holds(key, bi.loc(a.poll_bb), "deleted subscriptions answer pulls with an error which this loop returns (alternative B)")
            else:
                out.violation(key, bi.loc(a.poll_bb), "a consumer blocked here is not released when the subscription is deleted: %s; and the "
                              "re-pull after a wake-up cannot fail either (%s)" % (why, "the actor answers Ok(empty) once deleted" if not pop_err else
                                                                                   "the loop does not return the pull error"),
                              ["wait at %s" % bi.loc(a.poll_bb), "pop body %s returns Err when deleted: %s" % (prog.short(pop_body or "?"), pop_err)])


def unbounded_wait(prog, bi, a):
    """does awaiting `a` park the task on a signal that nothing is obliged to raise (a Notify, directly or inside a local
    coroutine)?  Actor round trips (send + reply), sleeps, yields to the client and joins are bounded or end with the peer."""
    cls = await_class(prog, bi, a)
    if cls in ("notified", "messages_available"):
        return cls
    if cls == "local":
        cid = prog.body_of_type(bi.body, a.fut_ty)
        for c in prog.cone(cid, follow=("call", "closure", "poll")) if cid else []:
            ci = prog.info(c)
            if ci is None:
                continue
            for x in ci.awaits:
                if await_class(prog, ci, x) in ("notified", "messages_available"):
                    return "%s in %s" % (await_class(prog, ci, x), prog.short(c))
    return None


@rule("C12", "R12.6", "a consumer loop parks only on waits that are raced against the deletion signal", floor=1)
def r12_6(prog, out):
    """R12.2 judges the wait on the message signal.  Any *other* place where a pull / streaming-pull loop can park on a
    Notify-like signal (a flow-control gate, a rate limiter) must be released by DeleteSubscription as well: it is raced
    against the deletion signal in a select whose deleted branch ends the consumer with an error."""
    loops = find_consumer_loops(prog)
    if not loops:
        raise CheckBroken("no consumer loop found")
    n = 0
    for cl in loops:
        bi = prog.info(cl.body)
        known = {id(x) for x in cl.waits} | {id(x) for x in cl.pulls}
        for a in bi.awaits:
            if a.poll_bb not in cl.blocks or id(a) in known:
                continue
            why = None
            if a.select is not None:
                for br in a.select.branches:
                    cid = prog.body_of_type(bi.body, br.fut_ty) if (br.fut_ty or "").startswith("{coroutine:") else None
                    if (br.fut_ty or "").startswith("tokio::sync::futures::Notified"):
                        why = "notified"
                if why is None:
                    continue
                ok, reason = deleted_branch_safe(prog, bi, cl, a)
                if ok:
                    continue
            else:
                why = unbounded_wait(prog, bi, a)
                if why is None:
                    continue
            n += 1
            out.violation("consumer:%s:parks:%s" % (cl.label, why.split(" in ")[-1]), bi.loc(a.poll_bb),
                          "the consumer loop can park here on a signal (%s) that DeleteSubscription does not raise and that is not raced against the deletion "
                          "signal: a consumer blocked here is never told that its subscription is gone" % why)
        out.holds("consumer:%s:other-waits" % cl.label, prog.loc(cl.body), "no other unbounded wait in the loop", nontrivial=False)


def w_origin_bb(bi, a):
    """block where the awaited signal future was created"""
    if a.select is not None:
        for br in a.select.branches:
            if (br.fut_ty or "").startswith("crate::subscriptions::futures::MessagesAvailable") and br.origin is not None and br.origin.kind == "call":
                return br.origin.data
        return a.poll_bb
    if a.origin is not None and a.origin.kind == "call":
        return a.origin.data
    return a.poll_bb


def pull_error_is_returned(prog, bi, cl):
    """the loop propagates a pull error (`?`) towards an error return"""
    for p in cl.pulls:
        # after the pull's ready block: a Try::branch whose Break arm reaches a return without re-entering the loop
        for bb in bi.cfg.reachable_from(p.ready_bb, avoid={p.poll_bb}):
            t = bi.body.blocks[bb].term
            if t.k == "call" and t.callee is not None and t.callee.path == "std::ops::FromResidual::from_residual":
                return True
    return False


@rule("C12", "R12.3", "the pull half of a merged StreamingPull stream never ends without an error item", floor=1)
def r12_3(prog, out):
    h = prog.handler("streaming_pull")
    if h is None:
        raise CheckBroken("streaming_pull handler not found")
    hi = prog.info(h.root)
    merged = [bb for bb, t in hi.calls(lambda c: c.path.endswith("StreamExt::merge"))]
    loops = [cl for cl in find_consumer_loops(prog) if cl.body.startswith(h.wrapper)]
    if not loops:
        raise CheckBroken("pull half (consumer loop) of streaming_pull not found")
    for cl in loops:
        bi = prog.info(cl.body)
        key = "stream-half:%s" % cl.label
        if not merged:
            out.undecided(key, prog.loc(cl.body), "the output stream is not built with StreamExt::merge: termination of the combined stream not modelled")
            continue
        # blocks that send an Err item to the client
        err_items = set()
        for bb, t in bi.calls(lambda c: c.path.startswith("async_stream::yielder::Sender::<T>::send")):
            o = bi.trace(t.args[1])
            if o.kind == "agg":
                rv = bi.agg_at(o.data)
                if rv.j.get("variant") == "Err":
                    err_items.add(bb)
        esc = bi.cfg.escapes(0, err_items, after=False)
        if esc is None:
            out.holds(key, prog.loc(cl.body), "every path on which the pull half ends passes an Err(Status) item (%d site(s)); merge() would otherwise keep the stream open" % len(err_items))
        else:
            # name the offending exit: last branching block of the escaping path
            site = bi.loc(esc[-2] if len(esc) > 1 else esc[-1])
            for x in reversed(esc):
                if bi.body.blocks[x].term.k == "switch":
                    site = bi.loc(x)
                    break
            out.violation(key, site, "the pull half of the StreamingPull stream can end silently: merge() completes only when both halves do, so a client "
                          "whose request side stays open never sees a terminal status", ["bb%d (%s)" % (x, bi.loc(x)) for x in esc if bi.body.blocks[x].term.k in ("switch", "return")][:10])


@rule("C12", "R12.4", "requests racing a deletion fail instead of hanging: closed mailbox / dropped reply become errors; the actor task ends on deletion", floor=10)
def r12_4(prog, out):
    A = prog.anchors
    sub = A.ty("Subscription")
    n = 0
    for b in prog.facts.lib_bodies():
        if not b.coroutine or not b.root or not b.root.startswith(sub + "::"):
            continue
        bi = prog.info(b.id)
        for a in bi.awaits:
            cls = await_class(prog, bi, a)
            if cls not in ("mpsc_send", "oneshot_recv"):
                continue
            n += 1
            key = "handle:%s:%s" % (prog.short(b.id), cls)
            res = bi._final_result_local(a)
            uses = [u for u in bi.uses_of_local(res) if u[1] != -2] if res is not None else []
            consumed = False
            for (ub, ui) in uses:
                if ui == -1:
                    t = b.blocks[ub].term
                    if t.k == "call" and t.callee is not None and t.callee.path.split("::")[-1] in ("map_err", "branch", "map", "and_then", "unwrap_or", "unwrap_or_else", "ok_or", "ok_or_else", "or_else"):
                        consumed = True
                elif ui >= 0:
                    s = bi.stmt(ub, ui)
                    if s.lhs.is_local() and s.lhs.local == 0:
                        consumed = True
                    elif s.k == "assign":
                        consumed = True
            if consumed:
                out.holds(key, bi.loc(a.poll_bb), "result of the %s is mapped to an error / returned" % ("mailbox send" if cls == "mpsc_send" else "reply wait"))
            else:
                out.violation(key, bi.loc(a.poll_bb), "the result of the %s is discarded: a closed mailbox or dropped reply is not reported to the caller" % cls)
    # the actor task ends when the deletion signal fires
    actor = prog.actor_by_type("::SubscriptionActor")
    li = prog.info(actor.loop)
    key = "actor-ends-on-delete"
    ok = False
    for a in li.awaits:
        if a.select is None:
            continue
        for br in a.select.branches:
            if br.fut_ty == A.ty("Deleted") and br.cont_bb is not None:
                labels = const_walk(li, br.cont_bb, lambda bb: "again" if bb == a.poll_bb else None)
                if "return" in labels and "again" not in labels and "unknown" not in labels:
                    ok = True           # (a drain loop on the way out may also contain a panicking edge: `diverge`)
    if ok:
        out.holds(key, prog.loc(actor.loop), "the actor's outer select ends the task on the deletion signal, closing the mailbox")
    else:
        # the loop may instead go on serving its mailbox (every handler answers for a deleted subscription) and end when the last
        # handle is gone: `None => break` on the mailbox branch
        ends_on_none = False
        for a in li.awaits:
            if a.select is None:
                continue
            for br in a.select.branches:
                if "tokio::sync::mpsc" in (br.fut_ty or "") and "recv" in (br.fut_ty or "").lower():
                    if br.cont_bb is not None and "return" in const_walk(li, br.cont_bb, lambda bb: "again" if bb == a.poll_bb else None):
                        ends_on_none = True
        if ends_on_none:
            out.undecided(key, prog.loc(actor.loop), "the actor does not stop on the deletion signal; it serves its mailbox until the last handle is dropped: requests racing "
                          "the deletion are answered by the handlers' own `deleted` arms (R07.x / R10.x judge those), not by a closed mailbox")
        else:
            out.violation(key, prog.loc(actor.loop), "the subscription actor neither stops on the deletion signal nor when its mailbox is closed: requests racing the deletion may wait forever")


@rule("C12", "R12.5", "a gRPC error status in hand is never answered with Ok", floor=1)
@rule("C10", "R12.5", "a gRPC error status in hand is never answered with Ok", floor=1)
@rule("C17", "R12.5", "a gRPC error status in hand is never answered with Ok", floor=1)
def r12_5(prog, out):
    """NOT_FOUND for a deleted subscription, INVALID_ARGUMENT for a bad field .. are produced deep inside a handler; they reach
    the client only if no `match` on the way maps the `Err(status)` arm to a normal answer
    (`match timeout(..).await { Ok(Ok(v)) => v, _ => Vec::default() }` swallows the status of the inner Result)."""
    n = 0
    for b in prog.facts.lib_bodies():
        if b.file.startswith("/") or not b.file.startswith("src/api/"):
            continue
        bi = prog.info(b.id)
        errs = error_blocks(bi)
        # blocks that yield an Err item of a stream / build an Err for a residual also count as reporting
        for blk in b.blocks:
            if blk.cleanup or blk.idx not in bi.cfg.reach:
                continue
            t = blk.term
            if t.k != "switch" or t.discr is None or t.discr.place is None or not t.discr.place.is_local():
                continue
            for st in blk.stmts:
                if not (st.k == "assign" and st.rv.k == "discr" and st.lhs.is_local() and st.lhs.local == t.discr.place.local):
                    continue
                pty = b.place_ty(st.rv.place) or ""
                if not (pty.startswith("std::result::Result<") and pty.endswith(", tonic::Status>")):
                    continue
                arms = dict(t.arms)
                err_t = arms.get(1, t.otherwise if 0 in arms else None)
                if err_t is None:
                    continue
                n += 1
                key = "status-kept:%s" % prog.short(b.id)
                reporting = set(errs)
                for x in bi.cfg.reach:
                    tt = b.blocks[x].term
                    if tt.k == "call" and tt.callee is not None and (tt.callee.path.endswith("FromResidual::from_residual") or tt.callee.path in L.STATUS_CTORS):
                        reporting.add(x)
                    for s2 in b.blocks[x].stmts:
                        if s2.k == "assign" and s2.rv.k == "agg" and s2.rv.j.get("variant") == "Err" and s2.rv.j.get("adt") == "std::result::Result":
                            reporting.add(x)
                esc = bi.cfg.escapes(bi._skip_false(err_t), reporting, after=False)
                if esc is None:
                    out.holds(key, bi.loc(blk.idx), "the Err(status) arm ends in an error answer", nontrivial=False)
                else:
                    out.violation(key, bi.loc(blk.idx), "an Err(status) in hand is turned into a normal answer: the client gets OK (e.g. an empty response) where the "
                                  "operation reported an error such as NOT_FOUND for a deleted subscription", ["bb%d (%s)" % (x, bi.loc(x)) for x in esc][:8])


@rule("C12", "R12.7", "DeleteSubscription always reaches the subscription actor: the handle never answers Ok without sending the delete request", floor=1)
@rule("C11", "R12.7", "DeleteSubscription always reaches the subscription actor: the handle never answers Ok without sending the delete request", floor=1)
def r12_7(prog, out):
    """Consumers are released (and the name freed) by the actor's delete handler.  A delete flow that can answer Ok on some
    path without sending that request (`nothing to detach, so nothing to do`) leaves the subscription registered and its
    consumers parked.  R10.7 instances of the request variant(s) whose handler raises the actor's `deleted` flag."""
    from engine import Out
    from props.c10 import r10_7
    from actorlib import roles
    R = roles(prog)
    A = prog.anchors
    flag = A.cell("SubscriptionActor", "deleted", optional=True)
    if flag is None:
        raise CheckBroken("SubscriptionActor has no deleted flag")
    dvars = set()
    for vname in R.sub_actor.variants:
        for tid in R.variant_targets(R.sub_actor, vname):
            if any(e.kind == "write" and e.cells and e.cells[-1] == flag for e in prog.effects(tid)):
                dvars.add(vname)
    if not dvars:
        raise CheckBroken("no subscription request raises the deleted flag")
    tmp = Out(out.rid)
    r10_7(prog, tmp)
    n = 0
    for it in tmp.items:
        if any(("%s::%s:" % (short_ty(R.sub_actor.request), v)) in it.key for v in dvars):
            out.items.append(it)
            n += 1
    if n == 0:
        raise CheckBroken("the delete request is never built")


def _r12_8(prog, out):
    """A request travels in two steps: `sender.send(request).await`, then `reply.await`.  tokio's `Receiver::drop` closes the
    channel and empties it *once*; a sender that was admitted (holds a permit) just before the close can still put its request
    in just after that.  The request -- and the reply sender inside it -- then lies in a channel nobody reads, and it is only
    dropped when the last `Sender` is: but the caller that waits for the reply holds one itself (through its `Arc` of the
    handle).  It waits for ever.  So an actor task that *ends while handles to its mailbox can still exist* (it stops on a
    deletion signal, not on `recv() == None`) must close the mailbox and keep receiving until `recv()` yields `None` -- which
    tokio returns only when the channel is closed and no permit is outstanding.  Instances: one per actor."""
    from common import await_class
    A = prog.anchors
    for actor in prog.actors:
        li = prog.info(actor.loop)
        key = "mailbox-drained:%s" % short_ty(actor.ty)
        recvs = [a for a in li.awaits if await_class(prog, li, a) == "mpsc_recv" or
                 (a.select is not None and any("tokio::sync::mpsc" in (br.fut_ty or "") and "recv" in (br.fut_ty or "").lower() for br in a.select.branches))]
        # ways out of the task that are not `the mailbox said None`
        early = []
        for a in li.awaits:
            if a.select is None:
                continue
            for br in a.select.branches:
                if "tokio::sync::mpsc" in (br.fut_ty or ""):
                    continue
                if br.cont_bb is None:
                    continue
                labels = const_walk(li, br.cont_bb, lambda bb, a=a: "again" if bb == a.poll_bb else None)
                if "return" in labels and "again" not in labels:
                    early.append((a, br))
        if not early:
            out.holds(key, prog.loc(actor.loop), "the actor task only ends when its mailbox reports that no sender is left", nontrivial=False)
            continue
        closes = {bb for bb, t in li.calls(lambda c: c.path.startswith("tokio::sync::mpsc") and c.path.endswith("::close"))}
        bad = None
        for a, br in early:
            if not closes or li.cfg.escapes(br.cont_bb, closes, after=False) is not None:
                bad = (a, br, "without closing the mailbox and receiving what is still on its way")
                continue
            # after the close: a receive loop that ends on None
            drains = [x for x in li.awaits if await_class(prog, li, x) == "mpsc_recv" and any(li.cfg.can_reach(c, x.poll_bb) for c in closes)
                      and x.poll_bb in {b for blocks in li.cfg.loops().values() for b in blocks}]
            if not drains:
                bad = (a, br, "after `close()` it does not keep receiving until the mailbox reports `None`")
        if bad:
            a, br, why = bad
            out.violation(key, li.loc(br.cont_bb), "the %s task ends on %s %s: a request admitted to the mailbox just before it closes is put in just after the receiver "
                          "emptied it for the last time, lies there with its reply sender while any handle exists -- and the caller waiting for that reply holds a "
                          "handle itself, so it waits for ever" % (short_ty(actor.ty), short_ty(br.fut_ty or "?"), why),
                          ["exit branch at %s" % li.loc(a.poll_bb), "requests are sent in two steps (send, then wait for the reply) by the handle methods"])
        else:
            out.holds(key, li.loc(sorted(closes)[0]), "on its way out the actor closes the mailbox and receives until `None`: every request that still gets in is dropped, "
                      "so its sender is told `Closed`")


@rule("C12", "R12.8", "an actor that stops while handles to its mailbox exist closes the mailbox and drains it (no request is stranded)", floor=2)
def r12_8_c12(prog, out):
    _r12_8(prog, out)


@rule("C07", "R12.8", "an actor that stops while handles to its mailbox exist closes the mailbox and drains it (no request is stranded)", floor=2)
def r12_8_c07(prog, out):
    _r12_8(prog, out)
