"""Role discovery on the two actors (by effect, not by name) shared by C01, C03, C04, C06, C08, C11, C15."""
from engine import CheckBroken
import libmodel as L
from flow import TRANSPARENT

NOTIFY_KINDS = {"notify_one", "notify_waiters"}


class Roles:
    def __init__(self, prog):
        self.prog = prog
        A = prog.anchors
        self.A = A
        self.sub_actor = prog.actor_by_type("::SubscriptionActor")
        self.topic_actor = prog.actor_by_type("::TopicActor")
        if self.sub_actor is None or self.topic_actor is None:
            raise CheckBroken("subscription / topic actor not discovered (found: %s)" % [a.ty for a in prog.actors])
        self.backlog = A.cell("SubscriptionActor", "backlog")
        self.outstanding = A.cell("SubscriptionActor", "outstanding")
        self.deleted = A.cell("SubscriptionActor", "deleted")
        self.next_ack_id = A.cell("SubscriptionActor", "next_ack_id")
        self.signal = A.cell("SubscriptionObserver", "notify_messages_available")
        self.t_messages = A.cell("OutstandingMessageTracker", "messages")
        self.t_expirations = A.cell("OutstandingMessageTracker", "expirations")
        self.t_notify = A.cell("OutstandingMessageTracker", "notify")
        self.topic_subs = A.cell("TopicActor", "subscriptions")
        self._methods = {}

    # ------------------------------------------------------------------
    def impl_bodies(self, ty):
        """method bodies (and their closures) of impl `ty`"""
        if ty in self._methods:
            return self._methods[ty]
        out = []
        for b in self.prog.facts.lib_bodies():
            rb = self.prog.facts.body(b.root) if b.root else b
            owner = b.impl_self or (rb.impl_self if rb is not None else None)
            if owner == ty:
                out.append(b.id)
        self._methods[ty] = out
        return out

    def actor_methods(self, actor):
        """top-level (non-closure) methods of the actor type, async fns represented by their coroutine"""
        out = []
        skip = {actor.dispatch, actor.start, actor.loop, (self.prog.facts.body(actor.dispatch).root or actor.dispatch)}
        # everything between the spawned task and the dispatcher (an `async fn serve(&mut self, ..)` polled by the task's
        # select is the loop, not a request handler)
        import norm
        for sid in norm.spine_of(self.prog, actor):
            skip.add(sid)
            sb = self.prog.facts.body(sid)
            if sb is not None and sb.root:
                skip.add(sb.root)
        for bid in self.impl_bodies(actor.ty):
            b = self.prog.facts.body(bid)
            if b.kind == "AssocFn" and bid not in skip and self.effect_body(bid) not in skip:
                out.append(self.effect_body(bid))
        return out

    def effect_body(self, bid):
        b = self.prog.facts.body(bid)
        kids = [k for k in self.prog.facts.children(bid) if self.prog.facts.body(k).coroutine]
        if kids and len(b.blocks) <= 4 and not b.coroutine:
            return kids[0]
        return bid

    def with_effect(self, actor, cell, kinds):
        """actor methods whose (substituted) effect summary has such an effect; returns [(body id, [effects])]"""
        out = []
        methods = set(self.actor_methods(actor))
        roots = {self.prog.facts.body(m).root or m for m in methods} | methods
        for bid in self.actor_methods(actor) + [actor.dispatch]:
            effs = [e for e in self.prog.effects(bid) if e.touches(cell) and e.kind in kinds and not e.spawned
                    and not any(b in roots and b != bid for b, _ in e.chain)]
            if effs:
                out.append((bid, effs))
        return out

    def appenders(self):
        return self.with_effect(self.sub_actor, self.backlog, L.INSERT_KINDS)

    def poppers(self):
        return self.with_effect(self.sub_actor, self.backlog, L.REMOVE_KINDS)

    def tracker_removers(self):
        """tracker methods with a remove effect on the ack-id map"""
        tr = self.A.ty("OutstandingMessageTracker")
        out = []
        for bid in self.impl_bodies(tr):
            b = self.prog.facts.body(bid)
            if b.kind != "AssocFn":
                continue
            if any(e.touches(self.t_messages) and e.kind in L.REMOVE_KINDS for e in self.prog.own_effects(bid)):
                out.append(bid)
        return out

    def variant_targets(self, actor, variant):
        vh = actor.variants.get(variant)
        if vh is None:
            return []
        db = self.prog.facts.body(actor.dispatch)
        di = self.prog.info(actor.dispatch)
        # the handler of a variant is the method that takes its payload; a method the arm calls afterwards with the
        # handler's result (`self.wake(wake)`, `self.record(outcome)`) is not a handler of the request
        adt = self.prog.facts.adt(actor.request)
        ptys = [f["ty"] for v in adt["variants"] if v["name"] == variant for f in v["fields"]
                if not f["ty"].startswith("tokio::sync::oneshot::Sender<") and f["name"] != "responder"]
        calls = list(vh.calls)
        if ptys and len(calls) > 1:
            taking = []
            for (bb, tgt) in calls:
                t = di.body.blocks[bb].term
                atys = [di.body.operand_ty(a) or "" for a in (t.args if t.k == "call" else [])]
                if any(a == p or a.lstrip("&").replace("mut ", "") == p for a in atys for p in ptys):
                    taking.append((bb, tgt))
            if taking:
                calls = taking
        return [self.effect_body(self.prog.qual(db, tgt)) for (bb, tgt) in calls]

    def variant_with_field_type(self, actor, prefix):
        adt = self.prog.facts.adt(actor.request)
        for v in adt["variants"]:
            if any(f["ty"].startswith(prefix) for f in v["fields"]):
                return v["name"]
        return None

    def post_variant(self):
        v = self.variant_with_field_type(self.sub_actor, "std::vec::Vec<std::sync::Arc<%s" % self.A.ty("TopicMessage"))
        if v is None:
            raise CheckBroken("no subscription request variant carries Vec<Arc<TopicMessage>>")
        return v

    def pull_variant(self):
        """the lease variant: its handler pops the backlog"""
        for vname in self.sub_actor.variants:
            for tid in self.variant_targets(self.sub_actor, vname):
                if any(e.touches(self.backlog) and e.kind in L.REMOVE_KINDS for e in self.prog.effects(tid)):
                    return vname
        raise CheckBroken("no subscription request variant pops the backlog")

    def attach_variant(self):
        for vname in self.topic_actor.variants:
            for tid in self.variant_targets(self.topic_actor, vname):
                if any(e.touches(self.topic_subs) and e.kind in L.INSERT_KINDS for e in self.prog.effects(tid)):
                    return vname
        raise CheckBroken("no topic request variant inserts into TopicActor.subscriptions")

    def publish_variant(self):
        v = self.variant_with_field_type(self.topic_actor, "std::vec::Vec<%s" % self.A.ty("TopicMessage"))
        if v is None:
            v = self.variant_with_field_type(self.topic_actor, "std::vec::Vec<std::sync::Arc<%s" % self.A.ty("TopicMessage"))
        if v is None:
            raise CheckBroken("no topic request variant carries the published messages")
        return v

    def publish_body(self):
        """the topic actor's handler of the request that carries the published messages"""
        ts = self.variant_targets(self.topic_actor, self.publish_variant())
        if not ts:
            raise CheckBroken("publish variant has no handler")
        return ts[0]

    # ------------------------------------------------------------------ guards
    def flag_true_blocks(self, bi, cell):
        """blocks dominated by the `true` arm of a switch on a bool field read (e.g. `if self.deleted`)"""
        out = set()
        if cell is None:
            return out
        for blk in bi.body.blocks:
            if blk.cleanup or blk.idx not in bi.cfg.reach:
                continue
            t = blk.term
            if t.k != "switch" or t.discr is None or t.discr.place is None:
                continue
            o = self.prog.receiver_origin(bi, t.discr)
            hit = cell in o.cells()
            if not hit and t.discr.place.is_local():
                for (db, di) in bi.defs.get(t.discr.place.local, []):
                    if di >= 0:
                        s = bi.stmt(db, di)
                        for op in s.rv.ops:
                            if op.place is not None and cell in self.prog.receiver_origin(bi, op.place).cells():
                                hit = True
            if hit:
                out |= bi.cfg.edge_dominated(blk.idx, t.otherwise)
        # the flag may be an atomic shared with a handle: `if self.deleted.load(..)`
        from mapstate import _bool_switches
        for bb, t in bi.calls(lambda c: c.path.startswith("std::sync::atomic::") and c.path.endswith("::load")):
            if t.args and t.dest is not None and t.dest.is_local() and cell in self.prog.receiver_origin(bi, t.args[0]).cells():
                for sw, tr, fa in _bool_switches(bi, t.dest.local):
                    if tr is not None:
                        out |= bi.cfg.edge_dominated(sw, tr)
        return out

    def call_result_arm_blocks(self, bi, pred, truth):
        """blocks dominated by the arm taken when a bool-returning call matching pred(callee, origin-of-arg0) yields `truth`"""
        out = set()
        for bb, t in bi.calls():
            if t.dest is None or not t.dest.is_local() or t.target is None:
                continue
            if not pred(bb, t):
                continue
            from mapstate import _bool_switches
            for sw, tr, fa in _bool_switches(bi, t.dest.local):      # through moves, `!x`, the return place of a spliced helper
                arm = tr if truth else fa
                if arm is not None:
                    out |= bi.cfg.edge_dominated(sw, arm)
        return out

    def backlog_empty_blocks(self, bi):
        """blocks only reached when `self.backlog.is_empty()` returned true"""
        def pred(bb, t):
            n = t.callee.path.split("::")[-1]
            if n != "is_empty" or not t.args:
                return False
            o = self.prog.receiver_origin(bi, t.args[0])
            return self.backlog in o.cells()
        return self.call_result_arm_blocks(bi, pred, True)

    def notify_blocks(self, bid):
        return sorted({e.bb for e in self.prog.effects(bid) if e.touches(self.signal) and e.kind in NOTIFY_KINDS})


def roles(prog):
    r = getattr(prog, "_roles", None)
    if r is None:
        r = Roles(prog)
        prog._roles = r
    return r
