"""G4: provenance by backward slicing.  `Slicer.of(body_id, operand)` over-approximates everything the
operand's value may be derived from: field reads (owner ADT, field), library calls, constants, and
unresolved roots (parameters of the top-level body).  Local callees and closures are entered
(return value / captured variables), library calls are treated as functions of all their arguments.
Because the result is an over-approximation, *absence* of a source field is a proof that the value
does not depend on it."""
from mir import Operand, Place


class Slice:
    def __init__(self):
        self.fields = set()      # (owner, field)
        self.calls = set()       # callee paths
        self.consts = set()      # constant descriptions
        self.roots = set()       # unresolved: ("param", body, n) / ("upvar", body, name) / ("unknown", ..)
        self.sites = set()       # (body, bb) visited call sites
        self.ops = set()         # binary / unary operators and casts on the way ("Add", "cast:i32->u16", ..)

    def update(self, other):
        self.fields |= other.fields
        self.calls |= other.calls
        self.consts |= other.consts
        self.roots |= other.roots
        self.sites |= other.sites
        self.ops |= other.ops

    def reads(self, cell):
        return cell in self.fields

    def complete(self):
        return not self.roots

    def __repr__(self):
        return "Slice(fields=%s calls=%s consts=%s roots=%s)" % (
            sorted(f[0].split("::")[-1] + "." + f[1] for f in self.fields),
            sorted(c.split("::")[-1] for c in self.calls), sorted(map(str, self.consts))[:4], sorted(self.roots))


class Slicer:
    def __init__(self, prog, max_depth=6, stop_at=None):
        """stop_at(type string) -> bool: a value of such a type that is the result of a call (or of an await) is taken as a
        source of its own (root ("source", body, local)); how it was obtained is not part of the slice"""
        self.prog = prog
        self.max_depth = max_depth
        self.stop_at = stop_at

    def of(self, body_id, x, env=None):
        """slice of Operand / Place / local index `x` in body_id.
        env: {("param", n) | ("upvar", name): Slice} substitution for the body's inputs"""
        res = Slice()
        self._visit(body_id, x, env or {}, res, set(), 0)
        return res

    def of_resolved(self, body_id, x, rounds=4):
        """like `of`, then resolves captured variables through the enclosing body and parameters through all
        call sites of the function (union over callers), a few levels up"""
        res = self.of(body_id, x)
        for _ in range(rounds):
            pending = [r for r in res.roots if r[0] in ("upvar", "param")]
            if not pending:
                break
            progressed = False
            for r in pending:
                extra = self._resolve_root(r)
                if extra is not None:
                    res.roots.discard(r)
                    res.update(extra)
                    progressed = True
            if not progressed:
                break
        return res

    def _resolve_root(self, r):
        prog = self.prog
        kind, bid, what = r
        b = prog.facts.body(bid)
        if b is None:
            return None
        if kind == "upvar":
            if not b.parent:
                return None
            pid = prog.qual(b, b.parent)
            pi = prog.info(pid)
            if pi is None:
                return None
            for blk in pi.body.blocks:
                for st in blk.stmts:
                    if st.k == "assign" and st.rv.k == "agg" and st.rv.j.get("ak") in ("closure", "coroutine") and prog.qual(pi.body, st.rv.j["def"]) == bid:
                        names = st.rv.j.get("fields", [])
                        if what in names:
                            return self.of(pid, st.rv.ops[names.index(what)])
            return None
        if kind == "param":
            if b.kind == "Closure":
                return None
            out = None
            for cid, cb in prog.facts.bodies.items():
                ci = prog.info(cid)
                for cbb, t in ci.calls(lambda c: prog.qual(cb, c.target) == bid):
                    if what - 1 < len(t.args):
                        s = self.of(cid, t.args[what - 1])
                        if out is None:
                            out = s
                        else:
                            out.update(s)
            return out
        return None

    # ------------------------------------------------------------------
    def _visit(self, body_id, x, env, res, seen, depth):
        bi = self.prog.info(body_id)
        if bi is None:
            res.roots.add(("unknown", body_id, "nobody"))
            return
        if isinstance(x, Operand):
            if x.place is None:
                c = x.const
                res.consts.add(c.get("def") or c.get("int") or c.get("str") or c.get("text") or "?")
                named = self.prog.facts.consts.get(c.get("def")) if c.get("def") else None
                if named is not None and (named.get("str") is not None or named.get("int") is not None):
                    res.consts.add(named.get("str") if named.get("str") is not None else named.get("int"))   # a named constant stands for its value
                return
            x = x.place
        if isinstance(x, Place):
            for (owner, name) in x.field_owners():
                if not owner.startswith("upvar:") and owner != "tuple":
                    res.fields.add((owner, name))
            for p in x.proj:
                if isinstance(p, dict) and "idx" in p:
                    self._visit(body_id, p["idx"], env, res, seen, depth)
            local = x.local
            first_field = None
            for p in x.proj:
                if p == "deref":
                    continue
                if isinstance(p, dict) and "f" in p:
                    first_field = p["n"]
                break
        else:
            local = x
            first_field = None
        body = bi.body
        # a field of a value built by one aggregate in this body (a spliced coroutine's captured variable, a struct
        # literal): only that field's operand feeds it
        if first_field is not None and not bi.is_env(local):
            op = self._agg_field(bi, local, first_field)
            if op is not None:
                self._visit(body_id, op, env, res, seen, depth)
                return
        # closure environment
        if bi.is_env(local):
            if first_field is not None:
                key = ("upvar", first_field)
                if key in env:
                    res.update(env[key])
                else:
                    # a captured variable: continue in the enclosing body at the closure's construction site
                    r = self._resolve_root(("upvar", body_id, first_field)) if depth < self.max_depth else None
                    if r is not None:
                        res.update(r)
                    else:
                        res.roots.add(("upvar", body_id, first_field))
            else:
                for k, v in env.items():
                    if k[0] == "upvar":
                        res.update(v)
            return
        if (body_id, local) in seen:
            return
        seen.add((body_id, local))
        defs = bi.defs.get(local, [])
        if 1 <= local <= body.arg_count and not (body.coroutine and local == 2):
            key = ("param", local)
            if key in env:
                res.update(env[key])
            else:
                res.roots.add(("param", body_id, local))
        # values written through `&mut local` handed to a call (Vec::push(&mut v, x), extend, insert ..) feed it too
        for (ub, ui) in bi.uses_of_local(local):
            if ui < 0:
                continue
            st = bi.stmt(ub, ui)
            if st.k == "assign" and st.rv.k == "ref" and st.rv.j.get("bk") == "mut" and st.rv.place.local == local and st.lhs.is_local():
                for (cb, ci) in self._borrow_uses(bi, st.lhs.local, 0):
                    t = body.blocks[cb].term
                    if t.k == "call":
                        res.sites.add((body_id, cb))
                        if t.callee is not None:
                            res.calls.add(t.callee.res or t.callee.path)
                        for a in t.args:
                            if a.place is not None and a.place.local == local:
                                continue
                            self._visit(body_id, a, env, res, seen, depth)
        # partial (field) writes to the local also feed it
        alld = list(defs) + bi.partial_defs(local)
        for (bb, i) in alld:
            if i >= 0:
                s = bi.stmt(bb, i)
                rv = s.rv
                for op in rv.ops:
                    self._visit(body_id, op, env, res, seen, depth)
                if rv.place is not None:
                    self._visit(body_id, rv.place, env, res, seen, depth)
                if rv.k == "agg" and rv.j["ak"] in ("closure", "coroutine"):
                    self._enter_closure(body_id, rv, env, res, seen, depth)
                if rv.k == "bin" or rv.k == "un":
                    res.ops.add(rv.j["op"])
                elif rv.k == "cast" and rv.j["ck"] == "IntToInt":
                    res.ops.add("cast:%s->%s" % (body.ty(rv.j["from"]), body.ty(rv.j["to"])))
            else:
                t = body.blocks[bb].term
                if self.stop_at is not None and self.stop_at(body.local_ty(local) or ""):
                    res.roots.add(("source", body_id, local))
                    continue
                if t.k == "call":
                    self._call(body_id, bb, t, env, res, seen, depth)
                elif t.k == "yield":
                    res.roots.add(("unknown", body_id, "resume"))

    def _agg_field(self, bi, local, field, depth=0):
        """operand stored in `field` of the aggregate that `local` is a (moved / borrowed) copy of; None if not exactly one"""
        if depth > 12:
            return None
        defs = bi.defs.get(local, [])
        if len(defs) != 1 or bi.partial_defs(local):
            return None
        bb, i = defs[0]
        if i < 0:
            return None
        rv = bi.stmt(bb, i).rv
        if rv.k == "use" and rv.ops[0].place is not None and not [p for p in rv.ops[0].place.proj if p != "deref"]:
            return self._agg_field(bi, rv.ops[0].place.local, field, depth + 1)
        if rv.k == "ref" and not [p for p in rv.place.proj if p != "deref"]:
            return self._agg_field(bi, rv.place.local, field, depth + 1)
        if rv.k == "agg" and rv.j.get("ak") in ("closure", "coroutine", "adt", "tuple"):
            names = rv.j.get("fields") or []
            if rv.j.get("ak") == "tuple":
                names = [str(k) for k in range(len(rv.ops))]
            if field in names:
                return rv.ops[names.index(field)]
        return None

    def _borrow_uses(self, bi, ref_local, depth):
        """call sites that receive the reference held in ref_local (following reborrows / moves)"""
        out = []
        if depth > 4:
            return out
        for (ub, ui) in bi.uses_of_local(ref_local):
            if ui == -1:
                out.append((ub, ui))
            elif ui >= 0:
                st = bi.stmt(ub, ui)
                if st.k == "assign" and st.lhs.is_local() and st.rv.k in ("use", "ref") and st.lhs.local != ref_local:
                    out.extend(self._borrow_uses(bi, st.lhs.local, depth + 1))
        return out

    def _enter_closure(self, body_id, rv, env, res, seen, depth):
        if depth >= self.max_depth:
            res.roots.add(("unknown", body_id, "depth"))
            return
        bi = self.prog.info(body_id)
        child = self.prog.qual(bi.body, rv.j["def"])
        ci = self.prog.info(child)
        if ci is None:
            return
        names = rv.j.get("fields", [])
        cenv = {}
        for n, op in zip(names, rv.ops):
            s = Slice()
            self._visit(body_id, op, env, s, set(seen), depth + 1)
            cenv[("upvar", n)] = s
        # closure parameters are elements handed in by the library (unknown but not "roots" of ours):
        for k in range(2, ci.body.arg_count + 1):
            cenv[("param", k)] = Slice()
        r = Slice()
        self._visit(child, 0, cenv, r, set(), depth + 1)
        # every field read anywhere in the closure matters for provenance of what it produces
        res.update(r)

    def _call(self, body_id, bb, t, env, res, seen, depth):
        bi = self.prog.info(body_id)
        res.sites.add((body_id, bb))
        c = t.callee
        if c is None:
            for a in t.args:
                self._visit(body_id, a, env, res, seen, depth)
            res.calls.add("<indirect>")
            return
        tgt = c.target
        dst = self.prog.qual(bi.body, tgt) if (c.local or c.res_local) and tgt else None
        db = self.prog.facts.body(dst) if dst else None
        if db is not None and not db.coroutine and depth < self.max_depth:
            # enter the local callee: slice of its return value with parameters substituted
            cenv = {}
            for k, a in enumerate(t.args):
                s = Slice()
                self._visit(body_id, a, env, s, set(seen), depth + 1)
                cenv[("param", k + 1)] = s
            r = Slice()
            self._visit(dst, 0, cenv, r, set(), depth + 1)
            res.update(r)
            res.calls.add(tgt)
            return
        res.calls.add(c.path if not c.res else c.res)
        for a in t.args:
            self._visit(body_id, a, env, res, seen, depth)


def through_channels(prog, sl, body_id, slice_):
    """When a value's slice ends at `rx.recv()` of a tokio mpsc channel, continue at what is *sent* into channels of the same
    element type anywhere in the crate (`tx.send(v)`, `permit.send(v)`, `try_send`): returns the union of the slices of the sent
    values, or None when the slice does not pass through a receive."""
    import re
    tys = set()
    for (sb, sbb) in slice_.sites:
        si = prog.info(sb)
        t = si.call_at(sbb) if si is not None else None
        if t is None or t.callee is None or not t.args:
            continue
        if "tokio::sync::mpsc" in t.callee.path and t.callee.path.split("::")[-1] in ("recv", "try_recv", "recv_many", "blocking_recv"):
            m = re.search(r"Receiver<(.*)>$", (si.body.operand_ty(t.args[0]) or "").strip())
            if m:
                tys.add(m.group(1).strip())
    if not tys:
        return None
    out = None
    for b in prog.facts.lib_bodies():
        bi = prog.info(b.id)
        for bb, t in bi.calls(lambda c: "tokio::sync::mpsc" in c.path and c.path.split("::")[-1] in ("send", "try_send", "blocking_send", "send_timeout")):
            if len(t.args) < 2:
                continue
            if (bi.body.operand_ty(t.args[1]) or "").strip() in tys:
                s2 = sl.of_resolved(b.id, t.args[1])
                if out is None:
                    out = s2
                else:
                    out.update(s2)
    return out
