"""G2 and friends: per-body def/use, place origins, await / select / spawn sites."""
import re
from cfg import CFG

AWAIT_EXP = "desugaring of `await` expression"
SELECT_EXP = "tokio::select!"

# calls that hand back (a view of / a copy of / a wrapper around) their first argument
TRANSPARENT = {
    "std::ops::Deref::deref", "std::ops::DerefMut::deref_mut",
    "std::convert::AsRef::as_ref", "std::convert::AsMut::as_mut",
    "std::borrow::Borrow::borrow", "std::borrow::BorrowMut::borrow_mut",
    "std::pin::Pin::<Ptr>::new_unchecked", "std::pin::Pin::<Ptr>::new", "std::pin::Pin::<Ptr>::as_mut",
    "std::pin::Pin::<&'a mut T>::get_mut", "std::pin::Pin::<&'a mut T>::get_unchecked_mut",
    "std::pin::Pin::<Ptr>::get_mut",
    "std::future::IntoFuture::into_future",
    "std::option::Option::<T>::as_ref", "std::option::Option::<T>::as_mut",
    "std::option::Option::<T>::as_deref",
    "std::boxed::Box::<T>::pin", "std::boxed::Box::<T>::new",
    "std::convert::identity",
}
CLONE = {"std::clone::Clone::clone", "std::sync::Arc::<T, A>::clone", "std::borrow::ToOwned::to_owned"}


def strip_pin(ty):
    m = re.match(r"^std::pin::Pin<&mut (.*)>$", ty or "")
    return m.group(1) if m else ty


class Origin:
    """root + projection path of a value.
    kind: param | upvar | env | call | const | agg | local | cast | discr | expr
    path: tuple of steps; a step is ("f", name, owner) | ("v", variant) | ("i",) | ("?",)"""
    __slots__ = ("kind", "data", "path", "via_clone", "via")

    def __init__(self, kind, data, path=(), via_clone=False):
        self.kind = kind
        self.data = data
        self.path = tuple(path)
        self.via_clone = via_clone
        self.via = []          # transparent calls stepped through: (bb, callee path)

    def fields(self):
        return tuple(p[1] for p in self.path if p[0] == "f")

    def cells(self):
        """(owner ADT, field) of every field step"""
        return tuple((p[2], p[1]) for p in self.path if p[0] == "f")

    def key(self):
        return (self.kind, self.data, self.fields())

    def __repr__(self):
        s = "%s:%s" % (self.kind, self.data)
        for p in self.path:
            if p[0] == "f":
                s += "." + p[1]
            elif p[0] == "v":
                s += "@" + p[1]
            else:
                s += "." + p[0]
        return s


class AwaitSite:
    def __init__(self):
        self.poll_bb = None
        self.fut_ty = None
        self.target = None      # resolved poll target (body id of a local coroutine, or library path)
        self.origin = None      # Origin of the awaited future
        self.yield_bb = None
        self.ready_bb = None
        self.result_local = None
        self.span = None
        self.select = None      # SelectSite if this await is a tokio::select!
        self.entry_bb = None    # loop header of the await loop

    def __repr__(self):
        return "await@bb%s %s" % (self.poll_bb, self.target)


class SelectBranch:
    def __init__(self):
        self.index = None
        self.fut_ty = None
        self.target = None
        self.origin = None
        self.cont_bb = None


class SelectSite:
    def __init__(self):
        self.closure = None
        self.branches = []
        self.span = None
        self.disabled_bb = None


class SpawnSite:
    def __init__(self):
        self.bb = None
        self.kind = None     # detached | joinset | local | blocking
        self.callee = None
        self.origin = None
        self.task = None     # body id of the spawned coroutine if known
        self.span = None
        self.awaited = False  # the JoinHandle is awaited right away


class BodyInfo:
    def __init__(self, body, facts):
        self.body = body
        self.facts = facts
        self.cfg = CFG(body)
        self._defs = None
        self._awaits = None
        self._spawns = None
        self._uses = None

    # ------------------------------------------------------------------ defs
    @property
    def defs(self):
        if self._defs is None:
            d = {}
            for b in self.body.blocks:
                if b.cleanup:
                    continue
                for i, s in enumerate(b.stmts):
                    if s.k == "assign" and s.lhs.is_local():
                        d.setdefault(s.lhs.local, []).append((b.idx, i))
                t = b.term
                if t.k == "call" and t.dest is not None and t.dest.is_local():
                    d.setdefault(t.dest.local, []).append((b.idx, -1))
                if t.k == "yield":
                    ra = t.j.get("resume_arg")
                    if ra and "p" not in ra:
                        d.setdefault(ra["l"], []).append((b.idx, -1))
            self._defs = d
        return self._defs

    def partial_defs(self, local):
        """assignments to projections of `local` (field writes)"""
        out = []
        for b in self.body.blocks:
            if b.cleanup:
                continue
            for i, s in enumerate(b.stmts):
                if s.k == "assign" and not s.lhs.is_local() and s.lhs.local == local:
                    out.append((b.idx, i))
        return out

    def stmt(self, bb, i):
        return self.body.blocks[bb].stmts[i]

    def is_env(self, local):
        return local == 1 and self.body.kind == "Closure"

    # ------------------------------------------------------------------ origins
    def trace(self, x, through_clone=True, _depth=0, _extra=(), transparent=None):
        """Origin of an Operand / Place / local index."""
        from mir import Operand, Place
        if isinstance(x, Operand):
            if x.place is None:
                return Origin("const", x.const.get("def") or x.const.get("int") or x.const.get("str") or x.const.get("fn") or x.const.get("text"), _extra)
            return self.trace(x.place, through_clone, _depth, _extra, transparent)
        if isinstance(x, int):
            local, proj = x, []
        else:
            local, proj = x.local, list(x.proj)
        path = []
        for p in proj:
            if p == "deref":
                continue
            if isinstance(p, dict) and "f" in p:
                path.append(("f", p["n"], p.get("o", "")))
            elif isinstance(p, dict) and "dc" in p:
                path.append(("v", p["dc"]))
            elif isinstance(p, dict) and ("idx" in p or "cidx" in p):
                path.append(("i",))
            else:
                path.append(("?",))
        path = path + list(_extra)
        if _depth > 60:
            return Origin("local", local, path)
        # closure / coroutine environment
        if self.is_env(local):
            if path and path[0][0] == "f":
                return Origin("upvar", path[0][1], path[1:])
            return Origin("env", 1, path)
        defs = self.defs.get(local, [])
        if 1 <= local <= self.body.arg_count:
            if not defs or (self.body.coroutine and local == 2):
                return Origin("param", local, path)
        if len(defs) != 1:
            return Origin("local", local, path)
        bb, i = defs[0]
        if i >= 0:
            s = self.stmt(bb, i)
            rv = s.rv
            if rv.k in ("use", "cast", "repeat"):
                op = rv.ops[0]
                if rv.k == "cast" and rv.j["ck"] not in ("PointerCoercion", "PtrToPtr", "Transmute", "Subtype"):
                    return Origin("cast", (bb, i), path)
                if op.place is None:
                    return self.trace(op, through_clone, _depth + 1, path, transparent)
                return self.trace(op.place, through_clone, _depth + 1, path, transparent)
            if rv.k in ("ref", "copyderef", "rawptr"):
                return self.trace(rv.place, through_clone, _depth + 1, path, transparent)
            if rv.k == "agg":
                ak = rv.j["ak"]
                real = [p for p in path]
                # strip leading downcast marker for enums
                lead = None
                if real and real[0][0] == "v":
                    lead = real.pop(0)
                if real and real[0][0] == "f" and ak in ("adt", "tuple", "closure", "coroutine"):
                    names = rv.j.get("fields") or [str(k) for k in range(len(rv.ops))]
                    if ak == "tuple":
                        names = [str(k) for k in range(len(rv.ops))]
                    if real[0][1] in names and (lead is None or lead[1] == rv.j.get("variant", "")):
                        return self.trace(rv.ops[names.index(real[0][1])], through_clone, _depth + 1, real[1:], transparent)
                return Origin("agg", (bb, i), path)
            if rv.k == "discr":
                o = self.trace(rv.place, through_clone, _depth + 1, (), transparent)
                return Origin("discr", o.key(), path)
            return Origin("expr", (bb, i), path)
        # terminator def
        t = self.body.blocks[bb].term
        if t.k == "call" and t.callee is not None:
            p = t.callee.path
            tset = TRANSPARENT if transparent is None else transparent
            if (p in tset or (through_clone and p in CLONE)) and t.args:
                o = self.trace(t.args[0], through_clone, _depth + 1, path, transparent)
                if p in CLONE:
                    o.via_clone = True
                o.via.append((bb, p))
                return o
            # `x?`: the Continue payload of Try::branch(x) is the Some / Ok payload of x
            if p == "std::ops::Try::branch" and t.args and len(path) >= 2 and path[0] == ("v", "Continue") and path[1][0] == "f":
                aty = self.body.operand_ty(t.args[0]) or ""
                var = "Some" if aty.startswith("std::option::Option<") else ("Ok" if aty.startswith("std::result::Result<") else None)
                if var is not None:
                    owner = "std::option::Option::Some" if var == "Some" else "std::result::Result::Ok"
                    np = [("v", var), ("f", "0", owner)] + list(path[2:])
                    o = self.trace(t.args[0], through_clone, _depth + 1, tuple(np), transparent)
                    o.via.append((bb, p))
                    return o
        if t.k == "call":
            return Origin("call", bb, path)
        return Origin("local", local, path)

    def call_at(self, bb):
        return self.body.blocks[bb].term

    def agg_at(self, data):
        bb, i = data
        return self.stmt(bb, i).rv

    # ------------------------------------------------------------------ uses
    def uses_of_local(self, local):
        """(bb, idx) of statements / terminators mentioning `local` as an operand or place base"""
        if self._uses is None:
            u = {}

            def add(l, where):
                u.setdefault(l, []).append(where)

            for b in self.body.blocks:
                if b.cleanup:
                    continue
                for i, s in enumerate(b.stmts):
                    if s.k != "assign":
                        continue
                    for op in s.rv.ops:
                        if op.place is not None:
                            add(op.place.local, (b.idx, i))
                    if s.rv.place is not None:
                        add(s.rv.place.local, (b.idx, i))
                    if not s.lhs.is_local():
                        add(s.lhs.local, (b.idx, i))
                t = b.term
                for op in t.args:
                    if op.place is not None:
                        add(op.place.local, (b.idx, -1))
                for op in (t.discr, t.cond, t.value, t.fn_op):
                    if op is not None and op.place is not None:
                        add(op.place.local, (b.idx, -1))
                if t.k == "drop" and t.place is not None:
                    add(t.place.local, (b.idx, -2))
            self._uses = u
        return self._uses.get(local, [])

    # ------------------------------------------------------------------ awaits / selects
    @property
    def awaits(self):
        if self._awaits is not None:
            return self._awaits
        out = []
        body = self.body
        for b in body.blocks:
            if b.cleanup:
                continue
            t = b.term
            if t.k != "call" or t.callee is None:
                continue
            if not t.callee.path.endswith("Future::poll"):
                continue
            if not t.exp or AWAIT_EXP not in t.exp:
                continue
            # inside a select! the per-branch polls live in the poll_fn closure, not here
            a = AwaitSite()
            a.poll_bb = b.idx
            a.span = t.span
            a.fut_ty = strip_pin(body.operand_ty(t.args[0])) if t.args else None
            a.target = t.callee.target
            a.origin = self.trace(t.args[0]) if t.args else None
            # ready / pending continuation
            nxt = t.target
            sw = body.blocks[nxt].term if nxt is not None else None
            if sw is not None and sw.k == "switch":
                arms = dict(sw.arms)
                ready = arms.get(0)
                pending = arms.get(1)
                a.ready_bb = self._skip_false(ready)
                y = pending
                guard = 0
                while y is not None and guard < 10:
                    yt = body.blocks[y].term
                    if yt.k == "yield":
                        a.yield_bb = y
                        break
                    s = yt.succs()
                    y = s[0] if len(s) == 1 else None
                    guard += 1
                # result local: `(_r as Ready).0` moved on
                if a.ready_bb is not None:
                    for s in body.blocks[a.ready_bb].stmts:
                        if s.k == "assign" and s.lhs.is_local():
                            a.result_local = s.lhs.local
            # loop header: the block the yield resumes to jumps back to
            if a.yield_bb is not None:
                r = body.blocks[a.yield_bb].term.target
                if r is not None:
                    ss = body.blocks[r].term.succs()
                    a.entry_bb = ss[0] if ss else None
            m = re.match(r"^tokio::future::poll_fn::PollFn<\{closure:(.*)\}>$", a.fut_ty or "")
            if m and SELECT_EXP in (t.exp or []):
                a.select = self._select(a, m.group(1))
            out.append(a)
        self._awaits = out
        return out

    def _skip_false(self, bb):
        guard = 0
        while bb is not None and guard < 5:
            t = self.body.blocks[bb].term
            if t.k == "falseedge" and not self.body.blocks[bb].stmts:
                bb = t.target
                guard += 1
            else:
                break
        return bb

    def _select(self, a, closure_id):
        body = self.body
        s = SelectSite()
        s.closure = closure_id if body.crate == "lib" else "bin::" + closure_id
        s.span = a.span
        cb = self.facts.body(s.closure)
        # branch futures as seen by the poll_fn closure
        polls = []
        if cb is not None:
            for b in cb.blocks:
                if b.cleanup:
                    continue
                t = b.term
                if t.k == "call" and t.callee is not None and t.callee.path.endswith("Future::poll"):
                    polls.append((b.idx, t))
        # futures tuple in the parent: the closure aggregate's `futures` capture
        fut_origins = []
        for b in body.blocks:
            for st in b.stmts:
                if st.k == "assign" and st.rv.k == "agg" and st.rv.j.get("ak") == "closure":
                    d = st.rv.j["def"]
                    d = d if body.crate == "lib" else "bin::" + d
                    if d == s.closure:
                        names = st.rv.j["fields"]
                        if "futures" in names:
                            op = st.rv.ops[names.index("futures")]
                            n = len(polls)
                            for k in range(n):
                                fut_origins.append(self.trace(op, _extra=(("f", str(k), "tuple"),)))
        # continuation per branch: switch on the discriminant of the await result
        conts = {}
        res = self._final_result_local(a)
        if res is not None:
            for b in body.blocks:
                if b.cleanup:
                    continue
                t = b.term
                if t.k == "switch" and t.discr is not None and t.discr.place is not None:
                    o = self.trace(t.discr)
                    if o.kind == "discr" and o.data[0] == "local" and o.data[1] == res:
                        conts = dict(t.arms)
                    elif o.kind == "discr":
                        # discr of a single-def temp chain ending at res
                        pass
            if not conts:
                for b in body.blocks:
                    if b.cleanup:
                        continue
                    for st in b.stmts:
                        if st.k == "assign" and st.rv.k == "discr" and st.rv.place.local == res and st.rv.place.is_local():
                            t = b.term
                            if t.k == "switch":
                                conts = dict(t.arms)
        for k, (pbb, t) in enumerate(polls):
            br = SelectBranch()
            br.index = k
            br.fut_ty = strip_pin(cb.operand_ty(t.args[0])) if t.args else None
            br.target = t.callee.target
            br.origin = fut_origins[k] if k < len(fut_origins) else None
            br.cont_bb = self._skip_false(conts.get(k))
            s.branches.append(br)
        s.disabled_bb = self._skip_false(conts.get(len(polls)))
        return s

    def _final_result_local(self, a):
        """the user-visible local receiving the await result (follows `_x = move _y` chains)"""
        body = self.body
        if a.ready_bb is None:
            return None
        cur = None
        for st in body.blocks[a.ready_bb].stmts:
            if st.k == "assign" and st.lhs.is_local() and st.rv.k == "use" and st.rv.ops[0].place is not None:
                cur = st.lhs.local
        return cur

    # ------------------------------------------------------------------ spawns
    SPAWN_FUNCS = {
        "tokio::spawn": "detached",
        "tokio::task::spawn": "detached",
        "tokio::task::spawn_local": "detached",
        "tokio::task::spawn_blocking": "detached",
        "tokio::task::JoinSet::<T>::spawn": "joinset",
        "tokio::task::JoinSet::<T>::spawn_local": "joinset",
        "tokio::runtime::Handle::spawn": "detached",
    }

    @property
    def spawns(self):
        if self._spawns is not None:
            return self._spawns
        out = []
        for b in self.body.blocks:
            if b.cleanup:
                continue
            t = b.term
            if t.k != "call" or t.callee is None:
                continue
            kind = self.SPAWN_FUNCS.get(t.callee.path)
            if kind is None:
                continue
            sp = SpawnSite()
            sp.bb = b.idx
            sp.kind = kind
            sp.callee = t.callee.path
            sp.span = t.span
            arg = t.args[-1] if t.args else None
            sp.origin = self.trace(arg) if arg is not None else None
            ty = self.body.operand_ty(arg) if arg is not None else None
            m = re.match(r"^\{coroutine:(.*)\}$", ty or "")
            if m:
                sp.task = m.group(1) if self.body.crate == "lib" else "bin::" + m.group(1)
            sp.task_ty = ty
            # awaited right away?  the JoinHandle flows into an await in this body
            if t.dest is not None and kind == "detached":
                for a in self.awaits:
                    if a.origin is not None and a.origin.kind == "call" and a.origin.data == b.idx:
                        sp.awaited = True
            out.append(sp)
        self._spawns = out
        return out

    # ------------------------------------------------------------------ misc
    def calls(self, pred=None):
        for b in self.body.blocks:
            if b.cleanup:
                continue
            t = b.term
            if t.k == "call" and t.callee is not None and (pred is None or pred(t.callee)):
                yield b.idx, t

    def yields(self):
        return [b.idx for b in self.body.blocks if not b.cleanup and b.term.k == "yield"]

    def loc(self, bb):
        t = self.body.blocks[bb].term
        sp = t.span or self.body.span
        parts = sp.split(":")
        return "%s:%s" % (parts[0], parts[1])
