"""Interprocedural event-order analysis over client-cancellable roots (used by C16, C17).

Events on the paths of a root (an RPC handler coroutine, or the per-message scope of a stream body):
  E  a state effect becomes irrevocable: a synchronous mutation of shared state executed in the caller's
     task, the completion of a mailbox send of a *mutating* request variant, or the spawn of a task
     (whose own effects then happen regardless of the caller);
  Y  a suspension point at which the root can be dropped (every Yield reachable by inlining awaited local
     coroutines; yields inside spawned tasks are not the root's);
  V  a validation failure can be returned (a call whose synchronous cone builds Status::invalid_argument).
An awaited local coroutine is inlined once at its await site (its effects happen once, whatever the
number of polls); a library future is `Y* then its completion event`.
"""
from common import await_class, short_ty
import libmodel as L

INLINE = ("call", "closure")


class Event:
    __slots__ = ("kind", "label", "site", "lease")

    def __init__(self, kind, label, site, lease=False):
        self.kind, self.label, self.site, self.lease = kind, label, site, lease

    def __repr__(self):
        return "%s(%s@%s)" % (self.kind, self.label, self.site)

    # value semantics: the walker's state sets must converge in loops (an event re-created on every visit of an await is
    # the same event)
    def __eq__(self, other):
        return isinstance(other, Event) and (self.kind, self.label, self.site, self.lease) == (other.kind, other.label, other.site, other.lease)

    def __hash__(self):
        return hash((self.kind, self.label, self.site, self.lease))


class EventModel:
    def __init__(self, prog):
        self.prog = prog
        A = prog.anchors
        self.shared_owners = {A.ty("SubState"), A.ty("TopicState"), A.ty("PushRegistryState"), A.ty("SubscriptionObserver"),
                              A.ty("FlowControl")}
        self._variant_kind = {}
        self._events = {}
        self._has_invalid = {}
        self._task_has_effect = {}
        self.backlog = A.cell("SubscriptionActor", "backlog")

    # ------------------------------------------------------------------ actor request variants
    def variant_info(self, request_ty, variant):
        """('mutating' | 'readonly', lease?) of a request variant, computed from the handler's effect cone"""
        key = (request_ty, variant)
        if key in self._variant_kind:
            return self._variant_kind[key]
        actor = self.prog.actor_by_request(request_ty)
        res = ("unknown", False)
        if actor is not None and variant in actor.variants:
            vh = actor.variants[variant]
            mut, lease = False, False
            for (bb, tgt) in vh.calls:
                for e in self.prog.effects(self.prog.qual(self.prog.facts.body(actor.dispatch), tgt)):
                    if e.kind in L.MUTATING_KINDS and e.cells and e.root[0] in ("param", "upvar"):
                        mut = True
                    if e.kind == "mpsc_send":
                        mut = True
                    if e.kind in L.REMOVE_KINDS and e.touches(self.backlog):
                        lease = True
            res = ("mutating" if mut else "readonly", lease)
        self._variant_kind[key] = res
        return res

    def send_variant(self, bi, a):
        """(request type, variant) of an awaited mailbox send"""
        if a.origin is None or a.origin.kind != "call":
            return None
        t = bi.call_at(a.origin.data)
        if t.callee is None or not t.callee.path.startswith("tokio::sync::mpsc::Sender::<T>::send") or len(t.args) < 2:
            return None
        req = t.callee.args[0] if t.callee.args else None
        o = bi.trace(t.args[1])
        if o.kind == "agg":
            rv = bi.agg_at(o.data)
            if rv.j.get("ak") == "adt":
                return (rv.j["adt"], rv.j["variant"])
        return (req, None)

    # ------------------------------------------------------------------ sync facts
    def has_invalid_argument(self, body_id):
        if body_id in self._has_invalid:
            return self._has_invalid[body_id]
        res = False
        for bid in self.prog.cone(body_id, follow=INLINE):
            bi = self.prog.info(bid)
            if bi is None:
                continue
            if bi.body.coroutine and bid != body_id:
                continue
            for bb, t in bi.calls(lambda c: c.path == "tonic::Status::invalid_argument"):
                res = True
        self._has_invalid[body_id] = res
        return res

    def sync_shared_effects(self, body_id):
        """mutating effects on shared state executed synchronously by this body (own statements and
        non-async callees), keyed by block"""
        out = {}
        for e in self.prog.effects(body_id):
            if e.kind == "spawn_detached":
                if all(not self._is_coroutine(b) for b, _ in e.chain):
                    out.setdefault(e.bb, []).append(Event("E", "spawn task %s" % self.prog.short(e.lib), self.prog.loc(*e.leaf())))
                continue
            if e.kind not in L.MUTATING_KINDS or not e.cells:
                continue
            if e.spawned:
                continue
            if not any(o in self.shared_owners for o, f in e.cells):
                continue
            if any(self._is_coroutine(b) for b, _ in e.chain):
                continue
            cell = [c for c in e.cells if c[0] in self.shared_owners][-1]
            if e.kind == "atomic_rmw" and cell in self.raii_counters():
                continue        # a counter bumped by a constructor and un-bumped by the same type's Drop: cancellation undoes it
            out.setdefault(e.bb, []).append(Event("E", "%s %s.%s" % (e.kind, short_ty(cell[0]), cell[1]), self.prog.loc(*e.leaf())))
        return out

    def raii_counters(self):
        """atomic cells that some `Drop::drop` of the crate read-modify-writes: live-object counters (listeners, in-flight)"""
        if getattr(self, "_raii", None) is None:
            cells = set()
            for b in self.prog.facts.lib_bodies():
                if b.impl_trait in ("std::ops::Drop", "core::ops::Drop") and b.id.endswith("::drop"):
                    for e in self.prog.effects(b.id):
                        if e.kind == "atomic_rmw" and e.cells:
                            cells.add(e.cells[-1])
                            # the guard holds a reference to the counter (`struct Signal<'a>(.., &'a AtomicUsize)`): the counter is
                            # whatever its constructor is handed for that field
                            ty, fld = e.cells[-1]
                            f = self.prog.facts.adt_field(ty, fld)
                            if f is None or not f["ty"].startswith("&"):
                                continue
                            for (cb, cbb, _i, rv) in self.prog.constructions(ty):
                                ci = self.prog.info(cb)
                                names = rv.j.get("fields") or []
                                if fld not in names:
                                    continue
                                o = ci.trace(rv.ops[names.index(fld)])
                                if o.kind == "param" and not o.path:
                                    for xb in self.prog.facts.lib_bodies():
                                        xi = self.prog.info(xb.id)
                                        for bb, t in xi.calls(lambda c, cb=cb, xb=xb: self.prog.qual(xb, c.target) == cb):
                                            if len(t.args) >= o.data:
                                                ro = self.prog.receiver_origin(xi, t.args[o.data - 1])
                                                cells |= set(ro.cells()) if hasattr(ro, "cells") else set()
                                else:
                                    cells |= set(o.cells()) if hasattr(o, "cells") else set()
            self._raii = cells
        return self._raii

    def _is_coroutine(self, body_id):
        b = self.prog.facts.body(body_id)
        return b is not None and bool(b.coroutine)

    def task_effect_label(self, task_id):
        """does a spawned task perform any effect (sync shared mutation or mutating send)?"""
        if task_id in self._task_has_effect:
            return self._task_has_effect[task_id]
        labels = []
        for bid in self.prog.cone(task_id, follow=("call", "closure", "poll", "spawn-joinset", "spawn-detached-awaited")):
            bi = self.prog.info(bid)
            if bi is None:
                continue
            for evs in self.sync_shared_effects(bid).values():
                labels.extend(ev.label for ev in evs)
            for a in bi.awaits:
                if await_class(self.prog, bi, a) == "mpsc_send":
                    sv = self.send_variant(bi, a)
                    if sv and sv[1] and self.variant_info(*sv)[0] == "mutating":
                        labels.append("send %s::%s" % (short_ty(sv[0]), sv[1]))
        self._task_has_effect[task_id] = labels
        return labels

    # ------------------------------------------------------------------ per-body event table
    def events(self, body_id):
        """{bb: [Event]} for straight-line events; await sites are handled by the walker"""
        if body_id in self._events:
            return self._events[body_id]
        prog = self.prog
        bi = prog.info(body_id)
        ev = {}
        for bb, lst in self.sync_shared_effects(body_id).items():
            ev.setdefault(bb, []).extend(lst)
        for bb, t in bi.calls():
            c = t.callee
            if c.path == "tonic::Status::invalid_argument":
                ev.setdefault(bb, []).append(Event("V", "invalid_argument", bi.loc(bb)))
            elif (c.local or c.res_local) and not c.path.endswith("Future::poll"):
                dst = prog.qual(bi.body, c.target)
                db = prog.facts.body(dst)
                if db is not None and not db.coroutine and self.has_invalid_argument(dst):
                    # async fn wrappers only build the coroutine; their validation runs when awaited
                    kids = prog.facts.children(dst)
                    if not (kids and all(self._is_coroutine(k) for k in kids) and len(db.blocks) <= 4):
                        ev.setdefault(bb, []).append(Event("V", "may reject: %s" % prog.short(dst), bi.loc(bb)))
        # closures handed to library adapters (map_err(|e| ..), map(|x| parse(x))) run synchronously here
        for e in prog.edges(body_id):
            if e.kind == "closure":
                cb = prog.facts.body(e.dst)
                if cb is not None and not cb.coroutine and self.has_invalid_argument(e.dst):
                    # map_err closures turning an *actor error* into a status are not validation: only count closures
                    # whose cone calls a parser (a local fn that may reject)
                    if self._closure_parses(e.dst):
                        ev.setdefault(e.bb, []).append(Event("V", "may reject: %s" % prog.short(e.dst), bi.loc(e.bb)))
        self._events[body_id] = ev
        return ev

    def _closure_parses(self, closure_id):
        bi = self.prog.info(closure_id)
        for bb, t in bi.calls():
            c = t.callee
            if c.path == "tonic::Status::invalid_argument":
                # `map_err(|_| Status::invalid_argument(..))` on a failed library conversion (TryFromIntError, ..) is
                # validation happening *here*.  A closure that converts one of the crate's own error enums (the
                # result of an effectful operation) merely translates a rejection decided inside that operation;
                # where that decision sits relative to the operation's effects is R10.3's subject.
                ptys = [bi.body.local_ty(i) for i in range(2, bi.body.arg_count + 1)]
                if not any(t.startswith("crate::") and t.endswith("Error") for t in ptys):
                    return True
            if (c.local or c.res_local):
                dst = self.prog.qual(bi.body, c.target)
                if self.has_invalid_argument(dst):
                    return True
        return False


class Walker:
    """path-insensitive-in-data, path-sensitive-in-order walk of a root.
    state = (e1: Event|None, y: site|None).  Collects
      eye: (e1, y, e2) effect / cancellable yield / effect
      ev : (e1, v)     effect followed by a possible validation failure"""

    def __init__(self, model, lease_exempt=True, reset_on_stream_next=True):
        self.m = model
        self.prog = model.prog
        self.lease_exempt = lease_exempt
        self.reset = reset_on_stream_next
        self.eye = {}
        self.ev = {}
        self._memo = {}
        self._stack = []
        self._in_task = 0      # > 0 while walking a spawned task: its yields are not the root's

    # state helpers
    def _apply(self, states, event):
        out = set()
        for (e1, y) in states:
            if event.kind == "E":
                if e1 is not None and y is not None and self._in_task == 0:
                    self.eye.setdefault((e1.label, event.label), (e1, y, event))
                # the newest effect becomes e1 as well (keeps the first for reporting stability)
                out.add((e1 if e1 is not None else event, None if e1 is None else y))
                if e1 is not None:
                    out.add((event, None))
            elif event.kind == "Y":
                out.add((e1, event.site if e1 is not None else None) if y is None else (e1, y))
            elif event.kind == "V":
                if e1 is not None:
                    self.ev.setdefault((e1.label, event.label), (e1, event))
                out.add((e1, y))
            elif event.kind == "RESET":
                out.add((None, None))
        return out

    def run(self, body_id, in_states=None):
        """returns the set of states at the body's normal returns"""
        in_states = frozenset(in_states if in_states is not None else {(None, None)})
        key = (body_id, in_states)
        if key in self._memo:
            return self._memo[key]
        if body_id in self._stack:
            return set(in_states)
        self._stack.append(body_id)
        prog = self.prog
        bi = prog.info(body_id)
        body = bi.body
        events = self.m.events(body_id)
        awaits = {a.poll_bb: a for a in bi.awaits}
        spawns = {s.bb: s for s in bi.spawns}
        at = {0: set(in_states)}
        work = [0]
        ret = set()
        guard = 0
        while work and guard < 20000:
            guard += 1
            bb = work.pop()
            states = set(at[bb])
            blk = body.blocks[bb]
            nxt = None
            for e in events.get(bb, []):
                states = self._apply(states, e)
            sp = spawns.get(bb)
            if sp is not None and sp.kind == "detached" and sp.task is not None:
                labels = self.m.task_effect_label(sp.task)
                # the order of effects and validations *inside* the task matters for "a rejected request changes nothing"
                self._in_task += 1
                self.run(sp.task, set(states))
                self._in_task -= 1
                if labels and not any(ev.label.startswith("spawn task") for ev in events.get(bb, [])):
                    states = self._apply(states, Event("E", "task{%s}" % ", ".join(sorted(set(labels))[:3]), bi.loc(bb)))
            a = awaits.get(bb)
            if a is not None:
                states = self._await(bi, a, states)
                nxt = [a.ready_bb] if a.ready_bb is not None else []
            else:
                nxt = list(bi.cfg.succ[bb])
            if blk.term.k == "return":
                ret |= states
            for s in nxt:
                if s is None:
                    continue
                old = at.get(s)
                if old is None or not states <= old:
                    at[s] = (old or set()) | states
                    work.append(s)
        self._stack.pop()
        self._memo[key] = ret
        return ret

    def _leaf(self, bi, a, states, ty=None, cls=None, origin_call=None):
        cls = cls or await_class(self.prog, bi, a)
        site = bi.loc(a.poll_bb)
        with_y = self._apply(states, Event("Y", cls, site))
        states = states | with_y
        if cls == "mpsc_send":
            sv = self.m.send_variant(bi, a)
            if sv is not None and sv[1] is not None:
                kind, lease = self.m.variant_info(*sv)
                if kind != "readonly" and not (lease and self.lease_exempt):
                    states = self._apply(states, Event("E", "send %s::%s" % (short_ty(sv[0]), sv[1]), site, lease))
            elif sv is not None:
                states = self._apply(states, Event("E", "send %s::?" % short_ty(sv[0] or "?"), site))
        if cls == "stream_next" and self.reset:
            states = self._apply(states, Event("RESET", "next request", site))
        return states

    def _await(self, bi, a, states):
        prog = self.prog
        cls = await_class(prog, bi, a)
        if cls == "local":
            cid = prog.body_of_type(bi.body, a.fut_ty)
            return self.run(cid, states) or set(states)
        if cls == "select":
            outs = set()
            brs = a.select.branches
            for order in (brs, list(reversed(brs))):
                cur = set(states)
                for br in order:
                    cid = prog.body_of_type(bi.body, br.fut_ty)
                    if cid and prog.facts.body(cid) is not None:
                        r = self.run(cid, cur)
                        cur = cur | r          # a branch may be dropped at any of its suspension points
                    cur = cur | self._apply(cur, Event("Y", "select", bi.loc(a.poll_bb)))
                outs |= cur
            return outs
        if cls in ("join_next", "join_all", "shared") or cls.startswith("other:"):
            # (a future of a type the model does not know -- a RemoteHandle, a Timeout, an Abortable ..: whatever local
            # coroutine was wrapped into it runs under this await and is dropped with it)
            cur = set(states)
            # children: coroutine descendants created in this body that are not awaited directly
            awaited = {prog.body_of_type(bi.body, x.fut_ty) for x in bi.awaits}
            # a descendant that is handed to tokio::spawn (here, or in a plain closure of this body such as the initialiser of a
            # OnceLock) is a task of its own: it is not dropped with this await
            tasks = set()
            for d0 in [bi.body.id] + list(prog.facts.descendants(bi.body.id)):
                di0 = prog.info(d0)
                if di0 is None:
                    continue
                for sp0 in di0.spawns:
                    if sp0.task is not None and sp0.kind == "detached":        # (a JoinSet aborts its tasks when it is dropped)
                        tasks |= set(prog.cone(sp0.task, follow=("call", "closure", "poll")))
            for d in prog.facts.descendants(bi.body.id):
                db = prog.facts.body(d)
                if d in tasks:
                    continue
                if db is not None and db.coroutine and d not in awaited:
                    cur = cur | self.run(d, cur)
                    cur = cur | self._apply(cur, Event("Y", cls, bi.loc(a.poll_bb)))
            return cur | self._apply(cur, Event("Y", cls, bi.loc(a.poll_bb)))
        return self._leaf(bi, a, states, cls=cls)
