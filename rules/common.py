"""helpers shared by several rule files"""
import re
from engine import CheckBroken
import libmodel as L


def await_class(prog, bi, a):
    """classify what an await waits for"""
    ty = a.fut_ty or ""
    tgt = a.target or ""
    if a.select is not None:
        return "select"
    if ty.startswith("{coroutine:crate::") or ty.startswith("{coroutine:<crate::"):
        return "local"
    if tgt.startswith("tokio::sync::mpsc::Sender::<T>::send"):
        return "mpsc_send"
    if tgt.startswith("tokio::sync::mpsc::Receiver::<T>::recv"):
        return "mpsc_recv"
    if ty.startswith("tokio::sync::oneshot::Receiver<"):
        return "oneshot_recv"
    if ty == "tokio::time::Sleep":
        return "sleep"
    if ty.startswith("tokio::sync::futures::Notified"):
        return "notified"
    if ty.startswith("crate::subscriptions::futures::MessagesAvailable"):
        return "messages_available"
    if ty == "crate::subscriptions::futures::Deleted":
        return "deleted"
    if tgt.startswith("tokio::task::JoinSet::<T>::join_next"):
        return "join_next"
    if ty.startswith("tokio::task::JoinHandle<") or ty.startswith("tokio::runtime::task::JoinHandle<"):
        return "join_handle"
    if ty.startswith("async_stream::yielder::Send<"):
        return "stream_yield"
    if ty.startswith("tokio_stream::stream_ext::next::Next<"):
        return "stream_next"
    if ty.startswith("futures::future::TryJoinAll<") or ty.startswith("futures::future::JoinAll<"):
        return "join_all"
    if ty.startswith("futures::future::Shared<"):
        return "shared"
    if ty.startswith("reqwest::"):
        return "http"
    return "other:" + ty


def mpsc_send_request(bi, a):
    """request type T of an awaited `Sender<T>::send`"""
    if a.origin is not None and a.origin.kind == "call":
        t = bi.call_at(a.origin.data)
        if t.callee is not None and t.callee.path.startswith("tokio::sync::mpsc::Sender::<T>::send") and t.callee.args:
            return t.callee.args[0]
    return None


def short_ty(t):
    return re.sub(r"(?:[a-z_0-9]+::)+", "", t or "")


def fn_key(prog, body_id):
    """stable key of a body: path without crate prefix noise"""
    return prog.short(body_id)


def need(cond, msg):
    if not cond:
        raise CheckBroken(msg)


def skipped_only_when_empty(prog, bi, call_bb, operand):
    """A batch operation `op(batch)` at call_bb may be skipped for an empty batch (`if !batch.is_empty() { op(batch) }`),
    never for a non-empty one.  Returns None when that holds, else (block, text)."""
    from mapstate import _bool_switches
    from props.c12 import error_blocks
    key = bi.trace(operand).key()
    empty, nonempty = set(), set()
    for bb, t in bi.calls(lambda c: c.path.endswith("::is_empty")):
        if not t.args or t.dest is None or not t.dest.is_local():
            continue
        if bi.trace(t.args[0]).key() != key:
            continue
        for sw, tr, fa in _bool_switches(bi, t.dest.local):
            if tr is not None:
                empty |= bi.cfg.edge_dominated(sw, tr)
            if fa is not None:
                nonempty |= bi.cfg.edge_dominated(sw, fa)
    if call_bb in empty:
        return call_bb, "the operation runs only when its batch is empty: a non-empty batch is never applied"
    # from the entry, every normal path applies the batch, or knows it is empty, or is an error path
    esc = bi.cfg.escapes(0, {call_bb} | empty | error_blocks(bi), after=False)
    if esc is not None and empty:
        return esc[-1], "a path skips the operation although its batch may be non-empty"
    return None
