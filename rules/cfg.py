"""G1: control-flow graph utilities over a MIR body: successors/predecessors on normal
control flow (unwind edges and falseEdge imaginary targets are ignored), dominators,
post-dominators, reachability, must-pass-through, natural loops."""


class CFG:
    def __init__(self, body):
        self.body = body
        blocks = body.blocks
        self.n = len(blocks)
        self.succ = [[] for _ in range(self.n)]
        self.pred = [[] for _ in range(self.n)]
        # infeasible switch arms: `switch(discr(_x))` where _x's only definition is an aggregate of a known variant
        agg_variant = {}
        ndefs = {}
        for b in blocks:
            if b.cleanup:
                continue
            for st in b.stmts:
                if st.k == "assign" and st.lhs.is_local():
                    ndefs[st.lhs.local] = ndefs.get(st.lhs.local, 0) + 1
                    if st.rv.k == "agg" and st.rv.j.get("ak") == "adt" and st.rv.j.get("is_enum") and "vidx" in st.rv.j:
                        agg_variant[st.lhs.local] = st.rv.j["vidx"]
            if b.term.k == "call" and b.term.dest is not None and b.term.dest.is_local():
                ndefs[b.term.dest.local] = ndefs.get(b.term.dest.local, 0) + 2
        self.pruned = {}
        for b in blocks:
            if b.cleanup:
                continue
            succs = b.term.succs()
            t = b.term
            if t.k == "switch" and t.discr is not None and t.discr.place is not None and t.discr.place.is_local():
                for st in b.stmts:
                    if st.k == "assign" and st.lhs.is_local() and st.lhs.local == t.discr.place.local and st.rv.k == "discr" \
                            and st.rv.place.is_local() and ndefs.get(st.rv.place.local) == 1 and st.rv.place.local in agg_variant:
                        v = agg_variant[st.rv.place.local]
                        arms = dict(t.arms)
                        succs = [arms.get(v, t.otherwise)]
                        self.pruned[b.idx] = succs[0]
            for s in succs:
                if blocks[s].cleanup:
                    continue
                self.succ[b.idx].append(s)
                self.pred[s].append(b.idx)
        self.reach = self._reach_from(0)
        self.returns = [b.idx for b in blocks if b.term.k == "return" and b.idx in self.reach]
        self._dom = None
        self._pdom = None
        self._loops = None

    # ------------------------------------------------------------------ reachability
    def _reach_from(self, start, avoid=()):
        seen = set()
        stack = [start]
        avoid = set(avoid)
        while stack:
            x = stack.pop()
            if x in seen or x in avoid:
                continue
            seen.add(x)
            stack.extend(self.succ[x])
        return seen

    def reachable_from(self, start, avoid=()):
        """blocks reachable from `start` (inclusive) without entering `avoid` blocks"""
        return self._reach_from(start, avoid)

    def reachable_after(self, start, avoid=()):
        """blocks reachable from the *successors* of `start`"""
        seen = set()
        for s in self.succ[start]:
            if s not in avoid:
                seen |= self._reach_from(s, avoid)
        return seen

    def can_reach(self, a, b, avoid=()):
        return b in self._reach_from(a, avoid)

    def path(self, a, targets, avoid=()):
        """a shortest block path from a to any block in targets, avoiding `avoid`; None if none"""
        targets = set(targets)
        avoid = set(avoid)
        if a in targets:
            return [a]
        prev = {a: None}
        queue = [a]
        while queue:
            x = queue.pop(0)
            for s in self.succ[x]:
                if s in prev or s in avoid:
                    continue
                prev[s] = x
                if s in targets:
                    out = [s]
                    while prev[out[-1]] is not None:
                        out.append(prev[out[-1]])
                    return list(reversed(out))
                queue.append(s)
        return None

    # ------------------------------------------------------------------ dominators
    def dominators(self):
        if self._dom is not None:
            return self._dom
        order = self._rpo(0, self.succ)
        dom = self._idoms(order, self.pred, 0)
        self._dom = dom
        return dom

    def _rpo(self, start, succ):
        seen = set()
        post = []
        stack = [(start, iter(succ[start]))]
        seen.add(start)
        while stack:
            node, it = stack[-1]
            advanced = False
            for s in it:
                if s not in seen:
                    seen.add(s)
                    stack.append((s, iter(succ[s])))
                    advanced = True
                    break
            if not advanced:
                post.append(node)
                stack.pop()
        return list(reversed(post))

    def _idoms(self, order, pred, start):
        index = {b: i for i, b in enumerate(order)}
        idom = {start: start}
        changed = True
        while changed:
            changed = False
            for b in order:
                if b == start:
                    continue
                new = None
                for p in pred[b]:
                    if p in idom:
                        if new is None:
                            new = p
                        else:
                            new = self._intersect(idom, index, p, new)
                if new is not None and idom.get(b) != new:
                    idom[b] = new
                    changed = True
        return idom

    @staticmethod
    def _intersect(idom, index, a, b):
        while a != b:
            while index[a] > index[b]:
                a = idom[a]
            while index[b] > index[a]:
                b = idom[b]
        return a

    def dominates(self, a, b):
        """block a dominates block b (reflexive)"""
        idom = self.dominators()
        if b not in idom or a not in idom:
            return False
        x = b
        while True:
            if x == a:
                return True
            if idom[x] == x:
                return False
            x = idom[x]

    def post_dominators(self):
        """immediate post-dominators w.r.t. normal returns (virtual exit = n)"""
        if self._pdom is not None:
            return self._pdom
        n = self.n
        rsucc = [list(p) for p in self.pred] + [list(self.returns)]
        rpred = [list(s) for s in self.succ] + [[]]
        for r in self.returns:
            rpred[r] = rpred[r] + [n]
        order = self._rpo(n, rsucc)
        self._pdom = self._idoms(order, rpred, n)
        return self._pdom

    def post_dominates(self, a, b):
        """every path from b to a normal return passes through a"""
        pd = self.post_dominators()
        if b not in pd or a not in pd:
            return False
        x = b
        while True:
            if x == a:
                return True
            if pd[x] == x:
                return False
            x = pd[x]

    # ------------------------------------------------------------------ path properties
    def escapes(self, start, through, exits=None, after=True):
        """Return a block path from `start` to an exit (default: normal returns) that does NOT
        pass through any block of `through`; None if every such path passes through them."""
        exits = set(self.returns if exits is None else exits)
        through = set(through)
        if after:
            for s in self.succ[start]:
                if s in through:
                    continue
                p = self.path(s, exits, avoid=through)
                if p is not None:
                    return [start] + p
            if start in exits:
                return [start]
            return None
        if start in through:
            return None
        return self.path(start, exits, avoid=through)

    def edge_dominated(self, a, b):
        """blocks that can only be reached from the entry through the edge a -> b (control dependent on that arm)"""
        if b not in self.succ[a]:
            return set()
        seen = set()
        stack = [0]
        while stack:
            x = stack.pop()
            if x in seen:
                continue
            seen.add(x)
            for s in self.succ[x]:
                if x == a and s == b:
                    continue
                stack.append(s)
        return self.reach - seen

    def reach_avoiding_edges(self, start, edges):
        """blocks reachable from start when the given (src, dst) edges may not be taken: a block outside the result is
        only ever entered through one of those edges (disjunctive control dependence: `a || b`)"""
        edges = set(edges)
        seen = set()
        stack = [start]
        while stack:
            x = stack.pop()
            if x in seen:
                continue
            seen.add(x)
            for s in self.succ[x]:
                if (x, s) not in edges:
                    stack.append(s)
        return seen

    # ------------------------------------------------------------------ loops
    def back_edges(self):
        out = []
        for b in self.reach:
            for s in self.succ[b]:
                if self.dominates(s, b):
                    out.append((b, s))
        return out

    def loops(self):
        """natural loops: {header: set(blocks)}"""
        if self._loops is not None:
            return self._loops
        loops = {}
        for tail, head in self.back_edges():
            body = {head}
            stack = [tail]
            while stack:
                x = stack.pop()
                if x in body:
                    continue
                body.add(x)
                stack.extend(self.pred[x])
            loops.setdefault(head, set()).update(body)
        self._loops = loops
        return loops

    def in_loop(self, b):
        return [h for h, body in self.loops().items() if b in body]

    # ------------------------------------------------------------------ control dependence helper
    def edge_targets_leading_to(self, block, target_set):
        """which successors of `block` can reach a block in target_set"""
        out = []
        for s in self.succ[block]:
            if self._reach_from(s) & set(target_set):
                out.append(s)
        return out
