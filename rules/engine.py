"""Engine B: rule registry, three-valued verdicts, floors, known findings, evidence."""
import json
import os
import time
import traceback

HOLDS, VIOLATION, UNDECIDED = "HOLDS", "VIOLATION", "UNDECIDED"
VERIF = os.path.abspath(os.path.join(os.path.dirname(__file__), ".."))


class CheckBroken(Exception):
    pass


class Inst:
    """one rule instance: (rule template, slots filled from the facts, site)"""

    def __init__(self, rule, key, verdict, site="", detail="", path=None, nontrivial=True):
        self.rule = rule
        self.key = key              # stable: no line numbers, no block numbers
        self.verdict = verdict
        self.site = site            # file:line (for humans)
        self.detail = detail
        self.path = path or []
        self.nontrivial = nontrivial

    def full_key(self):
        return "%s:%s" % (self.rule, self.key)

    def to_json(self):
        d = {"rule": self.rule, "key": self.key, "verdict": self.verdict, "site": self.site, "detail": self.detail}
        if self.path:
            d["path"] = self.path
        return d


class Rule:
    def __init__(self, pid, rid, title, floor, fn, tier="quick"):
        self.pid, self.rid, self.title, self.floor, self.fn, self.tier = pid, rid, title, floor, fn, tier


REGISTRY = {}


def rule(pid, rid, title, floor=1, tier="quick"):
    """register a rule.  `floor` = minimum number of instances (hand-counted on the pinned tree);
    fewer instances => the check is broken (exit 2), never a vacuous pass."""

    def deco(fn):
        REGISTRY.setdefault(pid, []).append(Rule(pid, rid, title, floor, fn, tier))
        return fn

    return deco


class Out:
    """collector handed to each rule"""

    def __init__(self, rid):
        self.rid = rid
        self.items = []

    def add(self, key, verdict, site="", detail="", path=None, nontrivial=True):
        self.items.append(Inst(self.rid, key, verdict, site, detail, path, nontrivial))

    def holds(self, key, site="", detail="", **kw):
        self.add(key, HOLDS, site, detail, **kw)

    def violation(self, key, site="", detail="", path=None, **kw):
        self.add(key, VIOLATION, site, detail, path, **kw)

    def undecided(self, key, site="", detail="", **kw):
        self.add(key, UNDECIDED, site, detail, **kw)


def load_known():
    known, fixed = {}, {}
    p = os.path.join(VERIF, "known_findings.jsonl")
    if os.path.exists(p):
        for line in open(p):
            line = line.strip()
            if not line or line.startswith("#"):
                continue
            j = json.loads(line)
            if j.get("status") == "known":
                known[(j["property"], j["key"])] = j
            elif j.get("status") == "fixed":
                fixed[(j["property"], j["key"])] = j
    return known, fixed


def run_property(pid, prog, tier="quick", only_key=None):
    """returns (instances, broken_messages, per_rule_stats)"""
    rules = REGISTRY.get(pid, [])
    insts, broken, stats = [], [], []
    for r in rules:
        if r.tier == "thorough" and tier != "thorough":
            continue
        out = Out(r.rid)
        t0 = time.time()
        try:
            r.fn(prog, out)
        except CheckBroken as e:
            broken.append("%s: %s" % (r.rid, e))
        except Exception as e:  # a crash of a rule is a broken checker, never a verdict
            broken.append("%s: internal error %s: %s\n%s" % (r.rid, type(e).__name__, e, traceback.format_exc(limit=6)))
        n = len(out.items)
        has_violation = any(i.verdict == VIOLATION for i in out.items)
        if n < r.floor and not has_violation and not any(b.startswith(r.rid + ":") for b in broken):
            broken.append("%s: only %d instance(s) found, floor is %d (anchor moved or rule out of date)" % (r.rid, n, r.floor))
        stats.append({"rule": r.rid, "title": r.title, "instances": n, "floor": r.floor,
                      "holds": sum(1 for i in out.items if i.verdict == HOLDS),
                      "violations": sum(1 for i in out.items if i.verdict == VIOLATION),
                      "undecided": sum(1 for i in out.items if i.verdict == UNDECIDED),
                      "wall_s": round(time.time() - t0, 3)})
        insts.extend(out.items)
    if only_key is not None:
        insts = [i for i in insts if i.full_key() == only_key]
    return insts, broken, stats
